"""C11, creation-route family (helper of bounded/c11.py; run as the task kind ``routes``).

Dimension: EVERY CLASS-CREATION ROUTE x DECLARATIONS WITHOUT A DEFAULT for every Parameter type whose
type default is not None and that carries a length / bounds / pattern constraint.

  routes   stmt    a ``class`` statement (exec'd source text)
           class   call of the metaclass (what the older families use)
           type    the three-argument form of the builtin ``type(name, bases, namespace)``
           pclass  the public helper ``param.parameterized_class(name, params, bases)``
           addp    ``Cls.param.add_parameter(name, Parameter)`` on an existing class
           stmt* / type* / pclass*   the same route for EVERY declaring class of the hierarchy
  types    Number, Integer, Magnitude (bounds, inclusive_bounds; type defaults 0.0 / 0 / 1.0 with
           bounds (0, 1)), String, Bytes (regex; '' / b''), List, HookList (bounds = length bounds;
           []), Tuple, NumericTuple (length; (0, 0))
  tested   declaration of the LAST class: the constraint lattice (unspecified / satisfied by the type
           default / violated by the type default / violated by every value used) x default
           unspecified (quick) or any default of the pool (thorough)
  above    nothing declares the Parameter: the tested class is the root, is below one or two classes
           that skip it (then the merged default is the TYPE default and must satisfy the constraints
           the tested class declares, or the class must not come into being);
           or an ancestor declares it (any declaration of the family's pool: the unspecified slots --
           the default in particular -- are inherited and re-validated): chain2, chain3 with a
           skipping middle class, diamonds whose one arm declares.

Oracle: the independent resolver of bounded/c11.py (``merge`` / ``valid`` / ``expected_failure``,
written from the statement) -- the expected slots and "creation must fail" never depend on the route.
A declaration whose own constructor raises (``List(bounds=(1, 3))`` validates its placeholder []
itself on the unchanged tree) is refused before any class is involved: the case is counted as
"refused at declaration" and nothing is demanded of it (scope rule of the layer: declarations must
be individually constructible).  Whatever the constructor does, a class that EXISTS afterwards is
checked slot by slot and against "no class exists whose non-None default contradicts its bounds".
"""
import itertools
import zlib

from bounded import c11 as K

X = K._UNSPEC
RA, RB = '^a', '^[abc]*$'

# attr -> values per type; the first table gives the constraint lattice, the second the defaults
DOM = {
    'Number': dict(default=[X, 2, 7], bounds=[X, (0, 10), (1, 3), (5, None)], inclusive_bounds=[X, (False, False)]),
    'Integer': dict(default=[X, 2, 7], bounds=[X, (0, 10), (1, 3), (5, None)], inclusive_bounds=[X, (False, False)]),
    'Magnitude': dict(default=[X, 0.5], bounds=[X, (0.0, 0.4), (0.6, 1.0)]),
    'String': dict(default=[X, 'abc', 'xyz'], regex=[X, RA, RB, K.R2]),
    'Bytes': dict(default=[X, b'abc'], regex=[X, b'^a', b'^[abc]*$']),
    'List': dict(default=[X, [], [1, 2], [1, 2, 3, 4]], bounds=[X, (0, 3), (1, 3), (2, None), (None, 1)]),
    'HookList': dict(default=[X, []], bounds=[X, (0, 3), (1, 3), (2, None), (None, 1)]),
    'Tuple': dict(default=[X, (1, 2), (1, 2, 3)], length=[X, 2, 3]),
    'NumericTuple': dict(default=[X, (1, 2), (1, 2, 3)], length=[X, 2, 3]),
}
FAMS = {'NUM': ('Number', 'Integer', 'Magnitude'), 'STR': ('String', 'Bytes'),
        'LST': ('List', 'HookList'), 'TUP': ('Tuple', 'NumericTuple')}
ROUTES = ('stmt', 'type', 'pclass', 'addp', 'class', 'type*', 'pclass*', 'stmt*')
# (shape, positions: 'p' = a declaring ancestor, '-' = skips, 'd' = the tested declaration)
ROOT_SHAPES = (('chain1', 'd'), ('chain2', '-d'), ('chain3', '--d'))
ANC_SHAPES = (('chain2', 'pd'), ('chain3', 'p-d'), ('diamond', '-p-d'), ('diamond', '--pd'), ('diamond', 'p--d'))

_pools = {}


def pool(tname):
    """every declaration tname(**subset) over DOM[tname], constructible or not"""
    if tname not in _pools:
        dom = DOM[tname]
        attrs = [a for a in K.ATTR_ORDER if a in dom]
        out = []
        for combo in itertools.product(*(dom[a] for a in attrs)):
            out.append((tname, tuple((a, v) for a, v in zip(attrs, combo) if v is not X)))
        _pools[tname] = out
    return _pools[tname]


def has_default(d):
    return any(a == 'default' for a, _ in d[1])


def _h(*parts):
    return zlib.crc32('|'.join(str(p) for p in parts).encode())


def cases(fam, tier, seed):
    """-> iterator of (shape, decls, route) of the family (before the constructibility filter)"""
    thorough = tier == 'thorough'
    tested = [d for t in FAMS[fam] for d in pool(t) if thorough or not has_default(d)]
    above = [d for t in FAMS[fam] for d in pool(t)]
    for d in tested:
        for shape, pos in ROOT_SHAPES:
            for route in ROUTES:
                yield shape, tuple(None if c == '-' else d for c in pos), route
    for p in above:
        for d in tested:
            for si, (shape, pos) in enumerate(ANC_SHAPES):
                salt = _h(seed, fam, K.decl_text(p), K.decl_text(d), shape, pos)
                if si == 0 or thorough:
                    routes = ROUTES
                else:       # quick: deeper shapes with two of the routes, selected by the hash
                    routes = (ROUTES[salt % len(ROUTES)], ROUTES[(salt // 8 + 3) % len(ROUTES)])
                pp = K.with_peri(p, 'rt|%d|%s' % (seed, K.decl_text(p)))
                decls = tuple(None if c == '-' else (pp if c == 'p' else d) for c in pos)
                for route in dict.fromkeys(routes):
                    yield shape, decls, route


def block(fam, tier, seed, res, part, nparts):
    ok = {}

    def constructible(d):
        k = K.decl_text(d)
        if k not in ok:
            ok[k] = K.constructible(d)
        return ok[k]

    for idx, (shape, decls, route) in enumerate(cases(fam, tier, seed)):
        if idx % nparts != part:
            continue
        if not all(d is None or constructible(d) for d in decls[:-1]):
            res.skipped += 1
            continue
        res.cases += 1
        if not constructible(decls[-1]):
            # refused at declaration: no class can exist with this Parameter
            res.cnt.hit('C11/routes/refused-at-declaration (nothing demanded)')
            continue
        if any(d is not None for d in decls[:-1]):
            res.nontrivial += 1
        if len(res.samples) < 1 and idx % 211 == 17:
            res.samples.append({'key': K.case_key(shape, decls, route)})
        try:
            vs = K.run_case(shape, decls, route, res.cnt)
        except Exception as e:      # pragma: no cover - harness error
            res.add_fail('C11/harness/error', shape, decls, route, repr(e))
            continue
        for cl, at, det in vs:
            res.add_fail(cl, shape, decls, route, det)


def tasks(tier, seed):
    nparts = 8 if tier == 'thorough' else 2
    return [('routes', fam, tier, seed, p, nparts) for fam in FAMS for p in range(nparts)]


def count(tier, seed=0):
    return {fam: sum(1 for _ in cases(fam, tier, seed)) for fam in FAMS}


def bound_text(tier, seed=0):
    c = count(tier, seed)
    return ('creation-route family: %s (hierarchy, declarations, route) combinations [%s]: tested declaration = '
            'constraint lattice x %s of Number/Integer/Magnitude, String/Bytes, List/HookList, Tuple/NumericTuple; '
            'nothing above declares it (root, below 1-2 skipping classes) x all 8 routes (stmt, type, pclass, addp, '
            'class, stmt*, type*, pclass* = same route for every class); or any declaration of the family above it '
            '(chain2 x all routes; chain3 with a skipping middle class and three diamonds x %s)'
            % (sum(c.values()), ', '.join('%s:%d' % kv for kv in sorted(c.items())),
               'any default / no default' if tier == 'thorough' else 'NO default',
               'all routes' if tier == 'thorough' else 'two routes selected by the hash of the case'))
