"""Bounded stand-in layer for C12 -- instances and classes do not leak values or metadata into
each other.

Two sub-layers drive the REAL code of /repo through every history (interleaving) of length <= k
over a two-level hierarchy  A(Parameterized) <- B(A)  and up to two instances, re-creating the
classes for every history and comparing, after *every* step, with an oracle written from the
property statement:

* layer V (values):   one parameter ``p`` holding a list, variants instantiate in {False, True,
  List-default}, constant in {False, True}, B inheriting / redeclaring ``p``.  Oracle: a small
  ownership model -- every class / instance points to a *cell* (a model list); a class-level set
  gives that class a new cell, a subclass that never set follows its parent; an instance owns a
  cell iff it was assigned (``obj.p = v`` / constructor keyword), or the parameter is
  instantiate=True (fresh equal copy at construction), or constant (the very object the class had
  at construction); otherwise it follows its class.  In-place mutation mutates the cell.  After
  every step the value of every class and instance must equal the content of its cell and
  ``x is y`` must hold exactly between entities pointing to the same cell.

* layer R (reference keywords): layer V's parameter declared ``allow_refs=True`` and the extra
  creation operations ``NAn`` / ``NBn`` = constructor keyword ``p=<reference>`` whose reference yields
  NO value at construction time (variants: the bound function raises ``param.Skip``, returns
  ``param.Skip``, returns ``param.Undefined``, or the reference is an asynchronous generator that has
  not produced anything yet), and ``ITi`` = the source of instance i's reference changes so that the
  reference now yields a fresh list.  Oracle: the same ownership model -- a constructor that
  assigned nothing is a plain constructor (instantiate=True: fresh equal copy; constant: the
  object the class had; otherwise the instance follows its class), a reference that delivers a
  value is an assignment on that instance.  Only histories containing such a constructor are
  enumerated (the others are layer V's).

* layer M (metadata): ``s = Selector(objects=...)``, ``n = Number(5, bounds=(0, 10))``, variants
  per_instance in {True, False}, objects as list / dict, B inheriting / redeclaring.  Oracle: frame
  rule of the statement -- an operation on ONE instance (creating it, reading ``obj.param[..]``,
  assigning a value, appending to / assigning ``obj.param.s.objects``, assigning
  ``obj.param.n.bounds`` / ``obj.param.s.constant``, watching ``bounds`` on the instance) leaves the
  observation (objects, names, bounds, constant, watcher counts, values) of every class and every
  OTHER instance unchanged, unless per_instance=False (metadata part only); plus the value rules
  (an instance that set ``n`` keeps it, one that did not follows its class) and, for
  per_instance=False, the documented sharing ``obj.param[name] is <class Parameter>``.
  Class-level metadata operations are part of the histories (they create the aliasing
  opportunities) but the statement says nothing about who sees them, so nothing is demanded after
  them beyond the value rules.

* layer D (deep hierarchies): layer V's parameter ``p`` declared on the root of a CHAIN of four classes
  K0 <- K1 <- K2 <- K3 (instantiate x constant as in layer V), histories over: create an instance of class k
  (``N<k>``; ``N<k>e`` = with the keyword ``p=<the very object that is the class default>``), class-level set
  on class k (``C<k>``: every parameter reachable there), in-place mutation through class k (``M<k>``), reading
  the namespace of class k (``W<k>``: builds the parameter cache of THAT class only),
  ``K.param.add_parameter('q', <a new parameter of the same kind>)`` (``Q<k>``),
  ``K.param.add_parameter('p', ...)`` (``P<k>``), and on an instance: in-place mutation, read of
  ``obj.param[..]``, assignment of a fresh list, and ``IE<i>`` = assignment of THE VERY OBJECT that is the
  class default at that moment (``obj.p = type(obj).p``).  The same ownership model, per parameter name: a
  class follows the nearest ancestor that declares / was assigned the name; ``q`` is claimed only for
  instances created after the last ``add_parameter('q')`` (the statement says nothing about instances that
  existed before a parameter was added).  Besides all short histories the *guided* family
  [build the cache of a class >= 2 levels down] ; [add_parameter / class-level set anywhere] ; [create] ;
  [class-level set anywhere] is enumerated: the deep class has its cache while the classes in between never
  built one.

* layer E (explicitly assigned default): product, not histories -- parameter kind (None / small int / float /
  interned string / bool / tuple / Selector value / shared list / arbitrary object) x how the instance assigns
  a value that IS (or equals) the class default at that moment (``obj.p = Cls.p``, an equal literal,
  constructor keyword, ``param.update``) x class of the instance (A, B inheriting, B redeclaring) x when
  ``obj.param['p']`` is read x how the class default changes afterwards (``A.p = v``, ``B.p = v``,
  ``A.param['p'].default = v``).  Oracle: the instance that assigned keeps the object it assigned, a control
  instance of the same class that never assigned shows its class's value.

* layer S (attributes of the CLASS Parameter switched while instances exist): layer V's parameter and
  alphabet plus ``S<K>K`` / ``S<K>k`` = ``K.param.p.constant = True / False`` and ``S<K>T`` / ``S<K>t`` =
  ``K.param.p.instantiate = True / False`` (only on a class that has its own Parameter object -- A, B when it
  redeclares ``p`` or after a class-level set on B --, and only real changes).  Oracle: the same ownership
  model, the mode of a constructor (deep copy / the very class object / nothing) being given by the
  attributes the Parameter of the instance's class has AT THAT MOMENT: instances created after a switch
  behave according to the new attribute, instances created before keep what they got.  An instance-level
  assignment that is refused with TypeError (constant) is a no-op.  Lenient reading: once the default of a
  now-constant parameter is reassigned on the class while an instance created BEFORE the switch still
  follows its class, the statement is ambiguous (follow / pinned) and the rest of the history is not
  judged.  Only histories containing a switch are run (the others are layer V's).  Besides short histories
  the guided family [create] ; [switch] ; [create] ; [anything] ; [anything] is enumerated.

* layer I (inner members): layer V with NESTED values -- the outer container immutable or mutable, the
  mutable member inside: tuple of lists, tuple containing a dict, frozenset of a mutable hashable object,
  tuple of tuple of list, list of lists, dict of lists.  In-place mutation goes to the INNER member.  Same
  ownership model (a cell = the content of the inner member); in addition to ``x.p is y.p`` the inner
  members themselves must be the same object exactly between entities pointing to the same cell (a shallow
  copy, or no copy because the outer object is immutable, leaves them shared).  A few of these shapes are also
  run with layer S's switches.

* layer O (``bounded/c12_objs.py``): the ``objects`` a Selector / ListSelector INHERITS when a subclass redeclares the
  parameter without ``objects`` (class statement / ``add_parameter`` / copy-on-write of a class-level assignment), with
  check_on_set=False inherited or given there and a default outside the inherited objects; classes, siblings and
  instances are declared / created DURING the history.  Oracle: frame rule -- what a subclass or an instance does is
  never seen by the parent, a sibling, or their instances.
"""
import itertools
import logging
import multiprocessing as mp
import warnings
import zlib

from bounded._api import Bounded, REPLAY_HEADER
from bounded import c12_objs


def _header(**kw):
    """replay header; PYVC_REPO (a scratch copy of the library under test) overrides /repo"""
    return REPLAY_HEADER.format(**kw).replace(
        "sys.path.insert(0, '/repo')",
        "import os\nsys.path.insert(0, os.environ.get('PYVC_REPO', '/repo'))      # (PYVC_REPO: a scratch copy of the library under test)")


_param = None


def _P():
    global _param
    if _param is None:
        import param
        _param = param
        warnings.simplefilter('ignore')
        logging.getLogger('param').setLevel(logging.CRITICAL)
    return _param


MAXI = 2      # instances per history

# ---------------------------------------------------------------------------------------------
# layer V
# ---------------------------------------------------------------------------------------------
V_CONFIGS = ([dict(inst=i, const=c, sub=s, pi=True)
              for i in ('False', 'True', 'ListDefault') for c in (False, True) for s in ('inherit', 'redeclare')]
             + [dict(inst=i, const=c, sub='inherit', pi=False)
                for i in ('False', 'True', 'ListDefault') for c in (False, True)])


# layer R: the same parameter with allow_refs=True; ``nov`` = how the constructor's reference yields no value
NOV_KINDS = ('raise', 'ret', 'undef', 'agen')
R_CONFIGS = ([dict(inst=i, const=c, sub='inherit', pi=True, nov=n)
              for n in NOV_KINDS for i in ('False', 'ListDefault') for c in (False, True)]
             + [dict(inst='True', const=c, sub='inherit', pi=True, nov='raise') for c in (False, True)]
             + [dict(inst=i, const=c, sub='redeclare', pi=True, nov='raise')
                for i in ('False', 'ListDefault') for c in (False, True)])


# layers S / I: value shapes.  {L} = literal of the model list, {X} = expression of a value, {v} = an int
SHAPES = {
    'flat': dict(t=None, typ=list, mk='{L}', inner='{X}', mut='{X}.append({v})'),
    'tl': dict(t='Tuple', typ=tuple, mk='({L}, [7])', inner='{X}[0]', mut='{X}[0].append({v})'),
    'td': dict(t='Parameter', typ=tuple, mk="(dict(('k%d' % n, n) for n in {L}), 7)", inner='{X}[0]',
               mut="{X}[0]['k{v}'] = {v}", content='list({X}[0].values())'),
    'fs': dict(t='Parameter', typ=frozenset, mk='frozenset([Box({L})])', inner='next(iter({X})).items',
               mut='next(iter({X})).items.append({v})'),
    'tt': dict(t='Parameter', typ=tuple, mk='(({L},), 7)', inner='{X}[0][0]', mut='{X}[0][0].append({v})'),
    'll': dict(t='List', typ=list, mk='[{L}]', inner='{X}[0]', mut='{X}[0].append({v})'),
    'dl': dict(t='Dict', typ=dict, mk="{{'k': {L}}}", inner="{X}['k']", mut="{X}['k'].append({v})"),
}
for _s in SHAPES.values():
    _s.setdefault('content', 'list(%s)' % _s['inner'])
I_SHAPES = ('tl', 'td', 'fs', 'tt', 'll', 'dl')
I_CONFIGS = [dict(inst=i, const=c, sub=s, pi=True, shape=sh)
             for sh in I_SHAPES for i in ('False', 'True') for c in (False, True) for s in ('inherit', 'redeclare')]
S_CONFIGS = ([dict(inst=i, const=c, sub=s, pi=True, shape='flat')
              for i in ('False', 'True', 'ListDefault') for c in (False, True) for s in ('inherit', 'redeclare')]
             + [dict(inst=i, const=False, sub='inherit', pi=True, shape=sh) for sh in ('tl', 'fs') for i in ('False', 'True')])
S_OPS = tuple('S%s%s' % (c, w) for c in 'AB' for w in 'KkTt')
BOX_SOURCE = ('class Box:\n    """a hashable (by identity) object with a mutable member"""\n'
              '    def __init__(self, items):\n        self.items = items\n')
ISET_SOURCE = ('def iset(o, v):\n    """instance-level assignment; refused (TypeError) when the parameter is constant there"""\n'
               '    try:\n        o.p = v\n        return True\n    except TypeError:\n        return False\n')
_content_fn = {}


def content_of(shape, x):
    """the model-level content (a list) of a real value of this shape; raises when it has not the shape"""
    f = _content_fn.get(shape)
    if f is None:
        sh = SHAPES[shape]
        f = _content_fn[shape] = (eval('lambda X: ' + sh['content'].format(X='X')), eval('lambda X: ' + sh['inner'].format(X='X')))
    if type(x) is not SHAPES[shape]['typ']:
        raise TypeError('not a %s' % SHAPES[shape]['typ'].__name__)
    return f[0](x)


def inner_of(shape, x):
    content_of(shape, x)
    return _content_fn[shape][1](x)


def s_alphabet(cfg):
    ops = ['NA', 'NB', 'NBv', 'CA', 'CB', 'MA', 'MB'] + list(S_OPS)
    for i in range(MAXI):
        ops += ['IM%d' % i, 'IR%d' % i, 'IS%d' % i]
    return ops


def s_ok(cfg, ops, need_switch=True):
    """layer S: the history contains a switch; every switch really changes the attribute and is made on a
    class that has its own Parameter object (B shares A's until it redeclares / is assigned at class level)"""
    a = {'inst': cfg['inst'] != 'False', 'const': cfg['const']}
    attr = {'A': a, 'B': None if cfg['sub'] == 'inherit' else dict(a)}
    sw = False
    for op in ops:
        if op[0] == 'S':
            c, w = op[1], op[2]
            if attr[c] is None:
                return False
            key = 'const' if w in 'Kk' else 'inst'
            if attr[c][key] == w.isupper():
                return False
            attr[c][key] = w.isupper()
            sw = True
        elif op == 'CB' and attr['B'] is None:
            attr['B'] = dict(attr['A'])
    return sw or not need_switch


def s_guided(cfg, length):
    """[create] ; [switch] ; [create] (; [anything but a switch] (; [anything]))"""
    alpha = s_alphabet(cfg)
    tail = [o for o in alpha if o[0] != 'S']
    for n1 in ('NA', 'NB', 'NBv'):
        for sw in S_OPS:
            for n2 in ('NA', 'NB', 'NBv'):
                h = (n1, sw, n2)
                if not s_ok(cfg, h):
                    continue
                if length == 3:
                    yield h
                    continue
                for y in tail:
                    if y[0] == 'N':
                        continue
                    if length == 4:
                        yield h + (y,)
                        continue
                    for z in alpha:
                        h5 = h + (y, z)
                        if z[0] != 'N' and s_ok(cfg, h5) and valid_history(h5):
                            yield h5


def v_alphabet(cfg):
    ops = ['NA', 'NB', 'NBv', 'CA', 'CB', 'MA', 'MB']
    nov = cfg.get('nov')
    if nov:
        ops[3:3] = ['NAn', 'NBn']
    for i in range(MAXI):
        ops += ['IM%d' % i, 'IR%d' % i]
        if not cfg['const']:
            ops.append('IS%d' % i)
        if nov and nov != 'agen':
            ops.append('IT%d' % i)
    return ops


def cfg_text(cfg):
    return ','.join('%s=%s' % (k, cfg[k]) for k in sorted(cfg))


def v_class_source(cfg):
    kw = []
    shape = cfg.get('shape')
    if shape and shape != 'flat':
        return shaped_class_source(cfg)
    if cfg['inst'] == 'ListDefault':
        t = 'List'
    else:
        t = 'Parameter'
        kw.append('instantiate=%s' % cfg['inst'])
    if cfg['const']:
        kw.append('constant=True')
    if not cfg['pi']:
        kw.append('per_instance=False')
    nov = cfg.get('nov')
    if nov:
        kw.append('allow_refs=True')
    a = 'class A(param.Parameterized):\n    p = param.%s(default=[0]%s)\n' % (t, ''.join(', ' + k for k in kw))
    if cfg['sub'] == 'inherit':
        b = 'class B(A):\n    pass\n'
    else:
        b = 'class B(A):\n    p = param.%s()\n' % t
    return a + b + (NOV_SOURCE[nov] if nov else '') + (ISET_SOURCE if shape else '')


def shaped_class_source(cfg):
    """layers I / S with a nested value: B's redeclaration repeats ``instantiate`` (List / Dict would
    otherwise fall back to their own default True, which is C11's business, not this property's)"""
    sh = SHAPES[cfg['shape']]
    kw = ['instantiate=%s' % cfg['inst']] + (['constant=True'] if cfg['const'] else [])
    a = 'class A(param.Parameterized):\n    p = param.%s(default=%s, %s)\n' % (
        sh['t'], sh['mk'].format(L='[0]'), ', '.join(kw))
    if cfg['sub'] == 'inherit':
        b = 'class B(A):\n    pass\n'
    else:
        b = 'class B(A):\n    p = param.%s(instantiate=%s)\n' % (sh['t'], cfg['inst'])
    return (BOX_SOURCE if cfg['shape'] == 'fs' else '') + a + b + ISET_SOURCE


_SRC = ('class Src(param.Parameterized):\n    n = param.Integer(default=0)\n'
        'srcs = {}\n'
        'def ref():\n'
        '    """a reference for the instance created next: yields no value while its source has n == 0"""\n'
        '    s = srcs[len(insts)] = Src()\n'
        '    return param.bind(fn, s.param.n)\n'
        'def fn(n):\n    if n == 0:\n        %s\n    return [n]\n')
NOV_SOURCE = {
    'raise': _SRC % 'raise param.Skip()',
    'ret': _SRC % 'return param.Skip',
    'undef': _SRC % 'return param.Undefined',
    'agen': ('param.parameterized.async_executor = lambda task: None    # nothing is ever delivered\n'
             'async def agen():\n    yield [1]\n'
             'def ref():\n    return agen\n'),
}


_code = {}


def _compiled(src):
    c = _code.get(src)
    if c is None:
        c = _code[src] = compile(src, '<c12>', 'exec')
    return c


def _mk_classes(src):
    ns = {'param': _P()}
    exec(_compiled(src), ns)
    return ns['A'], ns['B']


def op_source(op, k, cfg=None):
    """Python statement performing ``op`` (k = step number, used to make fresh values)."""
    kind, arg = op.rstrip('0123456789'), op[len(op.rstrip('0123456789')):]
    i = arg
    if cfg is not None and cfg.get('shape'):
        sh = SHAPES[cfg['shape']]
        v = 100 + k
        lit = sh['mk'].format(L='[%d]' % v)
        if kind[0] == 'S':
            return '%s.param.p.%s = %s' % (kind[1], 'constant' if kind[2] in 'Kk' else 'instantiate', kind[2].isupper())
        return {
            'NA': 'insts.append(A())', 'NB': 'insts.append(B())', 'NBv': 'insts.append(B(p=%s))' % lit,
            'CA': 'A.p = %s' % lit, 'CB': 'B.p = %s' % lit,
            'MA': sh['mut'].format(X='A.p', v=v), 'MB': sh['mut'].format(X='B.p', v=v),
            'IM': sh['mut'].format(X='insts[%s].p' % i, v=v), 'IR': "insts[%s].param['p']" % i,
            'IS': 'ok = iset(insts[%s], %s)' % (i, lit),
        }[kind]
    return {
        'NA': 'insts.append(A())', 'NB': 'insts.append(B())', 'NBv': 'insts.append(B(p=[%d]))' % (100 + k),
        'NAn': 'insts.append(A(p=ref()))', 'NBn': 'insts.append(B(p=ref()))',
        'IT': 'srcs[%s].n = %d' % (i, 100 + k),
        'CA': 'A.p = [%d]' % (100 + k), 'CB': 'B.p = [%d]' % (100 + k),
        'MA': 'A.p.append(%d)' % (100 + k), 'MB': 'B.p.append(%d)' % (100 + k),
        'IM': 'insts[%s].p.append(%d)' % (i, 100 + k), 'IR': "insts[%s].param['p']" % i,
        'IS': 'insts[%s].p = [%d]' % (i, 100 + k),
    }[kind]


def _it_allowed(pre, i):
    """ITi needs instance i to have been constructed with a reference, and the link must still be
    there: an instance-level assignment of a plain value replaces the reference (what the source
    does afterwards is then no concern of this property, so it is not generated)."""
    made = [o for o in pre if o[0] == 'N']
    return made[i].endswith('n') and ('IS%d' % i) not in pre


def valid_history(ops):
    made = []
    for j, op in enumerate(ops):
        if op[0] == 'N':
            if len(made) >= MAXI:
                return False
            made.append(op)
        elif op[0] == 'I':
            if int(op[-1]) >= len(made):
                return False
            if op[:2] == 'IT' and not _it_allowed(ops[:j], int(op[-1])):
                return False
    return True


def histories(alphabet, length, first=None):
    """All valid histories of exactly ``length`` operations (prefixes are checked step by step)."""
    def rec(pre, n):
        if len(pre) == length:
            yield tuple(pre)
            return
        for op in alphabet:
            if op[0] == 'N':
                if n >= MAXI:
                    continue
                pre.append(op)
                yield from rec(pre, n + 1)
                pre.pop()
            elif op[0] == 'I':
                if int(op[-1]) >= n:
                    continue
                if op[:2] == 'IT' and not _it_allowed(pre, int(op[-1])):
                    continue
                pre.append(op)
                yield from rec(pre, n)
                pre.pop()
            else:
                pre.append(op)
                yield from rec(pre, n)
                pre.pop()
    if first is None:
        yield from rec([], 0)
    elif first[0] == 'N':
        yield from rec([first], 1)
    elif first[0] != 'I':
        yield from rec([first], 0)


class VModel:
    """Ownership model written from the statement."""

    def __init__(self, cfg):
        self.cfg = cfg
        self.instantiate = cfg['inst'] != 'False'
        self.const = cfg['const']
        self.cells = {0: [0]}
        self.next = 1
        self.cls = {'A': 0, 'B': None if cfg['sub'] == 'inherit' else 0}
        self.insts = []      # [class name, own cell or None]

    def new(self, content):
        c = self.next
        self.next += 1
        self.cells[c] = list(content)
        return c

    def cls_cell(self, k):
        return self.cls[k] if self.cls[k] is not None else self.cls['A']

    def inst_cell(self, i):
        k, own = self.insts[i]
        return own if own is not None else self.cls_cell(k)

    def apply(self, op, k):
        kind = op.rstrip('0123456789')
        v = 100 + k
        if kind in ('NA', 'NB', 'NAn', 'NBn'):     # a constructor whose reference yields no value assigns nothing
            c = kind[1]
            instantiate, const = self.mode(c)
            if instantiate:
                own = self.new(self.cells[self.cls_cell(c)])
            elif const:
                own = self.cls_cell(c)
            else:
                own = None
            self.insts.append([c, own])
        elif kind == 'NBv':
            self.insts.append(['B', self.new([v])])
        elif kind == 'CA':
            self.cls['A'] = self.new([v])
        elif kind == 'CB':
            self.cls['B'] = self.new([v])
        elif kind == 'MA':
            self.cells[self.cls_cell('A')].append(v)
        elif kind == 'MB':
            self.cells[self.cls_cell('B')].append(v)
        elif kind == 'IM':
            self.cells[self.inst_cell(int(op[-1]))].append(v)
        elif kind in ('IS', 'IT'):                 # IT: the reference delivers a fresh list = an assignment
            self.insts[int(op[-1])][1] = self.new([v])
        elif kind == 'IR':
            pass

    def entities(self):
        out = [('A', self.cls_cell('A')), ('B', self.cls_cell('B'))]
        out += [('insts[%d]' % i, self.inst_cell(i)) for i in range(len(self.insts))]
        return out

    def mode(self, c):
        """(instantiate, constant) of the Parameter governing class c at this moment"""
        return self.instantiate, self.const


class SModel(VModel):
    """layer S: the attributes of the class Parameters change during the history"""

    def __init__(self, cfg):
        VModel.__init__(self, cfg)
        a = {'inst': self.instantiate, 'const': self.const}
        self.attr = {'A': a, 'B': None if cfg['sub'] == 'inherit' else dict(a)}
        self.ambiguous = False

    def pattr(self, c):
        return self.attr[c] if self.attr[c] is not None else self.attr['A']

    def mode(self, c):
        a = self.pattr(c)
        return a['inst'], a['const']

    def apply(self, op, k):
        kind = op.rstrip('0123456789')
        if kind[0] == 'S':
            self.pattr(kind[1])['const' if kind[2] in 'Kk' else 'inst'] = kind[2].isupper()
            return
        if kind == 'CB' and self.attr['B'] is None:          # copy-on-write: B gets its own Parameter object
            self.attr['B'] = dict(self.attr['A'])
        # A *stale follower* = an instance created while its parameter was neither instantiate nor constant, never
        # assigned, whose parameter has since been switched to instantiate / constant.  "follows the class" and
        # "copied per instance / keeps the object it had" pull in different directions once the value it shows is
        # reassigned or mutated: not judged any further.
        stale = [i for i, (c, own) in enumerate(self.insts) if own is None and any(self.mode(c))]
        if stale:
            if kind in ('CA', 'CB'):
                hit = [i for i in stale if self.insts[i][0] == kind[1]
                       or (kind == 'CA' and self.cls['B'] is None)]
            elif kind in ('MA', 'MB'):
                hit = [i for i in stale if self.inst_cell(i) == self.cls_cell(kind[1])]
            elif kind == 'IM':
                hit = [i for i in stale if self.inst_cell(i) == self.inst_cell(int(op[-1]))]
            else:
                hit = []
            if hit:
                self.ambiguous = True
        VModel.apply(self, op, k)


def _ekind(op, name, ninst):
    kind = op.rstrip('0123456789')
    if kind[0] == 'N':
        actor = 'insts[%d]' % (ninst - 1)
    elif kind[0] == 'I':
        actor = 'insts[%s]' % op[-1]
    else:
        actor = kind[1]
    if name == actor:
        return 'actor'
    return 'class-' + name if name in 'AB' else 'other-instance'


def _adopt(model, ents, vals):
    """After a reported violation: adopt the real state as the model state, so that the rest of
    the history is still checked (relative to it)."""
    seen = {}
    cells = {}
    ecell = {}
    for (name, _), r in zip(ents, vals):
        if id(r) not in seen:
            seen[id(r)] = model.next
            cells[model.next] = list(r) if isinstance(r, list) else [repr(r)]
            model.next += 1
        ecell[name] = seen[id(r)]
    model.cells = cells
    follow_b = model.cls['B'] is None and ecell['B'] == ecell['A']
    model.cls['A'] = ecell['A']
    model.cls['B'] = None if follow_b else ecell['B']
    for i, ic in enumerate(model.insts):
        c = ecell['insts[%d]' % i]
        if ic[1] is None and c == model.cls_cell(ic[0]):
            continue
        ic[1] = c


def v_run_all(cfg, ops, hits=None):
    """Run one history on the real code; -> list of (step, clause, detail, check); ``check`` is a
    python expression (over A, B, insts) with the value the ownership model gives.  At most one
    violation per step; after a violation the model adopts the real state and goes on."""
    saved_executor = _P().parameterized.async_executor
    try:
        return _v_run_all(cfg, ops, hits)
    finally:
        _P().parameterized.async_executor = saved_executor      # (layer R, nov=agen installs a no-op)


def _v_run_all(cfg, ops, hits):
    env = {'param': _P()}
    exec(_compiled(v_class_source(cfg)), env)
    env['insts'] = []
    shape = cfg.get('shape')
    if shape:
        return _s_run_all(cfg, ops, hits, env, shape)
    model = VModel(cfg)
    out = []
    for k, op in enumerate(ops):
        try:
            exec(_compiled(op_source(op, k)), env)
        except Exception as e:
            out.append((k, 'C12/V/operation-raised', '%s raised %r' % (op, e), None))
            return out
        model.apply(op, k)
        ents = model.entities()
        vals = [eval(name + '.p', env) for name, _ in ents]
        if hits is not None:
            hits[0] += len(ents)
            hits[1] += len(ents) * (len(ents) - 1) // 2
        kind = op.rstrip('0123456789')
        bad = None
        for (name, cell), real in zip(ents, vals):
            want = model.cells[cell]
            if type(real) is not list or real != want:
                bad = (k, 'C12/V/value/%s/%s' % (kind, _ekind(op, name, len(model.insts))),
                       'after %s: %s.p is %r, ownership model gives %r' % (op, name, real, want),
                       ('%s.p' % name, list(want)))
                break
        if bad is None:
            for a in range(len(ents)):
                for b in range(a + 1, len(ents)):
                    same = vals[a] is vals[b]
                    want = ents[a][1] == ents[b][1]
                    if same != want and bad is None:
                        bad = (k, 'C12/V/identity/%s/%s' % (kind, 'unexpected-alias' if same else 'unexpected-copy'),
                               'after %s: (%s.p is %s.p) is %r, ownership model gives %r'
                               % (op, ents[a][0], ents[b][0], same, want),
                               ('%s.p is %s.p' % (ents[a][0], ents[b][0]), want))
        if bad is not None:
            out.append(bad)
            _adopt(model, ents, vals)
    return out


def _s_adopt(model, ents, vals, shape):
    """_adopt for shaped values: cells are re-derived from the identity of the real INNER members"""
    seen, cells, ecell = {}, {}, {}
    for (name, _), r in zip(ents, vals):
        try:
            inner, cont = inner_of(shape, r), list(content_of(shape, r))
        except Exception:
            inner, cont = r, [repr(r)]
        if id(inner) not in seen:
            seen[id(inner)] = model.next
            cells[model.next] = cont
            model.next += 1
        ecell[name] = seen[id(inner)]
    model.cells = cells
    follow_b = model.cls['B'] is None and ecell['B'] == ecell['A']
    model.cls['A'] = ecell['A']
    model.cls['B'] = None if follow_b else ecell['B']
    for i, ic in enumerate(model.insts):
        c = ecell['insts[%d]' % i]
        if ic[1] is None and c == model.cls_cell(ic[0]):
            continue
        ic[1] = c


def _s_run_all(cfg, ops, hits, env, shape):
    """layers S and I: values of shape ``shape``, switches of the class Parameter's attributes"""
    sh = SHAPES[shape]
    model = SModel(cfg)
    out = []
    for k, op in enumerate(ops):
        kind = op.rstrip('0123456789')
        try:
            exec(_compiled(op_source(op, k, cfg)), env)
        except Exception as e:
            out.append((k, 'C12/V/operation-raised', '%s raised %r' % (op, e), None))
            return out
        if kind == 'IS' and not env['ok']:
            continue                      # refused (constant): a no-op; the statement does not say when it must be accepted
        model.apply(op, k)
        if model.ambiguous:
            return out
        if kind[0] == 'S':
            attr = 'constant' if kind[2] in 'Kk' else 'instantiate'
            if hits is not None:
                hits[1] += 1
            if getattr(env[kind[1]].param.p, attr) is not kind[2].isupper():
                out.append((k, 'C12/V/effect/%s/switch-lost' % kind[:2],
                            'after %s: %s.param.p.%s is %r' % (op, kind[1], attr, getattr(env[kind[1]].param.p, attr)),
                            ('%s.param.p.%s' % (kind[1], attr), kind[2].isupper())))
                return out
        ents = model.entities()
        vals = [eval(name + '.p', env) for name, _ in ents]
        if hits is not None:
            hits[0] += len(ents)
            hits[1] += len(ents) * (len(ents) - 1) // 2
        bad = None
        inners = []
        for (name, cell), real in zip(ents, vals):
            want = model.cells[cell]
            try:
                got = content_of(shape, real)
                inners.append(inner_of(shape, real))
            except Exception:
                got = None
            if got != want:
                bad = (k, 'C12/V/value/%s/%s' % (kind, _ekind(op, name, len(model.insts))),
                       'after %s: %s.p is %r, ownership model gives %s' % (op, name, real, sh['mk'].format(L=repr(want))),
                       (sh['content'].format(X='%s.p' % name), list(want)))
                break
        if bad is None:
            for a in range(len(ents)):
                for b in range(a + 1, len(ents)):
                    if bad is not None:
                        break
                    want = ents[a][1] == ents[b][1]
                    same = vals[a] is vals[b]
                    if same != want:
                        bad = (k, 'C12/V/identity/%s/%s' % (kind, 'unexpected-alias' if same else 'unexpected-copy'),
                               'after %s: (%s.p is %s.p) is %r, ownership model gives %r'
                               % (op, ents[a][0], ents[b][0], same, want),
                               ('%s.p is %s.p' % (ents[a][0], ents[b][0]), want))
                        continue
                    if shape == 'flat':
                        continue
                    same = inners[a] is inners[b]
                    if same != want:
                        ia, ib = (sh['inner'].format(X='%s.p' % ents[j][0]) for j in (a, b))
                        bad = (k, 'C12/V/inner-identity/%s/%s' % (kind, 'unexpected-alias' if same else 'unexpected-copy'),
                               'after %s: (%s is %s) is %r (the mutable member inside the %s), ownership model gives %r'
                               % (op, ia, ib, same, sh['typ'].__name__, want),
                               ('%s is %s' % (ia, ib), want))
        if bad is not None:
            out.append(bad)
            if '/inner-identity/' in bad[1]:
                return out            # outer objects distinct, members shared: no cell assignment describes that state
            _s_adopt(model, ents, vals, shape)
    return out


def v_run(cfg, ops, hits=None):
    r = v_run_all(cfg, ops, hits)
    return r[0] if r else None


# ---------------------------------------------------------------------------------------------
# layer M
# ---------------------------------------------------------------------------------------------
M_CONFIGS = [dict(pi=pi, okind=ok, sub=s)
             for pi in (True, False) for ok in ('list', 'dict') for s in ('inherit', 'redeclare')]
M_INST_OPS = ('IR', 'IOA', 'IOS', 'IBC', 'IW', 'IS')
M_CLASS_OPS = ('COA', 'COS', 'CBD', 'CS', 'CW')


def m_alphabet(cfg):
    ops = ['NA', 'NB']
    for i in range(MAXI):
        ops += ['%s%d' % (o, i) for o in M_INST_OPS]
    for c in 'AB':
        ops += ['%s%s' % (o, c) for o in M_CLASS_OPS]
    return ops


def m_class_source(cfg):
    objs = '[1, 2, 3]' if cfg['okind'] == 'list' else "{'a': 1, 'b': 2, 'c': 3}"
    pi = '' if cfg['pi'] else ', per_instance=False'
    a = ('class A(param.Parameterized):\n'
         '    s = param.Selector(objects=%s, default=1%s)\n'
         '    n = param.Number(default=5, bounds=(0, 10)%s)\n' % (objs, pi, pi))
    if cfg['sub'] == 'inherit':
        b = 'class B(A):\n    pass\n'
    else:
        b = 'class B(A):\n    s = param.Selector()\n    n = param.Number()\n'
    return a + 'def cb(*events):\n    pass\n' + b


def m_op_source(op, k, cfg):
    v = 100 + k
    if op in ('NA', 'NB'):
        return 'insts.append(%s())' % op[1]
    kind, arg = op[:-1], op[-1]
    dict_ = cfg['okind'] == 'dict'
    if kind == 'IR':
        return "insts[%s].param['s']; insts[%s].param['n']" % (arg, arg)
    if kind == 'IOA':
        return ("insts[%s].param['s'].objects['k%d'] = %d" % (arg, v, v) if dict_
                else "insts[%s].param['s'].objects.append(%d)" % (arg, v))
    if kind == 'IOS':
        return ("insts[%s].param['s'].objects = {'a': 1, 'z': %d}" % (arg, v) if dict_
                else "insts[%s].param['s'].objects = [1, %d]" % (arg, v))
    if kind == 'IBC':
        return "insts[%s].param['n'].bounds = (0, %d); insts[%s].param['s'].constant = True" % (arg, v, arg)
    if kind == 'IW':
        return "insts[%s].param.watch(cb, ['n'], what='bounds')" % arg
    if kind == 'IS':
        return 'insts[%s].n = %d' % (arg, 6 + k % 4)
    if kind == 'COA':
        return ("%s.param['s'].objects['k%d'] = %d" % (arg, v, v) if dict_
                else "%s.param['s'].objects.append(%d)" % (arg, v))
    if kind == 'COS':
        return ("%s.param['s'].objects = {'a': 1, 'y': %d}" % (arg, v) if dict_
                else "%s.param['s'].objects = [1, %d]" % (arg, v))
    if kind == 'CBD':
        return "%s.param['n'].bounds = (0, %d)" % (arg, v)
    if kind == 'CS':
        return '%s.n = %d; %s.s = 1' % (arg, 1 + k % 4, arg)
    if kind == 'CW':
        return "%s.param.watch(cb, ['n'], what='bounds')" % arg
    raise AssertionError(op)


OBS_SRC = '''
import inspect
def _pobs(p):
    w = getattr(p, 'watchers', {})
    return {'objects': list(p.objects) if hasattr(p, 'objects') else None,
            'names': dict(p.names) if hasattr(p, 'names') else None,
            'bounds': getattr(p, 'bounds', None), 'constant': p.constant,
            'watchers': sorted((k, len(v)) for k, v in w.items())}
def obs_class(K):
    """what the class sees: the Parameter objects governing attribute access on K, and K's values"""
    return {'s': _pobs(inspect.getattr_static(K, 's')), 'n': _pobs(inspect.getattr_static(K, 'n')),
            'value_s': K.s, 'value_n': K.n}
def obs_inst(o):
    """what the instance sees, without creating per-instance Parameter objects"""
    ps = o.param.objects('existing')
    return {'s': _pobs(ps['s']), 'n': _pobs(ps['n']), 'value_s': o.s, 'value_n': o.n}
'''


def m_run(cfg, ops, hits=None):
    ns = {'param': _P()}
    exec(_compiled(m_class_source(cfg) + OBS_SRC), ns)
    env = ns
    env['insts'] = []
    A, B = env['A'], env['B']
    obs_class, obs_inst = env['obs_class'], env['obs_inst']
    own_n = []           # per instance: value assigned to n, or None
    icls = []

    def snapshot():
        d = {'A': obs_class(A), 'B': obs_class(B)}
        for i, o in enumerate(env['insts']):
            d['insts[%d]' % i] = obs_inst(o)
        return d

    for k, op in enumerate(ops):
        inst_level = op[0] in 'NI'
        before = snapshot() if inst_level else None
        try:
            exec(_compiled(m_op_source(op, k, cfg)), env)
        except Exception as e:
            return k, 'C12/M/operation-raised', '%s raised %r' % (op, e), None
        if op in ('NA', 'NB'):
            own_n.append(None)
            icls.append(op[1])
            me = 'insts[%d]' % (len(icls) - 1)
        elif inst_level:
            me = 'insts[%s]' % op[-1]
            if op[:-1] == 'IS':
                own_n[int(op[-1])] = 6 + k % 4
        after = snapshot()
        if inst_level:
            kind = op if op in ('NA', 'NB') else op[:-1]
            meta_exempt = (not cfg['pi']) and kind in ('IOA', 'IOS', 'IBC', 'IW')
            for e, b in before.items():
                if e == me:
                    continue
                a = after[e]
                for key in ('s', 'n', 'value_s', 'value_n'):
                    if hits is not None:
                        hits[0] += 1
                    if key in ('s', 'n') and meta_exempt:
                        continue
                    if a[key] != b[key]:
                        diff = key
                        if isinstance(a[key], dict):
                            diff = key + '.' + '+'.join(f for f in a[key] if a[key][f] != b[key][f])
                        what = 'class' if e in 'AB' else 'other-instance'
                        return (k, 'C12/M/frame/%s-sees-%s' % (what, diff.split('.')[-1] if '.' in diff else diff),
                                '%s on %s changed what %s sees: %s was %r, now %r' % (op, me, e, diff, b[key], a[key]),
                                ('frame', e, key))
            if kind == 'IR':
                if hits is not None:
                    hits[0] += 1
                # (the per-instance copy starts without the class-level watchers: by design)
                strip = lambda d: {k: ({f: x for f, x in v.items() if f != 'watchers'} if isinstance(v, dict) else v)
                                   for k, v in d.items()}
                if strip(after[me]) != strip(before[me]):
                    return (k, 'C12/M/read-changes-own-view', 'reading %s.param[...] changed its own observation: %r -> %r'
                            % (me, before[me], after[me]), ('frame', me, None))
                if not cfg['pi']:
                    o = env['insts'][int(op[-1])]
                    if hits is not None:
                        hits[1] += 1
                    if o.param['s'] is not type(o).param['s']:
                        return (k, 'C12/M/per_instance=False/not-shared',
                                'per_instance=False but obj.param[name] is not the class Parameter', ('shared', me, None))
            # effect (vacuity guard): the instance itself sees its own modification
            o = env['insts'][int(me[6:-1])]
            if kind == 'IBC':
                if hits is not None:
                    hits[1] += 1
                if o.param['n'].bounds != (0, 100 + k) or o.param['s'].constant is not True:
                    return (k, 'C12/M/effect/own-modification-lost', 'bounds/constant assigned on %s not visible there' % me,
                            ('effect', me, None))
            if kind in ('IOA',):
                if hits is not None:
                    hits[1] += 1
                if (100 + k) not in list(o.param['s'].objects):
                    return (k, 'C12/M/effect/own-modification-lost', 'object appended on %s not visible there' % me,
                            ('effect', me, None))
        # value rules after every step
        for i, o in enumerate(env['insts']):
            if hits is not None:
                hits[1] += 1
            want = own_n[i] if own_n[i] is not None else getattr(type(o), 'n')
            if o.n != want:
                return (k, 'C12/M/value/' + ('own-value-lost' if own_n[i] is not None else 'does-not-follow-class'),
                        'insts[%d].n is %r, expected %r (%s)' % (i, o.n, want, 'own value' if own_n[i] is not None
                                                               else 'never set: follows %s.n' % icls[i]),
                        ('value', 'insts[%d]' % i, want))
    return None


# ---------------------------------------------------------------------------------------------
# layer D: chains of four classes, add_parameter, caches of deep classes
# ---------------------------------------------------------------------------------------------
DEPTH = 4
D_CONFIGS = [dict(inst=i, const=c) for i in ('False', 'True', 'ListDefault') for c in (False, True)]


def _d_decl(cfg, value_src):
    kw = []
    if cfg['inst'] == 'ListDefault':
        t = 'List'
    else:
        t = 'Parameter'
        kw.append('instantiate=%s' % cfg['inst'])
    if cfg['const']:
        kw.append('constant=True')
    return 'param.%s(default=%s%s)' % (t, value_src, ''.join(', ' + k for k in kw))


def d_class_source(cfg):
    src = 'class K0(param.Parameterized):\n    p = %s\n' % _d_decl(cfg, '[0]')
    for k in range(1, DEPTH):
        src += 'class K%d(K%d):\n    pass\n' % (k, k - 1)
    return src


def d_alphabet(cfg):
    ops = ['N%d' % k for k in range(DEPTH)] + ['N1e', 'N%de' % (DEPTH - 1)]
    ops += ['C%d' % k for k in range(DEPTH)] + ['M%d' % k for k in range(DEPTH)] + ['W%d' % k for k in range(DEPTH)]
    ops += ['Q%d' % k for k in range(DEPTH - 1)] + ['P%d' % k for k in range(DEPTH - 1)]
    for i in range(MAXI):
        ops += ['IM%d' % i, 'IR%d' % i]
        if not cfg['const']:
            ops += ['IS%d' % i, 'IE%d' % i]
    return ops


class DModel:
    """The ownership model of layer V, per parameter name, over a chain of DEPTH classes."""

    def __init__(self, cfg):
        self.instantiate = cfg['inst'] != 'False'
        self.const = cfg['const']
        self.cells = {0: [0]}
        self.next = 1
        self.cls = {'p': [0] + [None] * (DEPTH - 1), 'q': [None] * DEPTH}
        self.insts = []      # [class index, {name: own cell or None}, names claimed for this instance]

    def new(self, content):
        c = self.next
        self.next += 1
        self.cells[c] = list(content)
        return c

    def cls_cell(self, name, k):
        for j in range(k, -1, -1):
            if self.cls[name][j] is not None:
                return self.cls[name][j]
        return None                       # not reachable on class k

    def reach(self, k):
        return [n for n in ('p', 'q') if self.cls_cell(n, k) is not None]

    def live(self, i):
        return self.insts[i][2]

    def inst_cell(self, i, name):
        k, own, _ = self.insts[i]
        return own[name] if own[name] is not None else self.cls_cell(name, k)

    def apply(self, op, step):
        kind, k = op[0], int(op[1]) if op[0] != 'I' else int(op[-1])
        if kind == 'N':
            own = {}
            names = self.reach(k)
            for n in names:
                if self.instantiate:
                    own[n] = self.new(self.cells[self.cls_cell(n, k)])
                elif self.const:
                    own[n] = self.cls_cell(n, k)
                else:
                    own[n] = None
            if op.endswith('e'):              # keyword: the very object that is the class default
                own['p'] = self.cls_cell('p', k)
            self.insts.append([k, own, list(names)])
        elif kind == 'C':
            for n in self.reach(k):
                self.cls[n][k] = self.new([(100 if n == 'p' else 200) + step])
        elif kind == 'M':
            for n in self.reach(k):
                self.cells[self.cls_cell(n, k)].append((100 if n == 'p' else 200) + step)
        elif kind == 'Q':
            self.cls['q'][k] = self.new([300 + step])
            for ic in self.insts:             # instances that existed before the parameter was added: no claim
                if 'q' in ic[2]:
                    ic[2].remove('q')
        elif kind == 'P':
            self.cls['p'][k] = self.new([400 + step])
        elif kind == 'I':
            sub = op[:2]
            for n in self.live(k):
                if sub == 'IM':
                    self.cells[self.inst_cell(k, n)].append((100 if n == 'p' else 200) + step)
                elif sub == 'IS':
                    self.insts[k][1][n] = self.new([(100 if n == 'p' else 200) + step])
                elif sub == 'IE':
                    self.insts[k][1][n] = self.cls_cell(n, self.insts[k][0])

    def entities(self):
        out = []
        for n in ('p', 'q'):
            for k in range(DEPTH):
                c = self.cls_cell(n, k)
                if c is not None:
                    out.append(('K%d.%s' % (k, n), c, n))
            for i in range(len(self.insts)):
                if n in self.live(i):
                    out.append(('insts[%d].%s' % (i, n), self.inst_cell(i, n), n))
        return out


def d_op_source(ops, j, cfg, model):
    """Statement for operation j of ``ops``; ``model`` is the model state BEFORE the operation (it says
    which names are reachable on a class / claimed for an instance)."""
    op = ops[j]
    kind = op[0]
    val = lambda n: (100 if n == 'p' else 200) + j
    if kind == 'N':
        k = int(op[1])
        return 'insts.append(K%d(%s))' % (k, 'p=K%d.p' % k if op.endswith('e') else '')
    if kind == 'I':
        i = int(op[-1])
        sub = op[:2]
        names = model.live(i)
        return '; '.join({'IM': 'insts[%d].%s.append(%d)' % (i, n, val(n)),
                          'IR': "insts[%d].param[%r]" % (i, n),
                          'IS': 'insts[%d].%s = [%d]' % (i, n, val(n)),
                          'IE': 'insts[%d].%s = type(insts[%d]).%s' % (i, n, i, n)}[sub] for n in names) or 'pass'
    k = int(op[1])
    names = model.reach(k)
    if kind == 'C':
        return '; '.join('K%d.%s = [%d]' % (k, n, val(n)) for n in names)
    if kind == 'M':
        return '; '.join('K%d.%s.append(%d)' % (k, n, val(n)) for n in names)
    if kind == 'W':
        return 'list(K%d.param)' % k
    if kind == 'Q':
        return "K%d.param.add_parameter('q', %s)" % (k, _d_decl(cfg, '[%d]' % (300 + j)))
    if kind == 'P':
        return "K%d.param.add_parameter('p', %s)" % (k, _d_decl(cfg, '[%d]' % (400 + j)))
    raise AssertionError(op)


def _d_ekind(op, name, ninst):
    if op[0] == 'N':
        actor = 'insts[%d]' % (ninst - 1)
    elif op[0] == 'I':
        actor = 'insts[%s]' % op[-1]
    else:
        actor = 'K' + op[1]
    ent = name.rsplit('.', 1)[0]
    if ent == actor:
        return 'actor'
    if ent[0] == 'K':
        rel = int(ent[1]) - int(actor[1]) if actor[0] == 'K' else None
        return 'class' if rel is None else ('subclass+%d' % rel if rel > 0 else 'superclass')
    return 'instance' if op[0] not in 'NI' else 'other-instance'


def d_run(cfg, ops, hits=None, sources=None):
    """Run one history; -> first (step, clause, detail, check) or None."""
    env = {'param': _P()}
    exec(_compiled(d_class_source(cfg)), env)
    env['insts'] = []
    model = DModel(cfg)
    for j, op in enumerate(ops):
        src = d_op_source(ops, j, cfg, model)
        if sources is not None:
            sources.append(src)
        try:
            exec(_compiled(src), env)
        except Exception as e:
            return j, 'C12/D/operation-raised', '%s (%s) raised %r' % (op, src, e), None
        model.apply(op, j)
        ents = model.entities()
        vals = [eval(name, env) for name, _, _ in ents]
        if hits is not None:
            hits[0] += len(ents)
        okind = op.rstrip('0123456789') if op[0] == 'I' else op[0] + ('e' if op.endswith('e') else '')
        for (name, cell, _), real in zip(ents, vals):
            want = model.cells[cell]
            if type(real) is not list or real != want:
                return (j, 'C12/D/value/%s/%s' % (okind, _d_ekind(op, name, len(model.insts))),
                        'after %s: %s is %r, ownership model gives %r' % (op, name, real, want), (name, list(want)))
        for a in range(len(ents)):
            for b in range(a + 1, len(ents)):
                if ents[a][2] != ents[b][2]:
                    continue
                if hits is not None:
                    hits[1] += 1
                same = vals[a] is vals[b]
                want = ents[a][1] == ents[b][1]
                if same != want:
                    return (j, 'C12/D/identity/%s/%s' % (okind, 'unexpected-alias' if same else 'unexpected-copy'),
                            'after %s: (%s is %s) is %r, ownership model gives %r'
                            % (op, ents[a][0], ents[b][0], same, want),
                            ('%s is %s' % (ents[a][0], ents[b][0]), want))
    return None


def d_guided(cfg, length):
    """[build the cache of a class >= 2 levels down] ; [structural change anywhere] ; [create] (; [class-level
    set anywhere] (; [anything]))"""
    alpha = d_alphabet(cfg)
    warm = [o for o in alpha if o[0] in 'WN' and int(o[1]) >= 2]
    struct = [o for o in alpha if o[0] in 'QPC']
    create = [o for o in alpha if o[0] == 'N']
    csets = [o for o in alpha if o[0] == 'C']
    for w in warm:
        for x in struct:
            for n in create:
                if length == 3:
                    yield (w, x, n)
                    continue
                for y in csets:
                    if length == 4:
                        yield (w, x, n, y)
                        continue
                    for z in alpha:
                        h = (w, x, n, y, z)
                        if valid_history(h):
                            yield h


# ---------------------------------------------------------------------------------------------
# layer E: the instance assigns the very object that is the class default
# ---------------------------------------------------------------------------------------------
E_KINDS = (          # name, declaration, literal equal to the default, new class value
    ('Parameter-None', 'param.Parameter(default=None)', 'None', "'n1'"),
    ('Integer', 'param.Integer(default=3)', '3', '7'),
    ('Integer-None', 'param.Integer(default=None, allow_None=True)', 'None', '7'),
    ('Number', 'param.Number(default=0.5)', '0.5', '1.5'),
    ('String', "param.String(default='a')", "'a'", "'b'"),
    ('String-empty', "param.String(default='')", "''", "'b'"),
    ('Boolean', 'param.Boolean(default=False)', 'False', 'True'),
    ('Tuple', 'param.Tuple(default=(1, 2))', '(1, 2)', '(3, 4)'),
    ('Selector', "param.Selector(objects=['a', 'b', 'c'], default='a')", "'a'", "'b'"),
    ('List-shared', 'param.List(default=[0], instantiate=False)', '[0]', '[1]'),
    ('Dict-shared', "param.Dict(default={'k': 0}, instantiate=False)", "{'k': 0}", "{'k': 1}"),
    ('Parameter-object', 'param.Parameter(default=OBJ)', None, 'Thing()'),
    ('ClassSelector', 'param.ClassSelector(class_=Thing, default=OBJ, instantiate=False)', None, 'Thing()'),
)
E_ROUTES = ('set-default-object', 'set-equal-literal', 'kw-default-object', 'kw-equal-literal', 'update-default-object')
E_SUBS = ('A', 'B-inherit', 'B-redeclare')
E_READS = ('none', 'before-assign', 'after-assign')
E_CHANGES = ('A.p=v', 'B.p=v', "A.param['p'].default=v", 'B.p=v;A.p=v')


def e_cases():
    for kind in E_KINDS:
        for route in E_ROUTES:
            if kind[2] is None and route.endswith('literal'):
                continue
            for sub in E_SUBS:
                for read in E_READS:
                    if read == 'before-assign' and route.startswith('kw'):
                        continue
                    for change in E_CHANGES:
                        if sub == 'A' and 'B.p' in change:
                            continue
                        yield dict(kind=kind[0], route=route, sub=sub, read=read, change=change)


def e_source(case):
    kind = [k for k in E_KINDS if k[0] == case['kind']][0]
    _, decl, lit, newv = kind
    K = 'A' if case['sub'] == 'A' else 'B'
    src = ['class Thing:', '    pass', 'OBJ = Thing()',
           'class A(param.Parameterized):', '    p = %s' % decl]
    if case['sub'] == 'B-inherit':
        src += ['class B(A):', '    pass']
    elif case['sub'] == 'B-redeclare':
        src += ['class B(A):', '    p = %s' % decl]
    value = '%s.p' % K if case['route'].endswith('object') else lit
    src += ['control = %s()            # never assigns p' % K]
    if case['route'].startswith('kw'):
        src += ['value = %s' % value, 'o = %s(p=value)' % K]
        if case['read'] == 'after-assign':
            src += ["o.param['p']"]
    else:
        src += ['o = %s()' % K]
        if case['read'] == 'before-assign':
            src += ["o.param['p']"]
        src += ['value = %s' % value,
                'o.p = value' if case['route'].startswith('set') else 'o.param.update(p=value)']
        if case['read'] == 'after-assign':
            src += ["o.param['p']"]
    src += ['before = %s.p' % K]
    for ch in case['change'].split(';'):
        src += [ch.replace('=v', ' = ' + newv)]
    src += ['changed = %s.p is not before' % K,
            'kept = o.p is value                                   # the instance assigned: keeps its own value',
            'follows = control.p is %s.p                           # never assigned: shows the value of its class' % K]
    return '\n'.join(src) + '\n'


def e_text(case):
    return 'layer=E kind=%s route=%s sub=%s read=%s change=%s' % (
        case['kind'], case['route'], case['sub'], case['read'], case['change'].replace(' ', ''))


def e_run(case):
    """-> (None | (clause, detail), class value changed?)"""
    env = {'param': _P()}
    try:
        exec(_compiled(e_source(case)), env)
    except Exception as e:
        return ('C12/E/operation-raised', 'raised %r' % (e,)), False
    if not env['kept']:
        return ('C12/E/assigned-default/own-value-lost',
                'the instance assigned %r (the class default at that moment); after the class default changed '
                'it shows %r' % (env['value'], env['o'].p)), env['changed']
    if not env['follows']:
        return ('C12/E/assigned-default/control-does-not-follow-class',
                'the control instance shows %r, its class %r' % (env['control'].p, env['before'])), env['changed']
    return None, env['changed']


def e_replay(case, clause, witness):
    head = _header(prop='C12', name='replay_c12.py', clause=clause, witness=witness)
    return '\n'.join([head, 'import warnings, logging', 'import param', "warnings.simplefilter('ignore')",
                      "logging.getLogger('param').setLevel(logging.CRITICAL)", e_source(case),
                      'if not kept:',
                      '    print("REPRODUCED: the instance assigned %r, now shows %r (its class: %r)" % (value, o.p, type(o).p)); sys.exit(1)',
                      'if not follows:',
                      '    print("REPRODUCED: the control instance shows %r, its class %r" % (control.p, type(control).p)); sys.exit(1)',
                      "print('NOT-REPRODUCED')"]) + '\n'


# ---------------------------------------------------------------------------------------------
# shrinking, witnesses, replay
# ---------------------------------------------------------------------------------------------
def run_any(layer, cfg, ops, hits=None):
    if layer == 'D':
        return d_run(cfg, ops, hits)
    return (v_run if layer in 'VRSI' else m_run)(cfg, ops, hits)


def _delete(ops, j):
    """ops without operation j; dropping a creation also drops the operations on that instance
    and renumbers the later instances."""
    op = ops[j]
    rest = list(ops[:j]) + list(ops[j + 1:])
    if op[0] != 'N':
        return rest
    m = sum(1 for o in ops[:j] if o[0] == 'N')       # index of the instance created by op
    out = []
    for o in rest:
        if o[0] == 'I':
            i = int(o[-1])
            if i == m:
                continue
            if i > m:
                o = o[:-1] + str(i - 1)
        out.append(o)
    return out


def shrink(layer, cfg, ops, clause):
    """Delete operations while the FIRST violation of the history is still ``clause`` (at its
    last step).  Returns None when the clause cannot be obtained as a first violation (it was
    only seen after an earlier violation)."""
    ops = list(ops)
    changed = True
    while changed:
        changed = False
        for j in range(len(ops) - 1, -1, -1):
            cand = _delete(ops, j)
            if not cand or not valid_history(cand) or (layer == 'S' and not s_ok(cfg, cand, False)):
                continue
            r2 = run_any(layer, cfg, cand)
            if r2 is not None and r2[1] == clause:
                ops = cand[:r2[0] + 1]
                changed = True
                break
    r = run_any(layer, cfg, ops)
    if r is None or r[1] != clause:
        return None
    return tuple(ops[:r[0] + 1])


def witness_text(layer, cfg, ops):
    return 'layer=%s %s hist=%s' % (layer, cfg_text(cfg).replace(',', ' '), ';'.join(ops))


def replay_script(layer, cfg, ops, clause, witness):
    r = run_any(layer, cfg, ops)
    k, _cl, detail, check = r
    head = _header(prop='C12', name='replay_c12.py', clause=clause, witness=witness)
    lines = [head, 'import warnings, logging', 'import param', "warnings.simplefilter('ignore')",
             "logging.getLogger('param').setLevel(logging.CRITICAL)"]
    if layer in 'VRDSI':
        if layer == 'D':
            srcs = []
            d_run(cfg, ops, sources=srcs)
            lines.append(d_class_source(cfg))
        else:
            srcs = [op_source(op, j, cfg) for j, op in enumerate(ops)]
            lines.append(v_class_source(cfg))
        lines.append('insts = []')
        if check is None:       # the operation itself raised
            for j, op in enumerate(ops[:-1]):
                lines.append(srcs[j] + '        # step %d: %s' % (j, op))
            lines += ['try:', '    ' + srcs[len(ops) - 1], 'except Exception as e:',
                      '    print("REPRODUCED: %s raised %%r" %% (e,)); sys.exit(1)' % ops[-1], "print('NOT-REPRODUCED')"]
            return '\n'.join(lines) + '\n'
        for j, op in enumerate(ops):
            lines.append(srcs[j] + '        # step %d: %s' % (j, op))
        expr, want = check
        lines += ['got = %s' % expr, 'want = %r   # ownership model of the statement' % (want,),
                  'if got != want:',
                  '    print("REPRODUCED: %s is %%r, expected %%r" %% (got, want)); sys.exit(1)' % expr,
                  "print('NOT-REPRODUCED')"]
    else:
        lines.append(m_class_source(cfg) + OBS_SRC)
        lines.append('insts = []')
        for j, op in enumerate(ops[:-1]):
            lines.append(m_op_source(op, j, cfg) + '        # step %d: %s' % (j, op))
        last = m_op_source(ops[-1], len(ops) - 1, cfg)
        kind = check[0] if check else None
        if kind == 'frame':
            e = check[1]
            f = 'obs_class(%s)' % e if e in 'AB' else 'obs_inst(%s)' % e
            lines += ['before = %s' % f, last + '        # last step: %s (an operation on ONE instance)' % ops[-1],
                      'after = %s' % f, 'if before != after:',
                      '    print("REPRODUCED: %s changed what %s sees:\\n  before %%r\\n  after  %%r" %% (before, after)); sys.exit(1)'
                      % (ops[-1], e), "print('NOT-REPRODUCED')"]
        elif kind == 'value':
            lines += [last, 'got = %s.n' % check[1], 'want = %r' % (check[2],), 'if got != want:',
                      '    print("REPRODUCED: %s.n is %%r, expected %%r" %% (got, want)); sys.exit(1)' % check[1],
                      "print('NOT-REPRODUCED')"]
        elif kind == 'shared':
            lines += [last, "o = %s" % check[1],
                      "if o.param['s'] is not type(o).param['s']:",
                      '    print("REPRODUCED: per_instance=False but the instance got its own Parameter object"); sys.exit(1)',
                      "print('NOT-REPRODUCED')"]
        elif kind == 'effect':
            lines += [last, 'o = %s' % check[1],
                      "ok = (o.param['n'].bounds == (0, %d) and o.param['s'].constant is True) if %r else (%d in list(o.param['s'].objects))"
                      % (100 + k, ops[-1].startswith('IBC'), 100 + k),
                      'if not ok:', '    print("REPRODUCED: the modification made on %s is not visible on it"); sys.exit(1)' % check[1],
                      "print('NOT-REPRODUCED')"]
        else:                   # the operation itself raised
            lines += ['try:', '    ' + last.replace('; ', '\n    '), 'except Exception as e:',
                      '    print("REPRODUCED: %s raised %%r" %% (e,)); sys.exit(1)' % ops[-1], "print('NOT-REPRODUCED')"]
    return '\n'.join(lines) + '\n'


# ---------------------------------------------------------------------------------------------
# tasks
# ---------------------------------------------------------------------------------------------
LAYERS = (('V', V_CONFIGS), ('R', R_CONFIGS), ('M', M_CONFIGS), ('D', D_CONFIGS), ('S', S_CONFIGS), ('I', I_CONFIGS))


def alphabet_of(layer, cfg):
    if layer == 'S':
        return s_alphabet(cfg)
    return d_alphabet(cfg) if layer == 'D' else v_alphabet(cfg) if layer in 'VRI' else m_alphabet(cfg)


def d_plan(tier):
    """-> (exhaustive length, guided lengths [(length, keep one in n)], [(sampled length, count)])"""
    if tier == 'thorough':
        return 3, [(3, 1), (4, 1), (5, 8)], [(4, 6000), (5, 6000)]
    if tier == 'smoke':
        return 1, [(3, 1), (4, 4)], [(3, 100)]
    return 1, [(3, 1), (4, 3), (5, 300)], [(2, 300), (3, 150), (4, 150), (5, 100)]


def s_plan(tier, cfg):
    """layer S -> (exhaustive length, guided lengths [(length, keep one in n)], [(sampled length, count)]);
    the nested shapes get the guided family and a smaller sample only"""
    flat = cfg['shape'] == 'flat'
    if tier == 'thorough':
        return (3 if flat else 2), [(3, 1), (4, 1), (5, 2 if flat else 4)], [(4, 1500), (5, 1000)] if flat else [(4, 500)]
    if tier == 'smoke':
        return 1, [(3, 1)], [(4, 30)]
    return (2 if flat else 1), [(3, 1), (4, 2 if flat else 4), (5, 150)], [(4, 60), (5, 40)] if flat else [(4, 20)]


def _has_ref_ctor(ops):
    return any(o in ('NAn', 'NBn') for o in ops)


def plan(tier, layer, cfg):
    """-> (length of the exhaustive enumeration, [(sampled length, number of histories), ...])"""
    if layer == 'D':
        return d_plan(tier)[0], d_plan(tier)[2]
    if layer == 'S':
        return s_plan(tier, cfg)[0], s_plan(tier, cfg)[2]
    if layer == 'I':
        if tier == 'thorough':
            return 3, [(4, 500), (5, 250)]
        if tier == 'smoke':
            return 1, [(3, 20)]
        return 2, [(3, 40), (4, 20)]
    inherit = cfg['sub'] == 'inherit'
    if layer == 'R':        # (only the histories containing a reference-keyword constructor are run)
        main = cfg['nov'] == 'raise'     # the other kinds take the same branch of _setup_params after _resolve_ref
        if tier == 'thorough':
            return (4, [(5, 3000)]) if main else (3, [(4, 2000), (5, 1000)])
        if tier == 'smoke':
            return (2, [(3, 100)])
        return (3, [(4, 100), (5, 50)]) if main else (2, [(3, 150), (4, 50)])
    if tier == 'thorough':
        if layer == 'V':
            if not cfg['pi']:
                return (4, [])
            return (5, []) if inherit else (4, [(5, 5000)])
        return (4, [(5, 10000)])
    if tier == 'smoke':
        return (3, [(4, 150)]) if layer == 'V' else (2, [(3, 150), (4, 150)])
    if layer == 'V':
        if not cfg['pi']:
            return (3, [])
        return (4 if inherit else 3, [(5, 500)])
    return (3, [(4, 1000), (5, 500)])


def plan_text(tier):
    out = []
    for layer, cfgs in LAYERS[:3]:
        kinds = sorted({(c['sub'] + (', reference %s' % ('raises Skip' if c['nov'] == 'raise' else 'returns Skip/Undefined or is a pending async generator')
                                     if layer == 'R' else ''), c['pi'])
                        + (lambda p: (p[0], tuple(p[1])))(plan(tier, layer, c)) for c in cfgs})
        for sub, pi, exh, smp in kinds:
            out.append('layer %s (B %s, per_instance=%s): all histories of length %d%s (shorter ones are their prefixes)%s' % (
                layer, sub, pi, exh, ' containing a reference-keyword constructor' if layer == 'R' else '',
                ''.join(' + %d seeded of length %d' % (n, L) for L, n in smp)))
    exh, guided, smp = d_plan(tier)
    out.append('layer D (chain of %d classes): all histories of length %d + the guided family [build the cache of a '
               'class >= 2 levels down; add_parameter / class-level set anywhere; create; class-level set anywhere; '
               'anything] cut at length %s%s' % (
                   DEPTH, exh, ', '.join('%d (%s)' % (L, 'all' if n == 1 else 'one in %d, chosen by the seed' % n)
                                         for L, n in guided),
                   ''.join(' + %d seeded of length %d' % (n, L) for L, n in smp)))
    for flat in (True, False):
        cfg = [c for c in S_CONFIGS if (c['shape'] == 'flat') == flat][0]
        exh, guided, smp = s_plan(tier, cfg)
        out.append('layer S (%s): all histories of length %d containing a switch + the guided family [create; switch; '
                   'create; anything but a switch; anything] cut at length %s%s' % (
                       'flat list value, instantiate x constant x B inherits/redeclares' if flat
                       else 'nested values tl/fs, B inherits', exh,
                       ', '.join('%d (%s)' % (L, 'all' if n == 1 else 'one in %d, chosen by the seed' % n) for L, n in guided),
                       ''.join(' + %d seeded of length %d' % (n, L) for L, n in smp)))
    exh, smp = plan(tier, 'I', I_CONFIGS[0])
    out.append('layer I (nested values %s x instantiate x constant x B inherits/redeclares): all histories of length %d%s'
               % ('/'.join(I_SHAPES), exh, ''.join(' + %d seeded of length %d' % (n, L) for L, n in smp)))
    return ('; '.join(out) + ' -- per configuration; layer E: the full product (%d cases)' % len(list(e_cases()))
            + '; ' + c12_objs.plan_text(tier) + ' -- per configuration')


def _work(task):
    layer, cfg, mode, arg, seed = task
    _P()
    if layer == 'E':
        return _work_e(task)
    if layer == 'O':
        return c12_objs.work(task)
    alphabet = alphabet_of(layer, cfg)
    hits = [0, 0]
    n = 0
    fails = []
    failcount = {}
    samples = []
    keys = set()

    def one(ops):
        nonlocal n
        n += 1
        try:
            if layer in 'VRSI':
                rs = v_run_all(cfg, ops, hits)
            elif layer == 'D':
                r = d_run(cfg, ops, hits)
                rs = [r] if r is not None else []
            else:
                r = m_run(cfg, ops, hits)
                rs = [r] if r is not None else []
        except Exception as e:          # harness error
            rs = [(len(ops) - 1, 'C12/harness/error', repr(e), None)]
        for r in rs:
            failcount[r[1]] = failcount.get(r[1], 0) + 1
            if sum(1 for f in fails if f[0] == r[1]) < 6:
                fails.append((r[1], ops[:r[0] + 1], r[2]))
        if not rs and len(samples) < 1 and n % 97 == 5:
            samples.append({'layer': layer, 'cfg': cfg_text(cfg), 'history': ';'.join(ops)})

    if mode == 'exh':
        length, first = arg
        for ops in histories(alphabet, length, first):
            if (layer == 'R' and not _has_ref_ctor(ops)) or (layer == 'S' and not s_ok(cfg, ops)):
                continue
            one(ops)
    elif mode == 'gui':
        length, keep, part, nparts = arg
        for idx, ops in enumerate((s_guided if layer == 'S' else d_guided)(cfg, length)):
            if idx % nparts != part:
                continue
            if keep > 1 and zlib.crc32(('%d|%s' % (seed, ';'.join(ops))).encode()) % keep:
                continue
            one(ops)
    else:
        import random
        length, count, part = arg
        rnd = random.Random('%d|%s|%s|%d|%d' % (seed, layer, cfg_text(cfg), length, part))
        tries = 0
        while len(keys) < count and tries < count * 30:
            tries += 1
            ops = tuple(rnd.choice(alphabet) for _ in range(length))
            if (not valid_history(ops) or ops in keys or (layer == 'R' and not _has_ref_ctor(ops))
                    or (layer == 'S' and not s_ok(cfg, ops))):
                continue
            keys.add(ops)
            one(ops)
    return layer, mode, n, hits, fails, failcount, samples


def _work_e(task):
    _, cases, _mode, _arg, _seed = task
    fails, failcount = [], {}
    n = nchanged = 0
    for case in cases:
        n += 1
        r, changed = e_run(case)
        nchanged += bool(changed)
        if r is not None:
            failcount[r[0]] = failcount.get(r[0], 0) + 1
            fails.append((r[0], case, r[1]))
    return 'E', 'prod', n, [n, nchanged], fails, failcount, []


def make_tasks(tier, seed):
    tasks = []
    ecases = list(e_cases())
    for part in range(8):
        tasks.append(('E', ecases[part::8], 'prod', None, seed))
    for layer, cfgs in LAYERS:
        for cfg in cfgs:
            exh, sampled = plan(tier, layer, cfg)
            alphabet = alphabet_of(layer, cfg)
            if layer == 'D':
                for L, keep in d_plan(tier)[1]:
                    nparts = 1 if L == 3 else 4 if L == 4 else 16
                    for part in range(nparts):
                        tasks.append((layer, cfg, 'gui', (L, keep, part, nparts), seed))
            if layer == 'S':
                for L, keep in s_plan(tier, cfg)[1]:
                    nparts = 1 if L < 5 else 4
                    for part in range(nparts):
                        tasks.append((layer, cfg, 'gui', (L, keep, part, nparts), seed))
            for first in [o for o in alphabet if o[0] != 'I']:   # a history cannot start on an instance
                tasks.append((layer, cfg, 'exh', (exh, first), seed))
            for L, count in sampled:
                tasks.append((layer, cfg, 'rnd', (L, count, 0), seed))
    return tasks + c12_objs.make_tasks(tier, seed)


def witness_class(clause, layer, ops, cfg=None):
    if cfg is not None and cfg.get('shape', 'flat') != 'flat':     # nested values: immutable / mutable outer container
        return witness_class(clause, layer, ops) + (SHAPES[cfg['shape']]['typ'] in (tuple, frozenset),)
    if layer == 'D':
        return (layer,) + tuple(o[:-1] if o[0] == 'I' else o for o in ops)
    kinds = tuple(o.rstrip('0123456789') if layer in 'VRSI' else (o if o in ('NA', 'NB') else o[:-1]) for o in ops)
    return (layer,) + kinds


def _run(tier, seed):
    _P()
    B = Bounded(
        'C12',
        rule='one case = one history (interleaving) over fresh classes A <- B and <= %d instances, for one '
             'configuration; layer V (values of a list-valued parameter; instantiate x constant x B '
             'inherits/redeclares): {create A/B instance, create with keyword value, instance set, class set on '
             'A / on subclass B, in-place mutation through an instance / A / B, read obj.param[name]}; layer R '
             '(layer V with allow_refs=True plus: create A/B instance with a keyword REFERENCE that yields no '
             'value at construction -- bound function raises Skip / returns Skip / returns Undefined / pending '
             'async generator --, later delivery of a value through that reference); layer M '
             '(metadata of a Selector and a Number; per_instance x objects list/dict x B inherits/redeclares): '
             '{create instance, read obj.param[..], instance value set, append to / assign objects, assign '
             'bounds+constant, watch bounds -- on an instance; append to / assign objects, assign bounds, value '
             'set, watch bounds -- on class A / B}.  Checked after EVERY step against the ownership model / frame rule of the '
             'statement.  Layer D (chain K0 <- K1 <- K2 <- K3, parameter p on K0, instantiate x constant): {create '
             'instance of class k, create with keyword = the very class default object, class-level set on class k, '
             'in-place mutation through class k, read the namespace of class k (builds its cache), '
             'add_parameter of a new name q / of p on class k, instance mutation / read / set / set to the very '
             'object that is the class default}, same ownership model per parameter name (q claimed for instances '
             'created after it was added).  Layer E (product): parameter kind x how an instance assigns the object '
             'that is / equals the class default x class of the instance x read of obj.param x later change of '
             'the class default: the instance keeps what it assigned, a control instance follows its class.  '
             'Layer S: layer V plus K.param.p.constant / .instantiate switched to True / False on a class that owns '
             'its Parameter, while instances exist (constructor mode = the attributes at that moment; earlier '
             'instances keep what they got).  Layer I: layer V over nested values (tuple of lists, tuple with a dict, '
             'frozenset of a mutable object, tuple of tuple of list, list of lists, dict of lists), in-place '
             'mutation of the INNER member, identity of outer and inner objects <=> same cell.  '
             'Layer O: a Selector / ListSelector whose subclasses redeclare it WITHOUT objects (inherited from the '
             'parent Parameter; check_on_set=False inherited / given; default outside the inherited objects), classes '
             'A <- {S, B <- C, T} declared during the history by class statement / plain + add_parameter: {declare, '
             'add_parameter, create instance (with / without keyword), class-level set of an unlisted value, append to '
             'the objects of a class / an instance, instance set, read obj.param.s}; frame rule: the parent, the siblings '
             'and their instances, and other instances never see what a subclass / an instance does.  '
             'Distinct = distinct (layer, configuration, history); histories using an instance '
             'before creating it are not generated.' % MAXI,
        bound='%s: %s' % (tier, plan_text(tier)))
    B.exhaustive = all(not plan(tier, l, c)[1] for l, cs in LAYERS for c in cs)
    tasks = make_tasks(tier, seed)
    ctx = mp.get_context('fork')
    with ctx.Pool(16) as pool:
        results = pool.map(_work, tasks, chunksize=1)
    total = 0
    fails, failcount = [], {}
    efails = []
    ofails = []
    for (layer, cfg, mode, arg, _), (l2, m2, n, hits, fl, fc, samples) in zip(tasks, results):
        total += n
        if layer == 'E':
            B.checked('C12/E/assigned-default:kept+control-follows-class', hits[0])
            B.checked('C12/E/vacuity:class-default-really-changed', hits[1])
            efails += fl
            for c, k in fc.items():
                failcount[c] = failcount.get(c, 0) + k
            continue
        if layer == 'O':
            B.checked('C12/O/frame:parent+siblings+other-instances-unchanged', hits[0])
            B.checked('C12/O/value-rules+effect', hits[1])
            ofails += [(f[0], cfg, f[1], f[2]) for f in fl]
            for c, k in fc.items():
                failcount[c] = failcount.get(c, 0) + k
            for smp in samples:
                B.sample(smp)
            continue
        B.checked('C12/%s/%s' % (layer, 'value==cell-content' if layer in 'VRDSI' else 'frame:others-unchanged'), hits[0])
        B.checked('C12/%s/%s' % (layer, 'identity<=>same-cell' if layer in 'VRDSI' else 'value-rules+effect+sharing'), hits[1])
        for f in fl:
            fails.append((f[0], layer, cfg, f[1], f[2]))
        for c, k in fc.items():
            failcount[c] = failcount.get(c, 0) + k
        for s in samples:
            B.sample(s)
    B.evaluations = total
    extra = total
    fails.sort(key=lambda f: (f[0], len(f[3]), f[1], f[2].get('pi') is False,
                              NOV_KINDS.index(f[2]['nov']) if f[2].get('nov') else 0, cfg_text(f[2]), f[3]))
    seen = {}
    budget = {}
    for clause, layer, cfg, ops, detail in fails:
        if clause == 'C12/harness/error':
            B.violation(clause, witness_text(layer, cfg, ops), detail)
            continue
        pre = (clause, layer, cfg_text(cfg))
        budget[pre] = budget.get(pre, 0) + 1
        if budget[pre] > 3:
            continue
        try:
            mops = shrink(layer, cfg, ops, clause)
        except Exception as e:
            B.note('shrink failed: %s %s %r' % (clause, witness_text(layer, cfg, ops), e))
            continue
        if mops is None:
            B.note('not confirmed as a first violation (seen only after an earlier one): %s %s'
                   % (clause, witness_text(layer, cfg, ops)))
            continue
        if layer == 'S' and not any(o[0] == 'S' for o in mops):
            # the minimal history has no switch: it is a history of layer V (flat list) / layer I (nested value)
            cand = ('V', {k: v for k, v in cfg.items() if k != 'shape'}) if cfg['shape'] == 'flat' else ('I', cfg)
            try:
                r = run_any(cand[0], cand[1], mops)
            except Exception:
                r = None
            if r is not None and r[1] == clause and r[0] == len(mops) - 1:
                layer, cfg = cand
        wk = (clause, witness_class(clause, layer, mops, cfg))
        if wk in seen:
            seen[wk]['count'] += 1
            continue
        w = witness_text(layer, cfg, mops)
        det = run_any(layer, cfg, mops)[2]
        B.violation(clause, w, det, replay_script(layer, cfg, mops, clause, w))
        seen[wk] = B.violations[-1]
    # layer O: shortest failing history of every clause first; one witness per (clause, kinds of the minimal history)
    ofails.sort(key=lambda f: (f[0], len(f[2]), c12_objs.O_CONFIGS.index(f[1]), f[2]))
    oseen, obudget = {}, {}
    for clause, cfg, ops, detail in ofails:
        if clause == 'C12/harness/error':
            B.violation(clause, c12_objs.witness_text(cfg, ops), detail)
            continue
        obudget[clause] = obudget.get(clause, 0) + 1
        if obudget[clause] > 6:
            continue
        try:
            mops = c12_objs.shrink(cfg, ops, clause)
        except Exception as e:
            B.note('shrink failed: %s %s %r' % (clause, c12_objs.witness_text(cfg, ops), e))
            continue
        if mops is None:
            B.note('not confirmed: %s %s' % (clause, c12_objs.witness_text(cfg, ops)))
            continue
        wk = (clause, c12_objs.witness_class(clause, mops))
        if wk in oseen:
            oseen[wk]['count'] += 1
            continue
        w = c12_objs.witness_text(cfg, mops)
        det = c12_objs.o_run(cfg, mops)[2]
        B.violation(clause, w, det, c12_objs.replay_script(cfg, mops, clause, w, _header(
            prop='C12', name='replay_c12.py', clause=clause, witness=w)))
        oseen[wk] = B.violations[-1]
    # layer E: one witness per (clause, parameter kind class, route); the simplest case of each class
    order = {n: i for i, n in enumerate(k[0] for k in E_KINDS)}
    efails.sort(key=lambda f: (f[0], E_ROUTES.index(f[1]['route']), E_SUBS.index(f[1]['sub']), E_READS.index(f[1]['read']),
                               E_CHANGES.index(f[1]['change']), order[f[1]['kind']]))
    eseen = {}
    for clause, case, detail in efails:
        wk = (clause, case['route'].split('-')[0])
        if wk in eseen:
            eseen[wk]['count'] += 1
            continue
        w = e_text(case)
        B.violation(clause, w, detail, e_replay(case, clause, w))
        eseen[wk] = B.violations[-1]
    for c, k in sorted(failcount.items()):
        B.note('failing histories for %s: %d (minimised to the witnesses above)' % (c, k))
    res = B.result()
    res['distinct_nontrivial'] = extra
    return res


def run(tier, seed):
    """Entry point of the layer (tiers: quick, thorough; 'smoke' is a development aid used for the
    mutation checks).  Warning filters and param's logger level are restored afterwards."""
    saved = (warnings.filters[:], logging.getLogger('param').level)
    try:
        return _run(tier, seed)
    finally:
        warnings.filters[:] = saved[0]
        logging.getLogger('param').setLevel(saved[1])
