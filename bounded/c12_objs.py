"""Layer O of the bounded stand-in for C12: the ``objects`` of a Selector / ListSelector that a subclass
INHERITS from the Parameter of its parent.

Hierarchy (classes are declared DURING the history, so that instances / per-instance Parameter copies /
siblings may exist before or after a declaration)::

        A        s = Selector(objects=<list | dict>, default='a'[, check_on_set=False])
       /|\\
      S B T      S: ``pass``;   B, T: redeclare ``s`` WITHOUT ``objects`` (default 'zzz' / 'ttt' outside the inherited
        |                       objects when check_on_set=False is inherited or given there; 'b' otherwise)
        C        C(B): redeclares ``s`` again without ``objects`` (default 'ccc')

Operations of a history
  ``D<K>``  class statement with the redeclaration       ``P<K>``  class statement ``class K(parent): pass``
  ``Q<K>``  ``K.param.add_parameter('s', <the redeclaration>)``
  ``N<K>``  create an instance                           ``N<K>v`` create with the keyword ``s=<value>``
  ``C<K>``  class-level assignment ``K.s = <value>``      ``OA<K>`` ``K.param.s.objects.append(v)`` / ``objects[k] = v``
            (value: a NEW, unlisted one where check_on_set is False, a listed one elsewhere)
  ``IS<i>`` instance-level assignment                    ``IR<i>`` read ``insts[i].param.s`` (creates the per-instance copy)
  ``IO<i>`` ``insts[i].param.s.objects.append(v)`` / ``objects[k] = v``

Oracle = the frame rule of the statement ("... never changes what the class, its subclasses or any other instance
see"; title: instances and classes do not leak values or metadata into each other), in the only direction the
statement is clear about -- a change made on / by a SUBCLASS or an INSTANCE is never seen by the parent, a sibling, an
unrelated class or any of THEIR instances, nor by another instance.  After every operation the observation (objects,
names, default, check_on_set of the governing Parameter, and the value) of every entity outside the operation's
*exempt set* must be what it was before:

  declaration of a class (D / P)      exempt: nothing (the new class has no "before")
  Q<K>, C<K>, OA<K>                    exempt: K, the classes below K, the instances of those
  N<K>                                 exempt: nothing
  N<K>v                                exempt: the classes that share the Parameter object governing K (its owner and
                                       the classes that follow it without redeclaring / having been assigned), and their
                                       instances -- the constructor runs before the instance can have a Parameter copy,
                                       what it does to the class it was created from is not judged here
  IS<i>, IO<i>                         exempt: instance i;       IR<i>: nothing (not even instance i)

plus the value rules (an accepted assignment is visible on the assigner; an instance that never assigned follows its
class).  Nothing is demanded for what the classes BELOW the actor see (the statement is silent on who sees class-level
changes downwards), and nothing about the content of the redeclaring class's own ``objects``.
"""
import random
import zlib

PARENT = {'A': None, 'B': 'A', 'C': 'B', 'S': 'A', 'T': 'A'}
REDECL = {'B': 'zzz', 'C': 'ccc', 'T': 'ttt'}       # classes able to redeclare, and their default
MAXI = 2

O_CONFIGS = [dict(ptype=t, okind=o, cos=c) for t in ('Selector', 'ListSelector') for o in ('list', 'dict')
             for c in ('parent', 'child', 'none')]

DECL_OPS = ('DB', 'PB', 'QB', 'DC', 'PC', 'QC', 'DT', 'QT', 'PS')


def cfg_text(cfg):
    return ' '.join('%s=%s' % (k, cfg[k]) for k in sorted(cfg))


def alphabet(cfg):
    ops = list(DECL_OPS)
    for k in 'ABCST':
        ops += ['N' + k, 'N%sv' % k, 'C' + k]
    ops += ['OA' + k for k in 'ABCST']
    for i in range(MAXI):
        ops += ['IS%d' % i, 'IR%d' % i, 'IO%d' % i]
    return ops


# ---------------------------------------------------------------------------------------------
# model: which classes exist, which own a Parameter object of their own, who is below whom
# ---------------------------------------------------------------------------------------------
class OModel:
    def __init__(self, cfg):
        self.cfg = cfg
        self.declared = ['A']
        self.owns = {'A'}
        self.added = set()       # classes that received add_parameter
        self.stated = set()      # classes whose class statement redeclares
        self.unchk = {'A': cfg['cos'] == 'parent'}     # per owner: check_on_set is False on its Parameter
        self.insts = []          # class name per instance
        self.own_value = []      # per instance: source of the value it assigned, or None

    def clone(self):
        m = OModel.__new__(OModel)
        m.cfg = self.cfg
        m.declared = list(self.declared)
        m.owns = set(self.owns)
        m.added = set(self.added)
        m.stated = set(self.stated)
        m.unchk = dict(self.unchk)
        m.insts = list(self.insts)
        m.own_value = list(self.own_value)
        return m

    def owner(self, k):
        while k not in self.owns:
            k = PARENT[k]
        return k

    def below(self, k):
        """k and the declared classes below it"""
        return [k] + [c for c in self.declared if _is_below(c, k)]

    def group(self, k):
        """the classes governed by the same Parameter object as k"""
        o = self.owner(k)
        return [c for c in self.declared if self.owner(c) == o]

    def unchecked(self, k):
        """check_on_set is False on the Parameter governing class k (so unlisted values are accepted)"""
        return self.unchk[self.owner(k)]

    def valid(self, op):
        kind, k = split(op)
        if kind in 'DP':
            return k not in self.declared and PARENT[k] in self.declared and (kind == 'D') <= (k in REDECL)
        if kind == 'Q':
            return k in self.declared and k in REDECL and k not in self.added and k not in self.stated
        if kind in ('N', 'Nv'):
            return k in self.declared and len(self.insts) < MAXI
        if kind == 'C':
            return k in self.declared
        if kind == 'OA':
            return k in self.declared and k in self.owns
        return int(k) < len(self.insts)

    def apply(self, op, accepted=True):
        kind, k = split(op)
        if kind in 'DP':
            self.declared.append(k)
            if kind == 'D':
                self.unchk[k] = self.cfg['cos'] != 'none'
                self.owns.add(k)
                self.stated.add(k)
        elif kind == 'Q':
            self.unchk[k] = self.cfg['cos'] != 'none'
            self.owns.add(k)
            self.added.add(k)
        elif kind in ('N', 'Nv'):
            self.insts.append(k)
            self.own_value.append(None)
        elif kind == 'C' and accepted and k not in self.owns:
            self.unchk[k] = self.unchecked(k)       # copy-on-write: a copy of the Parameter that governed k
            self.owns.add(k)

    def mode(self, k):
        """how class k came to the Parameter object that governs it"""
        if k == 'A':
            return 'root'
        if k in self.added:
            return 'added'
        if k in self.stated:
            return 'stated'
        return 'cow' if k in self.owns else 'inherited'

    def exempt_classes(self, op):
        kind, k = split(op)
        if kind in ('Q', 'C', 'OA'):
            return self.below(k)
        if kind == 'Nv':
            return self.group(k)
        return []


def _is_below(c, k):
    p = PARENT[c]
    while p is not None:
        if p == k:
            return True
        p = PARENT[p]
    return False


def split(op):
    """-> (kind, class name | instance index)"""
    if op[0] == 'I':
        return op[:2], op[2:]
    if op[:2] == 'OA':
        return 'OA', op[2]
    if op[0] == 'N' and op.endswith('v'):
        return 'Nv', op[1]
    return op[0], op[1]


def valid_history(cfg, ops):
    m = OModel(cfg)
    for op in ops:
        if not m.valid(op):
            return False
        m.apply(op)
    return True


# ---------------------------------------------------------------------------------------------
# sources
# ---------------------------------------------------------------------------------------------
def _val(cfg, token):
    return '[%r]' % token if cfg['ptype'] == 'ListSelector' else repr(token)


def class_a_source(cfg):
    objs = "['a', 'b', 'c']" if cfg['okind'] == 'list' else "{'ka': 'a', 'kb': 'b', 'kc': 'c'}"
    cos = ', check_on_set=False' if cfg['cos'] == 'parent' else ''
    return ('class A(param.Parameterized):\n    s = param.%s(objects=%s, default=%s%s)\n'
            % (cfg['ptype'], objs, _val(cfg, 'a'), cos))


def redecl_source(cfg, k):
    d = REDECL[k] if cfg['cos'] != 'none' else 'b'
    cos = ', check_on_set=False' if cfg['cos'] == 'child' else ''
    return 'param.%s(default=%s%s)' % (cfg['ptype'], _val(cfg, d), cos)


def op_value(cfg, model, op, step):
    """source of the value assigned by ``op`` (None when it assigns none): a NEW, unlisted value where
    check_on_set is False on the governing Parameter, a listed one elsewhere"""
    kind, k = split(op)
    if kind not in ('Nv', 'C', 'IS'):
        return None
    cls = k if kind in ('Nv', 'C') else model.insts[int(k)]
    return _val(cfg, 'v%d' % step if model.unchecked(cls) else 'ab'[step % 2])


def op_source(cfg, model, op, step):
    """statement for ``op``; ``model`` = the model state BEFORE the operation"""
    kind, k = split(op)
    if kind == 'D':
        return 'class %s(%s):\n    s = %s' % (k, PARENT[k], redecl_source(cfg, k))
    if kind == 'P':
        return 'class %s(%s):\n    pass' % (k, PARENT[k])
    if kind == 'Q':
        return "%s.param.add_parameter('s', %s)" % (k, redecl_source(cfg, k))
    if kind == 'N':
        return 'insts.append(%s())' % k
    if kind in ('OA', 'IO'):
        target = k if kind == 'OA' else 'insts[%s]' % k
        if cfg['okind'] == 'dict':
            return "%s.param.s.objects['k%d'] = 'o%d'" % (target, step, step)
        return "%s.param.s.objects.append('o%d')" % (target, step)
    if kind == 'IR':
        return 'insts[%s].param.s' % k
    value = op_value(cfg, model, op, step)
    if kind == 'Nv':
        return 'insts.append(%s(s=%s))' % (k, value)
    if kind == 'C':
        return '%s.s = %s' % (k, value)
    if kind == 'IS':
        return 'insts[%s].s = %s' % (k, value)
    raise AssertionError(op)


OBS_SRC = '''
import inspect
def _pobs(p):
    return {'objects': list(p.objects), 'names': dict(p.names), 'default': p.default, 'check_on_set': p.check_on_set}
def obs_class(K):
    """what the class sees: the Parameter object governing attribute access on K, and K's value"""
    d = _pobs(inspect.getattr_static(K, 's'))
    d['value'] = K.s
    return d
def obs_inst(o):
    """what the instance sees (its own Parameter copy if it has one, else its class's), without creating a copy"""
    d = _pobs(o.param.objects('existing')['s'])
    d['value'] = o.s
    return d
def obs(name):
    e = eval(name)
    return obs_class(e) if isinstance(e, type) else obs_inst(e)
'''

_code = {}


def _compiled(src):
    c = _code.get(src)
    if c is None:
        c = _code[src] = compile(src, '<c12-O>', 'exec')
    return c


KIND_NAME = {'D': 'declare', 'P': 'declare-plain', 'Q': 'add_parameter', 'N': 'create', 'Nv': 'create-kw', 'C': 'class-set',
             'OA': 'class-objects-append', 'IS': 'inst-set', 'IR': 'inst-read', 'IO': 'inst-objects-append'}


def relation(model, op, ent):
    """relation of entity ``ent`` (class name / insts[i]) to the actor of ``op``"""
    kind, k = split(op)
    actor_cls = model.insts[int(k)] if kind[0] == 'I' else k
    is_inst = ent.startswith('insts')
    c = model.insts[int(ent[6:-1])] if is_inst else ent
    if c == actor_cls:
        rel = 'class' if kind[0] in 'IN' else 'actor'
        if is_inst:
            return 'other-instance' if kind[0] in 'IN' else 'instance'
        return rel
    if _is_below(actor_cls, c):
        rel = 'parent'
    elif _is_below(c, actor_cls):
        rel = 'subclass'
    else:
        rel = 'sibling'
    return rel + ('-instance' if is_inst else '')


def o_run(cfg, ops, hits=None, P=None, trace=None):
    """Run one history on the real code; -> first (step, clause, detail, check) or None.
    ``trace`` (a list) receives (source, rejected?) per executed operation."""
    import param
    env = {'param': param}
    exec(_compiled(class_a_source(cfg) + OBS_SRC), env)
    env['insts'] = []
    model = OModel(cfg)
    obs = env['obs']

    def snapshot():
        d = {k: obs(k) for k in model.declared}
        for i in range(len(model.insts)):
            d['insts[%d]' % i] = obs('insts[%d]' % i)
        return d

    before = snapshot()
    for step, op in enumerate(ops):
        kind, k = split(op)
        src = op_source(cfg, model, op, step)
        value = op_value(cfg, model, op, step)
        rejected = False
        try:
            exec(_compiled(src), env)
        except ValueError:
            rejected = True         # a refused value: a no-op as far as this property goes
        except Exception as e:
            if trace is not None:
                trace.append((src, False))
            return step, 'C12/O/operation-raised/' + KIND_NAME[kind].split('[')[0], '%s (%s) raised %r' % (op, src, e), None
        if trace is not None:
            trace.append((src, rejected))
        if rejected and kind in ('D', 'P', 'Q', 'Nv', 'N'):
            return None             # nothing was created: the rest of the history has no meaning
        exempt = set(model.exempt_classes(op))
        if kind in ('D', 'P'):
            kname = KIND_NAME[kind]
        else:
            kname = '%s[%s]' % (KIND_NAME[kind], model.mode(model.insts[int(k)] if kind[0] == 'I' else k))
        me = 'insts[%s]' % k if kind in ('IS', 'IO') else None
        model.apply(op, accepted=not rejected)
        after = snapshot()
        for e, b in before.items():
            c = model.insts[int(e[6:-1])] if e.startswith('insts') else e
            if c in exempt or e == me:
                continue
            a = after[e]
            if hits is not None:
                hits[0] += 1
            if a != b:
                f = [x for x in ('objects', 'names', 'default', 'check_on_set', 'value') if a[x] != b[x]][0]
                return (step, 'C12/O/frame/%s/%s-sees-%s' % (kname, relation(model, op, e), f),
                        '%s (%s) changed what %s sees: %s was %r, now %r' % (op, src.replace('\n', ' '), e, f, b[f], a[f]),
                        ('frame', e, f))
        # value rules
        if not rejected:
            if kind in ('IS', 'Nv'):
                i = int(k) if kind == 'IS' else len(model.insts) - 1
                model.own_value[i] = value
            want = None
            if kind == 'C':
                want, who = value, k
            elif kind in ('IS', 'Nv'):
                want, who = model.own_value[i], 'insts[%d]' % i
            elif kind in ('D', 'Q'):
                want, who = _val(cfg, REDECL[k] if cfg['cos'] != 'none' else 'b'), k
            if want is not None:
                if hits is not None:
                    hits[1] += 1
                if after[who]['value'] != eval(want):
                    return (step, 'C12/O/effect/%s/own-value-lost' % kname,
                            'after %s (%s): %s.s is %r' % (op, src.replace('\n', ' '), who, after[who]['value']),
                            ('value', who, want))
        for i, c in enumerate(model.insts):
            if hits is not None:
                hits[1] += 1
            e = 'insts[%d]' % i
            if model.own_value[i] is not None:
                ok, why = after[e]['value'] == eval(model.own_value[i]), 'own-value-lost'
            else:
                ok, why = after[e]['value'] == after[c]['value'], 'does-not-follow-class'
            if not ok:
                return (step, 'C12/O/value/%s/%s' % (kname, why),
                        'after %s: %s.s is %r, %s' % (op, e, after[e]['value'],
                                                      'it assigned %s' % model.own_value[i] if model.own_value[i] is not None
                                                      else 'it never assigned and %s.s is %r' % (c, after[c]['value'])),
                        ('follow', e, model.own_value[i] if model.own_value[i] is not None else '%s.s' % c))
        before = after
    return None


# ---------------------------------------------------------------------------------------------
# enumeration
# ---------------------------------------------------------------------------------------------
def _extend(model, alpha, n):
    """all (sequence, model after it) over alpha of length exactly n that are valid from ``model``"""
    if n == 0:
        yield (), model
        return
    for op in alpha:
        if model.valid(op):
            m = model.clone()
            m.apply(op)
            for rest, mm in _extend(m, alpha, n - 1):
                yield (op,) + rest, mm


def _upto(model, alpha, n):
    for L in range(n + 1):
        yield from _extend(model, alpha, L)


def _follow(model, seq):
    """model after the fixed sequence ``seq``, None when it is not valid there"""
    m = model.clone()
    for op in seq:
        if not m.valid(op):
            return None
        m.apply(op)
    return m


def histories(cfg, length):
    for ops, _ in _extend(OModel(cfg), alphabet(cfg), length):
        yield ops


PRE_OPS = ('NA', 'NAv', 'IR0', 'IS0', 'IO0', 'PS', 'DT', 'CA', 'OAA', 'NS', 'NT', 'CS')
DECLS = (('DB',), ('PB', 'QB'), ('DB', 'DC'), ('PB', 'DC'), ('PB', 'PC', 'QC'), ('DB', 'PC', 'QC'), ('PB', 'QB', 'DC'),
         ('PB', 'CB'), ('PB', 'CB', 'DC'), ('DB', 'PC', 'CC'))


def guided(cfg, family):
    """family 'a': pre(<=2) ; declaration sequence ; post(<=1)
       family 'b': pre(<=1) ; declaration sequence ; post(== 2)
       family 'c': P<K> ; anything ; Q<K> ; post(<=1)     (K = B, and C below a plain / redeclaring B)"""
    alpha = alphabet(cfg)
    m0 = OModel(cfg)
    if family in 'ab':
        for pre, m1 in _upto(m0, PRE_OPS, 2 if family == 'a' else 1):
            for d in DECLS:
                m2 = _follow(m1, d)
                if m2 is None:
                    continue
                posts = _upto(m2, alpha, 1) if family == 'a' else _extend(m2, alpha, 2)
                for post, _ in posts:
                    yield pre + d + post
    else:
        for head, k in (((), 'B'), (('PB',), 'C'), (('DB',), 'C')):
            m1 = _follow(m0, head + ('P' + k,))
            for x in alpha:
                m2 = _follow(m1, (x, 'Q' + k))
                if m2 is None:
                    continue
                for post, _ in _upto(m2, alpha, 1):
                    yield head + ('P' + k, x, 'Q' + k) + post


def plan(tier):
    """-> (exhaustive length, {family: keep one in n}, [(random length, count)])"""
    if tier == 'thorough':
        return 4, {'a': 1, 'b': 4, 'c': 1}, [(5, 1000), (6, 1000)]
    if tier == 'smoke':
        return 1, {'a': 40, 'b': 400, 'c': 20}, [(4, 30)]
    return 3, {'a': 20, 'b': 100, 'c': 5}, [(4, 100), (5, 100), (6, 60)]


def plan_text(tier):
    exh, fam, rnd = plan(tier)
    return ('layer O (inherited objects of a Selector / ListSelector x objects list/dict x check_on_set=False on the '
            'parent / on the redeclaration / nowhere; classes A <- {S plain, B, T} , B <- C declared during the history): '
            'all histories of length %d + guided families a [<=2 of %s; a declaration sequence of B / C (class '
            'statement, plain + add_parameter, plain + class-level set); <=1 anything] (one in %d), b [<=1; declaration '
            'sequence; 2 anything] (one in %d), c [plain K; anything; add_parameter on K; <=1 anything] (one in %d)%s'
            % (exh, '/'.join(PRE_OPS), fam['a'], fam['b'], fam['c'],
               ''.join(' + %d seeded of length %d' % (n, L) for L, n in rnd)))


def make_tasks(tier, seed):
    exh, fam, rnd = plan(tier)
    tasks = []
    for cfg in O_CONFIGS:
        tasks.append(('O', cfg, 'exh', exh, seed))
        for f in 'abc':
            nparts = {'a': 2, 'b': 4, 'c': 1}[f] * (4 if tier == 'thorough' else 1)
            for part in range(nparts):
                tasks.append(('O', cfg, 'gui', (f, fam[f], part, nparts), seed))
        for L, count in rnd:
            tasks.append(('O', cfg, 'rnd', (L, count), seed))
    return tasks


def work(task):
    layer, cfg, mode, arg, seed = task
    hits = [0, 0]
    n = 0
    fails, failcount, samples = [], {}, []

    def one(ops):
        nonlocal n
        n += 1
        try:
            r = o_run(cfg, ops, hits)
        except Exception as e:
            r = (len(ops) - 1, 'C12/harness/error', repr(e), None)
        if r is not None:
            failcount[r[1]] = failcount.get(r[1], 0) + 1
            if sum(1 for f in fails if f[0] == r[1]) < 4:
                fails.append((r[1], tuple(ops[:r[0] + 1]), r[2]))
        elif not samples and n % 53 == 7:
            samples.append({'layer': 'O', 'cfg': cfg_text(cfg), 'history': ';'.join(ops)})

    if mode == 'exh':
        for L in range(1, arg + 1):
            for ops in histories(cfg, L):
                one(ops)
    elif mode == 'gui':
        f, keep, part, nparts = arg
        seen = set()
        for ops in guided(cfg, f):
            h = zlib.crc32(('%d|%s' % (seed, ';'.join(ops))).encode())
            if h % nparts != part or (keep > 1 and (h // nparts) % keep):
                continue
            if ops in seen:
                continue
            seen.add(ops)
            one(ops)
    else:
        L, count = arg
        alpha = alphabet(cfg)
        rnd = random.Random('%d|O|%s|%d' % (seed, cfg_text(cfg), L))
        keys = set()
        tries = 0
        while len(keys) < count and tries < count * 200:
            tries += 1
            ops = []
            m = OModel(cfg)
            for _ in range(L):
                cand = [o for o in alpha if m.valid(o)]
                # declarations first get a higher weight: without B / C / T nothing of interest happens
                op = rnd.choice(cand + [o for o in cand if o[0] in 'DPQ'] * 2)
                ops.append(op)
                m.apply(op)
            ops = tuple(ops)
            if ops in keys:
                continue
            keys.add(ops)
            one(ops)
    return 'O', mode, n, hits, fails, failcount, samples


# ---------------------------------------------------------------------------------------------
# shrinking, witness, replay
# ---------------------------------------------------------------------------------------------
def _delete(ops, j):
    op = ops[j]
    rest = list(ops[:j]) + list(ops[j + 1:])
    if op[0] != 'N':
        return rest
    m = sum(1 for o in ops[:j] if o[0] == 'N')
    out = []
    for o in rest:
        if o[0] == 'I':
            i = int(o[2:])
            if i == m:
                continue
            if i > m:
                o = o[:2] + str(i - 1)
        out.append(o)
    return out


def shrink(cfg, ops, clause):
    ops = list(ops)
    changed = True
    while changed:
        changed = False
        for j in range(len(ops) - 1, -1, -1):
            cand = _delete(ops, j)
            if not cand or not valid_history(cfg, cand):
                continue
            r2 = o_run(cfg, cand)
            if r2 is not None and r2[1] == clause:
                ops = cand[:r2[0] + 1]
                changed = True
                break
    r = o_run(cfg, ops)
    if r is None or r[1] != clause:
        return None
    return tuple(ops[:r[0] + 1])


def witness_text(cfg, ops):
    return 'layer=O %s hist=%s' % (cfg_text(cfg), ';'.join(ops))


def witness_class(clause, ops):
    return ('O',) + tuple(o[:2] if o[0] == 'I' else o for o in ops)


def replay_script(cfg, ops, clause, witness, header):
    trace = []
    r = o_run(cfg, ops, trace=trace)
    step, _cl, detail, check = r
    lines = [header, 'import warnings, logging', 'import param', "warnings.simplefilter('ignore')",
             "logging.getLogger('param').setLevel(logging.CRITICAL)", class_a_source(cfg) + OBS_SRC, 'insts = []']

    def emit(src, rejected, comment):
        if rejected:
            lines.append('try:')
            lines.extend('    ' + l for l in src.split('\n'))
            lines.append('except ValueError:        # %s -- the value is refused here: a no-op' % comment)
            lines.append('    pass')
        else:
            first, *rest = src.split('\n')
            lines.append(first + '        # ' + comment)
            lines.extend(rest)

    for j, (src, rej) in enumerate(trace[:-1]):
        emit(src, rej, 'step %d: %s' % (j, ops[j]))
    last, rej = trace[-1]
    if check is None:
        lines += ['try:'] + ['    ' + l for l in last.split('\n')] + [
            'except Exception as e:', '    print("REPRODUCED: %s raised %%r" %% (e,)); sys.exit(1)' % ops[step], "print('NOT-REPRODUCED')"]
    elif check[0] == 'frame':
        e = check[1]
        lines.append('before = obs(%r)' % e)
        emit(last, rej, 'last step: %s' % ops[step])
        lines += ['after = obs(%r)' % e, 'if before != after:',
                  '    print("REPRODUCED: %s changed what %s sees:\\n  before %%r\\n  after  %%r" %% (before, after)); sys.exit(1)'
                  % (ops[step], e), "print('NOT-REPRODUCED')"]
    else:
        emit(last, rej, 'last step: %s' % ops[step])
        lines += ['got = %s.s' % check[1], 'want = %s' % check[2], 'if got != want:',
                  '    print("REPRODUCED: %s.s is %%r, expected %%r" %% (got, want)); sys.exit(1)' % check[1],
                  "print('NOT-REPRODUCED')"]
    return '\n'.join(lines) + '\n'
