"""Bounded stand-in layer for C13 -- the `.param` namespace always agrees with attribute access.

One case = one hierarchy of <= 3 fresh Parameterized classes (single / chain2 / chain3 / fork; the
root declares ``x = Number(1, bounds=(0, 1000))`` and ``y = String('s')``, optionally B redeclares
``x``) x one history (interleaving) of

    R<k>   read the namespace of class k  (style per case: ``K.param['x']`` / ``list(K.param)`` /
           ``'x' in K.param``)                       -- populates the cache behind ``.param``
    S<k>   class-level set          ``K.x = v``
    Pq<k>  ``K.param.add_parameter('q', Number(v))``  (new name; shadows / replaces an earlier q)
    Px<k>  ``K.param.add_parameter('x', Number(v, bounds=(0, 1000)))``  (existing name)
    N<k>   create an instance of class k              (<= 2 instances)
    I<j>   instance set             ``inst_j.x = v``
    IR<j>  read the instance namespace ``inst_j.param['x']``

The real code of /repo is driven through the history; the clauses are evaluated ONLY AFTER THE LAST
STEP (the checks themselves read `.param`, i.e. populate caches, so checking after each step of a
longer history would destroy the very orders of events the property is about); "after each step" is
obtained by enumerating every history of every length 1..k.  Oracle, from the statement, for every
class K and instance o of the hierarchy (names ranging over name, x, y, q):

  reachable(K) := names n with  isinstance(inspect.getattr_static(K, n), Parameter)
  listed      n in K.param / list(K.param) / o.param          <=>  n in reachable
  identity    K.param[n] is inspect.getattr_static(K, n)
  default     K.param[n].default == getattr(K, n)
  values      K.param.values() == {n: getattr(K, n)},  o.param.values() == {n: getattr(o, n)}
  repr        repr(o) == 'K(' + ', '.join(n=getattr(o, n)!r, sorted) + ')'
  serialize   json.loads(o.param.serialize_parameters()) == {n: getattr(o, n)}
  watch       K.param.watch / o.param.watch accept every reachable name
then, appended to the history as explicit probe steps (they change state, so they are part of the
witness):
  WI<j> watch-fires   o.param.watch(cb, ['x']); o.x = v            -> cb called once with new == v
  GI<j> governs       p = o.param['x']; p.bounds = (500, 600)      -> o.x = 550 accepted, o.x = 5 rejected
  WK<k> watch-fires   K.param.watch(cb, ['x']); K.x = v            -> cb called once with new == v

Parameter-type dimension (``xtype=``): the same histories over hierarchies in which ``x`` is a NON-Dynamic
parameter -- String, Boolean, List(instantiate=False), Selector -- instead of a Number (the Number family
is "Dynamic": values()/repr/serialization read it through another branch of get_value_generator).  All
operations, clauses and probes are the same with values of the type (Boolean: the value is toggled); the
governs probe uses ``p.constant = True`` -> ``o.x = v`` raises TypeError instead of bounds.  ``Pq`` (a new
name, type independent) is left out of these alphabets.

Diamond dimension (``shape=diamond``): A ; B(A) ; C(A) ; D(B, C) -- the EARLIER base B merely inherits ``x``,
the LATER base C gets its own Parameter (declared: ``redecl=C``; or by the operations ``S2`` = ``C.x = v`` /
``Px2`` = add_parameter on C).  By Python's MRO (D, B, C, A) the Parameter governing ``D.x`` is C's; the
clauses (identity vs inspect.getattr_static, default, values, ...) are evaluated for D and its instances like
for every other class.  For instances the identity clause reads: a Parameter that ``o.param.objects('existing')``
shows and that is not an instance-level copy (owner is not ``o``) is the very object governing attribute access
on ``type(o)``.

Fault dimension (``fault=watcher``): the additional operation

    SF<k>  ``K.param.watch(boom, ['x'])`` (a class-level watcher that raises; registering it reads -- and so
           fills -- the cache of K) ; ``K.x = v`` -> the exception escapes AFTER the new default was stored ;
           the watcher is removed again

The statement makes no exception for assignments that fail half-way: whatever state the failed assignment
leaves, every clause must hold in it (the oracle never looks at whether the value was stored).

Update dimension (``upd=ctx``): class-level (and instance-level) ``.param.update`` used as a context manager, on
every class of the hierarchy -- in particular on a subclass that only INHERITS ``x`` (the temporary value makes
the metaclass copy the Parameter into the subclass; leaving the block assigns the old value back), interleaved
with class-level sets on the declaring parent, namespace reads and instances:

    U<k>   ``with K.param.update(x=v): pass``                       (enter + leave, empty body)
    UO<k>  ``cm = K.param.update(x=v); cm.__enter__()``              (enter the block: later steps are its body)
    UC<k>  ``cm.__exit__(None, None, None)``                         (leave the innermost open block of class k)
    IU<j>  ``with insts[j].param.update(x=v): pass``

(a block that is never left = a plain ``K.param.update(x=v)`` call).  The alphabet of these configurations is
{R, S, N, U, UO, UC} per class + {I, IR, IU} per instance.

Instance-default probe ``DI<j>`` (all configurations, run between the WI and the GI probes): when the instance
has no instance-level copy of ``x`` yet, ``p = o.param['x']`` (which creates the copy NOW) must give a Parameter
owned by ``o`` whose ``default`` equals ``getattr(type(o), 'x')`` (clause ``C13/instance/param-default``).  An
instance copy that already exists is not judged (its default legitimately stays what it was when it was made).

Shadow family (``shape=chain3 / chain4``, structured instead of exhaustive): add_parameter of a name nm (``x`` or
the new name ``q``) on an ancestor j while an INTERMEDIATE class k (j < k) already owns a Parameter of that name
-- by declaration (redecl), by a class-level set ``S<k>`` (copy-on-write), or by ``Px<k>`` / ``Pq<k>`` -- and a
DEEPER class d (k < d) that does not declare it has its cache filled (``R<d>`` / ``N<d>``; optionally the caches
of k and j too; the fills before or after k became an owner), followed by nothing / one / two further steps
(class-level sets ``S`` of x or ``Sq<k>`` = ``K.q = v`` at j, k, d; another read / instance; the owner replaced
again; instance set / read).  chain4 = A ; B(A) ; C(B) ; D(C).

Re-read family (``fam=reread``; chain2 / chain3, structured) and abstract dimension (``abstract=<classes>``: the named
classes carry the class attribute ``__abstract = True``, param's marker for classes that are "only bases"; the
oracle does not know the marker -- the statement speaks of every class and instance).  New operations: the
namespace of an INSTANCE read in the middle of a history, through each of its consumers

    IV<j>  ``insts[j].param.values()``        IP<j>  ``repr(insts[j])``
    IJ<j>  ``insts[j].param.serialize_parameters()``      IE<j>  ``insts[j].param.objects('existing')``

History = [instance of class d, without / with an instance-level Parameter (``I0`` instance set, ``IR0`` =
``insts[0].param['x']``)] + [0..2 namespace reads: of any class, of the instance through IV / IP / IJ / IE] +
one class-level change (``S<j>`` / ``Pq<j>`` / ``Px<j>`` on any class j) + [nothing | a further instance-level step |
a re-read followed by a second change]; the clauses are evaluated after the last step as everywhere.
"""
import json
import logging
import multiprocessing as mp
import re
import warnings
import zlib

from bounded._api import Bounded, REPLAY_HEADER


def _header(**kw):
    """replay header; PYVC_REPO (a scratch copy of the library under test) overrides /repo"""
    return REPLAY_HEADER.format(**kw).replace(
        "sys.path.insert(0, '/repo')",
        "import os\nsys.path.insert(0, os.environ.get('PYVC_REPO', '/repo'))      # (PYVC_REPO: a scratch copy of the library under test)")


_param = None


def _P():
    global _param
    if _param is None:
        import param
        _param = param
        warnings.simplefilter('ignore')
        logging.getLogger('param').setLevel(logging.CRITICAL)
    return _param


MAXI = 2
SHAPES = {
    'single': (('A', None),),
    'chain2': (('A', None), ('B', 'A')),
    'chain3': (('A', None), ('B', 'A'), ('C', 'B')),
    'fork': (('A', None), ('B', 'A'), ('C', 'A')),
    'chain4': (('A', None), ('B', 'A'), ('C', 'B'), ('D', 'C')),
    'diamond': (('A', None), ('B', 'A'), ('C', 'A'), ('D', 'B, C')),
}
SHAPE_ORDER = ('single', 'chain2', 'chain3', 'fork', 'diamond', 'chain4')
CLS = 'ABCD'


def redecl_class(cfg):
    """name of the class that redeclares x (cfg['redecl']: False | True = B | 'C')"""
    r = cfg['redecl']
    return None if not r else ('B' if r is True else r)
HOWS = ('getitem', 'iter', 'contains')


def ancestors(shape):
    """class index -> set of indices of the class itself and its (transitive) bases"""
    names = [c for c, _ in SHAPES[shape]]
    out = {}
    for i, (c, base) in enumerate(SHAPES[shape]):
        s = {i}
        for b in ([] if base is None else [x.strip() for x in base.split(',')]):
            s |= out[names.index(b)]
        out[i] = s
    return out
NAMES = ('name', 'x', 'y', 'q')


# non-Dynamic parameter types for ``x``: (declaration template, value template); n = a small distinct integer
XTYPES = {
    'String': ("param.String(%s)", "'v%d'"),
    'Boolean': ("param.Boolean(%s)", None),                    # values: toggled, see xval
    'List': ("param.List(%s, instantiate=False)", "[%d]"),
    'Selector': ("param.Selector(default=%s, objects=list(range(1000)))", "%d"),
}
XTYPE_ORDER = (None, 'String', 'Boolean', 'List', 'Selector')


def configs():
    out = []
    for shape in ('single', 'chain2', 'chain3', 'fork'):
        for redecl in ((False,) if shape == 'single' else (False, True)):
            out.append({'shape': shape, 'redecl': redecl})
    for xtype in XTYPE_ORDER[1:]:
        for shape in ('single', 'chain2', 'fork'):
            for redecl in ((False,) if shape == 'single' else (False, True)):
                out.append({'shape': shape, 'redecl': redecl, 'xtype': xtype})
    # diamonds: the later base C has its own x (declared, or obtained by S2 / Px2), the earlier base B inherits
    for xtype in (None, 'String', 'List'):
        for redecl in (False, 'C', True):
            if xtype and redecl is True:
                continue
            c = {'shape': 'diamond', 'redecl': redecl}
            if xtype:
                c['xtype'] = xtype
            out.append(c)
    # fault dimension: class-level assignment that raises after the default was stored
    for xtype in (None, 'String'):
        for shape in ('chain2', 'chain3', 'fork', 'diamond'):
            if xtype and shape not in ('chain2', 'diamond'):
                continue
            c = {'shape': shape, 'redecl': False, 'fault': 'watcher'}
            if xtype:
                c['xtype'] = xtype
            out.append(c)
    # update dimension: .param.update as a context manager on every class (a subclass that only inherits x)
    for xtype in (None, 'String'):
        for shape, redecl in (('chain2', False), ('chain3', False), ('chain3', True), ('fork', False),
                              ('diamond', False), ('diamond', 'C')):
            if xtype and shape not in ('chain2', 'chain3'):
                continue
            c = {'shape': shape, 'redecl': redecl, 'upd': 'ctx'}
            if xtype:
                c['xtype'] = xtype
            out.append(c)
    # shadow family (structured): add_parameter on an ancestor, an intermediate owner, a deeper cached class
    for xtype in (None, 'String'):
        for shape in ('chain3', 'chain4'):
            for redecl in (False, True, 'C'):
                if redecl == 'C' and shape != 'chain4':
                    continue
                c = {'shape': shape, 'redecl': redecl, 'fam': 'shadow'}
                if xtype:
                    c['xtype'] = xtype
                out.append(c)
    # re-read family (structured): instance / class namespaces read, class-level change, read again;
    # abstract dimension: classes flagged `__abstract = True`
    for xtype in (None, 'String'):
        for shape, abss in (('chain2', (None, 'A', 'B')), ('chain3', (None, 'B', 'C', 'AB', 'BC'))):
            for ab in abss:
                c = {'shape': shape, 'redecl': False, 'fam': 'reread'}
                if ab:
                    c['abstract'] = ab
                if xtype:
                    c['xtype'] = xtype
                out.append(c)
    return out


def cfg_text(cfg):
    return 'shape=%s redecl=%s%s%s' % (cfg['shape'], redecl_class(cfg) or 'none',
                                       ' xtype=%s' % cfg['xtype'] if cfg.get('xtype') else '',
                                       ' fault=%s' % cfg['fault'] if cfg.get('fault') else '') + (
        ' upd=%s' % cfg['upd'] if cfg.get('upd') else '') + (
        ' abstract=%s' % cfg['abstract'] if cfg.get('abstract') else '')


def xval(cfg, n, current=None):
    """source text of the value number ``n`` of x's type (``current``: expression of the present value,
    used by Boolean, whose 'new value' is the other one)"""
    xt = cfg.get('xtype')
    if xt is None:
        return '%d' % n
    if xt == 'Boolean':
        return '(not %s)' % current if current else repr(bool(n % 2))
    return XTYPES[xt][1] % n


def xdecl(cfg, value_src, number_kw=''):
    xt = cfg.get('xtype')
    if xt is None:
        return 'param.Number(%s%s)' % (value_src, number_kw)
    return XTYPES[xt][0] % value_src


def class_source(cfg):
    src = ''
    for cname, base in SHAPES[cfg['shape']]:
        ab = '    __abstract = True\n' if cname in (cfg.get('abstract') or '') else ''
        if base is None:
            src += ('class A(param.Parameterized):\n%s    x = %s\n'
                    "    y = param.String('s')\n" % (ab, xdecl(cfg, xval(cfg, 1), ', bounds=(0, 1000)')))
        elif cname == redecl_class(cfg):
            src += 'class %s(%s):\n%s    x = %s\n' % (cname, base, ab, xdecl(cfg, xval(cfg, 2)))
        else:
            src += 'class %s(%s):\n%s' % (cname, base, ab or '    pass\n')
    if cfg.get('fault'):
        src += FAULT_SRC
    return src


FAULT_SRC = ('''class Boom(Exception):
    pass
def boom(*events):
    raise Boom()
def failing_class_set(K, v):
    """K.x = v while a class-level watcher of x raises: the exception escapes after the default was stored"""
    w = K.param.watch(boom, ['x'])
    try:
        K.x = v
    except Boom:
        pass
    finally:
        for k in K.__mro__:                  # remove the watcher again, wherever it is registered now
            P = k.__dict__.get('x')
            if isinstance(P, param.Parameter) and w in P.watchers.get('value', []):
                P.watchers['value'].remove(w)
''')


def alphabet(cfg):
    n = len(SHAPES[cfg['shape']])
    ops = []
    if cfg.get('upd'):
        for k in range(n):
            ops += ['R%d' % k, 'S%d' % k, 'N%d' % k, 'U%d' % k, 'UO%d' % k, 'UC%d' % k]
        for j in range(MAXI):
            ops += ['I%d' % j, 'IR%d' % j, 'IU%d' % j]
        return ops
    for k in range(n):
        ops += ['R%d' % k, 'S%d' % k, 'Pq%d' % k, 'Px%d' % k, 'N%d' % k]
        if cfg.get('xtype') or cfg.get('fault'):
            ops.remove('Pq%d' % k)
        if cfg.get('fault'):
            ops.remove('Px%d' % k)
            ops.append('SF%d' % k)
    for j in range(MAXI):
        ops += ['I%d' % j, 'IR%d' % j]
    return ops


def _split(op):
    kind = op.rstrip('0123456789')
    return kind, int(op[len(kind):])


INST_KINDS = ('I', 'IR', 'IU', 'WI', 'DI', 'GI', 'IV', 'IP', 'IJ', 'IE')
INST_READS = {'IV': 'insts[%d].param.values()', 'IP': 'repr(insts[%d])',
              'IJ': 'insts[%d].param.serialize_parameters()', 'IE': "insts[%d].param.objects('existing')"}
PROBE_KINDS = ('WI', 'DI', 'GI', 'WK')
CLASS_KINDS = ('R', 'S', 'SF', 'Sq', 'Pq', 'Px', 'N', 'U', 'UO', 'UC', 'WK')
_ANC = {}


def _advance(state, op, shape):
    """state = (number of instances, open update blocks per class, classes owning q);  -> the state after
    ``op`` or None when ``op`` is not possible there (instance that does not exist yet, UC without an open
    block of that class, ``K.q = v`` while q is not a Parameter reachable on K)"""
    n, opens, qs = state
    kind, i = _split(op)
    if kind == 'N':
        return None if n >= MAXI else (n + 1, opens, qs)
    if kind in INST_KINDS:
        return None if i >= n else state
    if kind == 'UO':
        return (n, opens + (i,), qs)
    if kind == 'UC':
        if i not in opens:
            return None
        j = len(opens) - 1 - opens[::-1].index(i)
        return (n, opens[:j] + opens[j + 1:], qs)
    if kind == 'Pq':
        return (n, opens, qs | {i})
    if kind == 'Sq':
        anc = _ANC.get(shape) or _ANC.setdefault(shape, ancestors(shape))
        if i not in anc or not (anc[i] & qs):
            return None
    return state


_START = (0, (), frozenset())


def valid_history(ops, shape='chain4'):
    st = _START
    for op in ops:
        st = _advance(st, op, shape)
        if st is None:
            return False
    return True


def histories(alpha, length, first=None, shape='chain4'):
    def rec(pre, st):
        if len(pre) == length:
            yield tuple(pre)
            return
        for op in alpha:
            st2 = _advance(st, op, shape)
            if st2 is None:
                continue
            pre.append(op)
            yield from rec(pre, st2)
            pre.pop()
    if first is None:
        yield from rec([], _START)
    else:
        st = _advance(_START, first, shape)
        if st is not None:
            yield from rec([first], st)


def op_source(op, step, cfg, how):
    kind, i = _split(op)
    cn = CLS[i] if kind in CLASS_KINDS else None
    if kind == 'R':
        return {'getitem': "%s.param['x']" % cn, 'iter': 'list(%s.param)' % cn,
                'contains': "'x' in %s.param" % cn}[how]
    if kind == 'S':
        return '%s.x = %s' % (cn, xval(cfg, 10 + step, '%s.x' % cn))
    if kind == 'SF':
        return 'failing_class_set(%s, %s)' % (cn, xval(cfg, 50 + step, '%s.x' % cn))
    if kind == 'Pq':
        return "%s.param.add_parameter('q', param.Number(%d))" % (cn, 20 + step)
    if kind == 'Px':
        return "%s.param.add_parameter('x', %s)" % (cn, xdecl(cfg, xval(cfg, 30 + step, '%s.x' % cn), ', bounds=(0, 1000)'))
    if kind == 'N':
        return 'insts.append(%s())' % cn
    if kind == 'I':
        return 'insts[%d].x = %s' % (i, xval(cfg, 40 + step, 'insts[%d].x' % i))
    if kind == 'IR':
        return "insts[%d].param['x']" % i
    if kind in INST_READS:
        return INST_READS[kind] % i
    if kind == 'Sq':
        return '%s.q = %d' % (cn, 60 + step)
    if kind == 'U':
        return 'with %s.param.update(x=%s):\n    pass' % (cn, xval(cfg, 70 + step, '%s.x' % cn))
    if kind == 'UO':
        return ("cm = %s.param.update(x=%s); cm.__enter__(); cms['%s'].append(cm)"
                % (cn, xval(cfg, 70 + step, '%s.x' % cn), cn))
    if kind == 'UC':
        return "cms['%s'].pop().__exit__(None, None, None)" % cn
    if kind == 'IU':
        return 'with insts[%d].param.update(x=%s):\n    pass' % (i, xval(cfg, 90 + step, 'insts[%d].x' % i))
    raise AssertionError(op)


OP_NOTE = {'UO': 'enter the block  `with %s.param.update(x=...):`  (the following steps are its body)',
           'UC': 'leave the innermost open  `with %s.param.update(...)`  block'}
CMS_SRC = "cms = {'A': [], 'B': [], 'C': [], 'D': []}        # open `with K.param.update(...)` blocks per class"


PROBE_SRC = {
    'WI': ("got = []\n"
           "v = {v}\n"
           "w = insts[{i}].param.watch(lambda *ev, _g=got: _g.extend(e.new for e in ev), ['x'])\n"
           "insts[{i}].x = v\n"
           "insts[{i}].param.unwatch(w)\n"
           "probe_ok = (got == [v] and insts[{i}].x == v)\n"
           "probe_detail = 'after insts[{i}].param.watch(cb, [\"x\"]); insts[{i}].x = %r: callback received %r' % (v, got)\n"),
    'DI': ("K = type(insts[{i}])\n"
           "fresh = insts[{i}].param.objects('existing')['x'].owner is not insts[{i}]\n"
           "p = insts[{i}].param['x']\n"
           "cv = getattr(K, 'x')\n"
           "probe_ok = (not fresh) or (p.owner is insts[{i}] and type(p.default) is type(cv) and p.default == cv)\n"
           "probe_detail = ('insts[{i}].param[\"x\"] (instance-level copy made by this very access): owner is the instance: %r, '\n"
           "                'default %r, but %s.x is %r' % (p.owner is insts[{i}], p.default, K.__name__, cv))\n"),
    'GIc': ("p = insts[{i}].param['x']\n"
            "p.constant = True\n"
            "v = {v}\n"
            "try:\n    insts[{i}].x = v; rej = False\nexcept TypeError:\n    rej = True\n"
            "probe_ok = (rej is True)\n"
            "probe_detail = 'insts[{i}].param[\"x\"].constant = True: insts[{i}].x = %r rejected with TypeError: %r' % (v, rej)\n"),
    'GI': ("p = insts[{i}].param['x']\n"
           "p.bounds = (500, 600)\n"
           "acc = rej = None\n"
           "try:\n    insts[{i}].x = 550; acc = True\nexcept Exception as e:\n    acc = e\n"
           "try:\n    insts[{i}].x = 5; rej = False\nexcept ValueError:\n    rej = True\n"
           "probe_ok = (acc is True and rej is True)\n"
           "probe_detail = 'insts[{i}].param[\"x\"].bounds = (500, 600): x = 550 accepted: %r, x = 5 rejected: %r' % (acc, rej)\n"),
    'WK': ("got = []\n"
           "v = {v}\n"
           "w = {c}.param.watch(lambda *ev, _g=got: _g.extend(e.new for e in ev), ['x'])\n"
           "{c}.x = v\n"
           "probe_ok = (got == [v] and {c}.x == v)\n"
           "probe_detail = 'after {c}.param.watch(cb, [\"x\"]); {c}.x = %r: callback received %r' % (v, got)\n"),
}


def probe_source(op, step, cfg):
    kind, i = _split(op)
    cur = '%s.x' % CLS[i] if kind == 'WK' else 'insts[%d].x' % i
    v = xval(cfg, {'WI': 700, 'GI': 600, 'WK': 800, 'DI': 0}[kind] + step, cur)
    if kind == 'GI' and cfg.get('xtype'):
        kind = 'GIc'
    return PROBE_SRC[kind].format(i=i, c=CLS[i % len(CLS)], v=v)


CHECK_SRC = '''
import inspect, json
NAMES = ('name', 'x', 'y', 'q')
def reachable(K):
    return [n for n in NAMES if isinstance(inspect.getattr_static(K, n, None), param.Parameter)]
def same(a, b):
    return type(a) is type(b) and a == b
def check_class(K):
    """-> list of (clause, detail) for class K (non-destructive apart from reading .param)"""
    out = []
    reach = reachable(K)
    listed_c = [n for n in NAMES if n in K.param]
    listed_i = [n for n in NAMES if n in list(K.param)]
    if listed_c != reach or listed_i != reach:
        out.append(('listed', 'Parameters reachable as attributes of %s: %r; `in %s.param`: %r; list(%s.param): %r'
                    % (K.__name__, reach, K.__name__, listed_c, K.__name__, listed_i)))
    for n in reach:
        if n not in K.param:
            continue
        p = K.param[n]
        if p is not inspect.getattr_static(K, n):
            out.append(('identity', '%s.param[%r] is not inspect.getattr_static(%s, %r) (owners: %s vs %s)'
                        % (K.__name__, n, K.__name__, n, p.owner.__name__, inspect.getattr_static(K, n).owner.__name__)))
        if not same(p.default, getattr(K, n)):
            out.append(('default', '%s.param[%r].default is %r but %s.%s is %r'
                        % (K.__name__, n, p.default, K.__name__, n, getattr(K, n))))
    want = {n: getattr(K, n) for n in reach}
    got = K.param.values()
    if got != want:
        out.append(('values', '%s.param.values() is %r, getattr gives %r' % (K.__name__, got, want)))
    for n in reach:
        try:
            w = K.param.watch(lambda *e: None, [n])
            K.param.unwatch(w)
        except Exception as e:
            out.append(('watch', '%s.param.watch(cb, [%r]) raised %s: %s' % (K.__name__, n, type(e).__name__, e)))
    return out[:1]        # later clauses are consequences of the first one: report the primary only
def check_inst(o, label):
    out = []
    K = type(o)
    reach = reachable(K)
    listed_c = [n for n in NAMES if n in o.param]
    listed_i = [n for n in NAMES if n in list(o.param)]
    if listed_c != reach or listed_i != reach:
        out.append(('listed', 'Parameters reachable as attributes of %s (a %s): %r; `in obj.param`: %r; list(obj.param): %r'
                    % (label, K.__name__, reach, listed_c, listed_i)))
    shown = o.param.objects('existing')
    for n in reach:
        p = shown.get(n)
        if p is not None and p.owner is not o and p is not inspect.getattr_static(K, n):
            out.append(('identity', '%s.param.objects("existing")[%r] is a class-level Parameter but not inspect.getattr_static(%s, %r) '
                        '(owners: %s vs %s)' % (label, n, K.__name__, n, getattr(p.owner, '__name__', p.owner),
                                                inspect.getattr_static(K, n).owner.__name__)))
    want = {n: getattr(o, n) for n in reach}
    got = o.param.values()
    if got != want:
        out.append(('values', '%s.param.values() is %r, getattr gives %r' % (label, got, want)))
    wrepr = K.__name__ + '(' + ', '.join('%s=%r' % (n, want[n]) for n in sorted(want)) + ')'
    if repr(o) != wrepr:
        out.append(('repr', 'repr(%s) is %s, getattr gives %s' % (label, repr(o), wrepr)))
    try:
        ser = json.loads(o.param.serialize_parameters())
    except Exception as e:
        ser = 'raised %s: %s' % (type(e).__name__, e)
    if ser != want:
        out.append(('serialize', '%s.param.serialize_parameters() gives %r, getattr gives %r' % (label, ser, want)))
    for n in reach:
        try:
            w = o.param.watch(lambda *e: None, [n])
            o.param.unwatch(w)
        except Exception as e:
            out.append(('watch', '%s.param.watch(cb, [%r]) raised %s: %s' % (label, n, type(e).__name__, e)))
    return out[:1]        # primary clause only (values -> repr -> serialize build on each other)
'''

_code = {}


def _compiled(src):
    c = _code.get(src)
    if c is None:
        c = _code[src] = compile(src, '<c13>', 'exec')
    return c


def run_history(cfg, how, ops, hits=None):
    """-> list of (clause, at, detail, ops_including_probes) found after the last step."""
    env = {'param': _P()}
    exec(_compiled(class_source(cfg) + CHECK_SRC), env)
    env['insts'] = []
    exec(_compiled(CMS_SRC), env)
    icls = []
    base = []
    for step, op in enumerate(ops):
        kind, i = _split(op)
        if kind in PROBE_KINDS:
            break           # probes given explicitly (shrinking / replay): handled below
        try:
            exec(_compiled(op_source(op, step, cfg, how)), env)
        except Exception as e:
            return [('C13/operation-raised', op, '%s raised %r' % (op, e), tuple(ops[:step + 1]))]
        if kind == 'N':
            icls.append(CLS[i])
        base.append(op)
    explicit = list(ops[len(base):])
    out = []
    classes = [c for c, _ in SHAPES[cfg['shape']]]
    if not explicit:
        for c in classes:
            res = env['check_class'](env[c])
            if hits is not None:
                hits['class'] = hits.get('class', 0) + 5
            for cl, det in res:
                out.append(('C13/class/' + cl, c, det, tuple(base)))
        for j, o in enumerate(env['insts']):
            res = env['check_inst'](o, 'insts[%d]' % j)
            if hits is not None:
                hits['instance'] = hits.get('instance', 0) + 5
            for cl, det in res:
                out.append(('C13/instance/' + cl, 'insts[%d]:%s' % (j, icls[j]), det, tuple(base)))
        probes = (['WI%d' % j for j in range(len(icls))] + ['DI%d' % j for j in range(len(icls))]
                  + ['GI%d' % j for j in range(len(icls))]
                  + ['WK%d' % k for k in range(len(classes))])
    else:
        probes = explicit
    done = list(base)
    for pr in probes:
        kind, i = _split(pr)
        step = len(done)
        done.append(pr)
        try:
            exec(_compiled(probe_source(pr, step, cfg)), env)
            ok, det = env['probe_ok'], env['probe_detail']
        except Exception as e:
            ok, det = False, '%s raised %s: %s' % (pr, type(e).__name__, e)
        if hits is not None:
            hits['probe'] = hits.get('probe', 0) + 1
        if not ok:
            cl = {'WI': 'C13/instance/watch-fires', 'GI': 'C13/instance/governs', 'WK': 'C13/class/watch-fires',
                  'DI': 'C13/instance/param-default'}[kind]
            at = ('insts[%d]:%s' % (i, icls[i])) if kind != 'WK' else CLS[i]
            out.append((cl, at, det, tuple(done)))
    return out


# ---------------------------------------------------------------------------------------------
def _delete(ops, j):
    op = ops[j]
    rest = list(ops[:j]) + list(ops[j + 1:])
    kind, _ = _split(op)
    if kind != 'N':
        return rest
    m = sum(1 for o in ops[:j] if _split(o)[0] == 'N')
    out = []
    for o in rest:
        k2, i = _split(o)
        if k2 in INST_KINDS:
            if i == m:
                continue
            if i > m:
                o = '%s%d' % (k2, i - 1)
        out.append(o)
    return out


def fails_with(cfg, how, ops, clause):
    try:
        return [r for r in run_history(cfg, how, ops) if r[0] == clause]
    except Exception:
        return []


def shrink(cfg, how, ops, clause):
    """ops: history (+ probes when the clause is a probe clause).  Delete operations / probes and
    simplify the configuration while a violation of the same clause remains."""
    probe_clause = clause.split('/')[-1] in ('watch-fires', 'governs', 'param-default')
    ops = list(ops)

    def ok(c, h, cand):
        if not cand or not valid_history(cand, c['shape']):
            return False
        if probe_clause and _split(cand[-1])[0] not in PROBE_KINDS:
            return False
        rs = fails_with(c, h, cand, clause)
        return any(len(r[3]) == len(cand) or not probe_clause for r in rs)

    changed = True
    while changed:
        changed = False
        for j in range(len(ops) - 1, -1, -1):
            cand = _delete(ops, j)
            if ok(cfg, how, cand):
                ops = cand
                changed = True
                break
        if changed:
            continue
        # smaller / simpler configuration
        used = max([_split(o)[1] for o in ops if _split(o)[0] in CLASS_KINDS] + [0])
        for shape in SHAPE_ORDER:
            if len(SHAPES[shape]) <= used or len(SHAPES[shape]) >= len(SHAPES[cfg['shape']]):
                continue
            c2 = dict(cfg, shape=shape, redecl=cfg['redecl'] if redecl_class(cfg) in [c for c, _ in SHAPES[shape][1:]] else False)
            if cfg.get('abstract'):
                c2['abstract'] = ''.join(c for c in cfg['abstract'] if c in [k for k, _ in SHAPES[shape]]) or None
            if ok(c2, how, ops):
                cfg = c2
                changed = True
                break
        if not changed and cfg['redecl']:
            c2 = dict(cfg, redecl=False)
            if ok(c2, how, ops):
                cfg = c2
                changed = True
        if not changed and cfg.get('abstract'):
            ab = cfg['abstract']
            for ab2 in [None] + [ab[:k] + ab[k + 1:] for k in range(len(ab)) if len(ab) > 1]:
                c2 = dict(cfg, abstract=ab2)
                if ok(c2, how, ops):
                    cfg = c2
                    changed = True
                    break
        if not changed and how != 'getitem' and ok(cfg, 'getitem', ops):
            how = 'getitem'
            changed = True
    rs = fails_with(cfg, how, ops, clause)
    if not rs:
        return None
    return cfg, how, tuple(ops), rs[0][1], rs[0][2]


def witness_text(cfg, how, ops, at):
    return '%s how=%s hist=%s at=%s' % (cfg_text(cfg), how, ';'.join(ops), at)


def witness_class(ops, clause=''):
    kinds = [_split(o)[0] for o in ops]
    if clause.startswith('C13/class/') and not any(k in INST_KINDS for k in kinds):
        kinds = ['R' if k == 'N' else k for k in kinds]     # creating an instance reads the class namespace
    return tuple(kinds)


def _subseq(small, big):
    it = iter(big)
    return all(any(x == y for y in it) for x in small)


def replay_script(cfg, how, ops, clause, at, witness):
    head = _header(prop='C13', name='replay_c13.py', clause=clause, witness=witness)
    lines = [head, 'import warnings, logging', 'import param', "warnings.simplefilter('ignore')",
             "logging.getLogger('param').setLevel(logging.CRITICAL)", class_source(cfg) + CHECK_SRC, 'insts = []']
    if any(_split(o)[0] in ('UO', 'UC') for o in ops):
        lines.append(CMS_SRC)
    kind_last = _split(ops[-1])[0]
    for step, op in enumerate(ops):
        if _split(op)[0] in PROBE_KINDS:
            lines.append('# probe step %d: %s' % (step, op))
            lines.append(probe_source(op, step, cfg))
        else:
            k_, i_ = _split(op)
            lines.append('# step %d: %s%s' % (step, op, ('  -- ' + OP_NOTE[k_] % CLS[i_]) if k_ in OP_NOTE else ''))
            lines.append(op_source(op, step, cfg, how))
    what = clause.split('/')[-1]
    if kind_last in PROBE_KINDS:
        lines += ['if not probe_ok:', "    print('REPRODUCED: ' + probe_detail); sys.exit(1)", "print('NOT-REPRODUCED')"]
    else:
        if at[0] in CLS and len(at) == 1:
            lines.append('res = check_class(%s)' % at)
        else:
            lines.append('res = check_inst(%s, %r)' % (at.split(':')[0], at.split(':')[0]))
        lines += ['bad = [d for c, d in res if c == %r]' % what, 'if bad:',
                  "    print('REPRODUCED: ' + bad[0]); sys.exit(1)", "print('NOT-REPRODUCED')"]
    return '\n'.join(lines) + '\n'


# ---------------------------------------------------------------------------------------------
def shadow_histories(cfg, tier):
    """Structured family: add_parameter of ``nm`` on an ancestor j while an intermediate class k (j < k) owns a
    Parameter of that name and a deeper class d (k < d), which does not declare it, has its cache filled.
    -> sorted list of distinct histories (tuples of operations) for this configuration."""
    n = len(SHAPES[cfg['shape']])
    rd = redecl_class(cfg)
    rk = CLS.index(rd) if rd else None
    out = set()
    for k in range(1, n - 1):
        for d in range(k + 1, n):
            for j in range(0, k):
                for nm in ('x', 'q'):
                    if nm == 'q' and cfg.get('xtype'):
                        continue
                    if nm == 'x':
                        if rk is None:
                            owns = [('S%d' % k,), ('Px%d' % k,)]
                        elif rk == k:
                            owns = [()]                           # owner by declaration
                        else:
                            continue                              # x redeclared elsewhere: another configuration
                    else:
                        owns = [('Pq%d' % k,)]
                    add = 'P%s%d' % (nm, j)
                    sk = 'S' if nm == 'x' else 'Sq'
                    tails = [(), ('%s%d' % (sk, j),), ('%s%d' % (sk, k),), ('%s%d' % (sk, d),), ('R%d' % d,),
                             ('N%d' % d,), ('P%s%d' % (nm, k),), ('%s%d' % (sk, k), '%s%d' % (sk, j)),
                             ('N%d' % d, '%s%d' % (sk, j)), ('%s%d' % (sk, d), '%s%d' % (sk, k))]
                    others = [c for c in range(n) if c not in (j, k, d)]
                    extras = [(), ('R%d' % k,), ('R%d' % j,), ('R%d' % k, 'R%d' % j)]
                    if others:
                        extras += [('R%d' % others[0],), ('R%d' % others[0], 'R%d' % k)]
                    for own in owns:
                        for fill in ('R%d' % d, 'N%d' % d):
                            for extra in extras:
                                fills = (fill,) + extra
                                pres = [own + fills]                                  # fills after k became an owner
                                if own:
                                    pres.append(fills + own + (fill,))                # before and after
                                    pres.append((fill,) + own + fills)
                                    pres.append(fills + own)                          # before only
                                for pre in pres:
                                    for tail in tails:
                                        h = pre + (add,) + tail
                                        if fill[0] == 'N':
                                            out.add(h + ('I0',))
                                            out.add(h + ('IR0',))
                                        out.add(h)
    out = sorted(h for h in out if valid_history(h, cfg['shape']))
    return out


def reread_histories(cfg, tier, seed=0):
    """Structured family: namespaces (of an instance through values / repr / serialization / objects('existing'),
    of classes) read, then a class-level change on any class, then (optionally) more.  -> sorted distinct histories"""
    n = len(SHAPES[cfg['shape']])
    thorough = tier == 'thorough'
    out = set()
    changes = ['S%d' % j for j in range(n)] + ['Px%d' % j for j in range(n)]
    if not cfg.get('xtype'):
        changes += ['Pq%d' % j for j in range(n)]
    creads = ['R%d' % k for k in range(n)]
    ireads = ['%s0' % k for k in INST_READS]

    def keep(h, one_in):
        return thorough or zlib.crc32(('%d|%s|%s' % (seed, cfg_text(cfg), ';'.join(h))).encode()) % one_in == 0

    for d in [None] + list(range(n)):
        iparts = [()] if d is None else [('N%d' % d,), ('N%d' % d, 'I0'), ('N%d' % d, 'IR0')]
        reads = creads + ([] if d is None else ireads)
        rsets = [()] + [(r,) for r in reads] + [(r1, r2) for r1 in reads for r2 in reads if r1 != r2]
        for ip in iparts:
            for rs in rsets:
                if d is None and not rs:
                    continue
                for c in changes:
                    h = ip + rs + (c,)
                    if len(rs) == 2 and not keep(h, 6):
                        continue
                    out.add(h)
                    if len(rs) == 2:
                        continue
                    # the history goes on: instance-level step / re-read and a second change
                    tails = []
                    if d is not None:
                        tails += [('I0',), ('IR0',)]
                    for r in (rs or reads[:1]):
                        for c2 in changes:
                            if c2 != c:
                                tails.append((r, c2))
                    for t in tails:
                        if keep(h + t, 4):
                            out.add(h + t)
    return sorted(h for h in out if valid_history(h, cfg['shape']))


def reread_sample(cfg, tier, seed):
    hs = reread_histories(cfg, tier, seed)
    if tier == 'thorough':
        return hs
    # quick: chain3 with the half, the non-Dynamic type with a quarter of that, selected by the seed
    k = (10 if tier == 'smoke' else 1) * (2 if cfg['shape'] == 'chain3' else 1) * (4 if cfg.get('xtype') else 1)
    return [h for h in hs if len(h) <= 3 or k == 1
            or zlib.crc32(('s|%d|%s|%s' % (seed, cfg_text(cfg), ';'.join(h))).encode()) % k == 0]


def fam_sample(cfg, tier, seed):
    return reread_sample(cfg, tier, seed) if cfg['fam'] == 'reread' else shadow_sample(cfg, tier, seed)


def plan(tier, cfg):
    """-> (max length enumerated exhaustively (all lengths 1..L), [(length, sample size)], hows)"""
    n = len(SHAPES[cfg['shape']])
    if cfg.get('fam'):
        return (0, [])
    if cfg.get('upd'):
        small = bool(cfg.get('xtype')) or n > 3
        if tier == 'thorough':
            return {2: (4, [(5, 6000), (6, 3000)]), 3: (3, [(4, 8000), (5, 6000)]), 4: (3, [(4, 6000), (5, 4000)])}[n] \
                if not cfg.get('xtype') else {2: (4, [(5, 3000)]), 3: (3, [(4, 4000), (5, 2000)])}[n]
        if tier == 'smoke':
            return (2, [(3, 100)])
        if n == 2:
            return (2, [(3, 300), (4, 150)]) if small else (3, [(4, 300), (5, 200)])
        if n == 3 and cfg['shape'] == 'chain3' and not small and not cfg['redecl']:
            return (3, [(4, 300)])
        return (1, [(2, 150), (3, 150), (4, 80)]) if small else (2, [(3, 500), (4, 300)])
    if cfg['shape'] == 'diamond' or cfg.get('fault'):
        small = bool(cfg.get('xtype'))
        if tier == 'thorough':
            return (3, [(4, 3000)]) if small else ((4, [(5, 6000)]) if n < 4 else (3, [(4, 8000), (5, 6000)]))
        if tier == 'smoke':
            return (2, [(3, 100)])
        return (1, [(2, 150), (3, 80)]) if small else (2, [(3, 200), (4, 100)])
    if cfg.get('xtype'):
        if tier == 'thorough':
            return {1: (5, []), 2: (4, [(5, 3000)]), 3: (3, [(4, 3000), (5, 2000)])}[n]
        if tier == 'smoke':
            return {1: (3, []), 2: (3, []), 3: (2, [(3, 100)])}[n]
        return {1: (3, [(4, 100)]), 2: (3, [(4, 150), (5, 100)]), 3: (2, [(3, 200), (4, 100)])}[n]
    if tier == 'thorough':
        return {1: (5, [(6, 8000)]), 2: (4, [(5, 15000), (6, 5000)]), 3: (3, [(4, 10000), (5, 8000)])}[n]
    if tier == 'smoke':
        return {1: (3, []), 2: (3, []), 3: (2, [(3, 300), (4, 300)])}[n]
    return {1: (4, [(5, 1000)]), 2: (3, [(4, 1500), (5, 1000)]), 3: (3, [(4, 1500), (5, 1000)])}[n] \
        if cfg['shape'] != 'fork' else (2, [(3, 1500), (4, 1500)])


SHADOW_QUICK = 700          # histories of the shadow family sampled per configuration in the quick tier


def shadow_sample(cfg, tier, seed):
    hs = shadow_histories(cfg, tier)
    if tier == 'thorough':
        return hs
    # quick: every skeleton without tail (deterministic), and a seeded slice of the rest
    count = 60 if tier == 'smoke' else SHADOW_QUICK
    if len(hs) <= count:
        return hs
    key = lambda h: zlib.crc32(('%d|%s|%s' % (seed, cfg_text(cfg), ';'.join(h))).encode())
    core = [h for h in hs if _split(h[-1])[0] in ('Px', 'Pq')]
    rest = sorted((h for h in hs if _split(h[-1])[0] not in ('Px', 'Pq')), key=key)
    if len(core) > count // 2:
        core = sorted(core, key=key)[:count // 2]
    return sorted(core + rest[:max(0, count - len(core))])


def how_of(seed, cfg, ops):
    return HOWS[zlib.crc32(('%d|%s|%s' % (seed, cfg_text(cfg), ';'.join(ops))).encode()) % 3]


def _work(task):
    cfg, mode, arg, seed, tier = task
    _P()
    alpha = alphabet(cfg)
    hits = {}
    n = 0
    fails = []
    failcount = {}
    samples = []

    def one(ops, how):
        nonlocal n
        n += 1
        try:
            rs = run_history(cfg, how, ops, hits)
        except Exception as e:
            rs = [('C13/harness/error', '-', repr(e), tuple(ops))]
        seen_here = set()
        for cl, at, det, full in rs:
            failcount[cl] = failcount.get(cl, 0) + 1
            wc = (cl, witness_class(full, cl))
            if wc in seen_here:
                continue
            seen_here.add(wc)
            if sum(1 for f in fails if (f[0], witness_class(f[2], f[0])) == wc) < 2:
                fails.append((cl, how, full, det))
        if not rs and len(samples) < 1 and n % 53 == 7:
            samples.append({'cfg': cfg_text(cfg), 'how': how, 'history': ';'.join(ops)})

    if mode == 'lst':
        for ops in arg[1]:
            if tier == 'thorough' and (cfg.get('fam') != 'reread' or len(ops) <= 4):
                for how in HOWS:
                    one(ops, how)
            else:
                one(ops, how_of(seed, cfg, ops))
    elif mode == 'exh':
        length, first = arg
        for ops in histories(alpha, length, first, cfg['shape']):
            if tier == 'thorough' and length <= 3:
                for how in HOWS:
                    one(ops, how)
            else:
                one(ops, how_of(seed, cfg, ops))
    else:
        import random
        length, count = arg
        rnd = random.Random('%d|%s|%d' % (seed, cfg_text(cfg), length))
        keys = set()
        tries = 0
        while len(keys) < count and tries < 40 * count:
            tries += 1
            ops = tuple(rnd.choice(alpha) for _ in range(length))
            if ops in keys or not valid_history(ops, cfg['shape']):
                continue
            keys.add(ops)
            one(ops, how_of(seed, cfg, ops))
    return n, hits, fails, failcount, samples


def make_tasks(tier, seed):
    tasks = []
    for cfg in configs():
        if cfg.get('fam'):
            hs = fam_sample(cfg, tier, seed)
            for a in range(0, len(hs), 250):
                tasks.append((cfg, 'lst', (6, hs[a:a + 250]), seed, tier))
            continue
        L, sampled = plan(tier, cfg)
        alpha = alphabet(cfg)
        firsts = [o for o in alpha if _split(o)[0] not in INST_KINDS]
        for length in range(1, L + 1):
            if length <= 2:
                tasks.append((cfg, 'exh', (length, None), seed, tier))
            else:
                for f in firsts:
                    tasks.append((cfg, 'exh', (length, f), seed, tier))
        for length, count in sampled:
            tasks.append((cfg, 'rnd', (length, count), seed, tier))
    return tasks


def plan_text(tier):
    out = []
    for cfg in configs():
        if cfg.get('fam') == 'reread':
            out.append('%s [re-read family]: %d structured histories (length 2..7)' % (
                cfg_text(cfg), len(reread_sample(cfg, tier, 0))))
            continue
        if cfg.get('fam'):
            nall = len(shadow_histories(cfg, tier))
            out.append('%s [shadow family]: %d of the %d structured histories (length 3..9)' % (
                cfg_text(cfg), len(shadow_sample(cfg, tier, 0)), nall))
            continue
        L, sampled = plan(tier, cfg)
        out.append('%s: all histories of length 1..%d%s' % (
            cfg_text(cfg), L, ''.join(' + %d seeded of length %d' % (c, l) for l, c in sampled)))
    return '; '.join(out)


def _run(tier, seed):
    _P()
    B = Bounded(
        'C13',
        rule='one case = (hierarchy of <= 3 fresh classes: single / chain2 / chain3 / fork, B optionally '
             'redeclaring x; type of x: Number (Dynamic family; all shapes) or a non-Dynamic type String / Boolean / '
             'List / Selector (single, chain2, fork; no Pq); diamonds A, B(A), C(A), D(B, C) with x declared on A '
             'and optionally redeclared on the LATER base C (or on B), x a Number / String / List; fault configurations '
             '(chain2, chain3, fork, diamond; x a Number / String) with the extra operation SF<k> = class-level set '
             'on class k that raises after the default was stored (raising class-level watcher); '
             'namespace-read style) x one history over {R<k> read namespace of class k, S<k> '
             'class-level set, Pq<k>/Px<k> add_parameter of a new / an existing name on class k, N<k> create '
             'instance, I<j> instance set, IR<j> read instance namespace}; every clause is evaluated after the '
             'LAST step only, for every class and instance (listed, identity vs inspect.getattr_static, default, '
             'values, repr, serialize, watch), followed by probe steps (watch-fires, governs).  Every length '
             'update configurations (upd=ctx; chain2, chain3, fork, diamond; x a Number / String) over the alphabet '
             '{R, S, N, U<k> = with K.param.update(x=v): pass, UO<k> / UC<k> = enter / leave such a block (the steps '
             'between are its body), I, IR, IU<j> = with inst.param.update(x=v): pass}; shadow family (chain3, chain4 = '
             'A;B(A);C(B);D(C); structured, not exhaustive): add_parameter of x / q on an ancestor j while an intermediate '
             'class k owns a Parameter of that name (declared / S<k> / Px<k> / Pq<k>) and a deeper class d has its cache '
             'filled (R / N, before and/or after), + 0..2 further steps (S / Sq<k> = K.q = v / R / N / owner replaced / I / IR); '
             'probe DI<j>: a freshly made instance copy obj.param[x] has default == getattr(type(obj), x).  Every length '
             '1..k is enumerated, so every prefix is checked in a run of its own.  The read style of a case is '
             'hashed from (seed, history) (all three styles for length <= 3 in thorough).  Distinct = '
             'distinct (configuration, style, history).',
        bound='%s: %s' % (tier, plan_text(tier)))
    B.exhaustive = False
    tasks = make_tasks(tier, seed)
    order = sorted(range(len(tasks)), key=lambda i: (-tasks[i][2][0], i))
    ctx = mp.get_context('fork')
    with ctx.Pool(16) as pool:
        results = pool.map(_work, [tasks[i] for i in order], chunksize=1)
    total = 0
    fails, failcount = [], {}
    for i, (n, hits, fl, fc, samples) in zip(order, results):
        cfg = tasks[i][0]
        total += n
        for k, v in hits.items():
            B.checked('C13/%s' % {'class': 'class/listed+identity+default+values+watch',
                                  'instance': 'instance/listed+values+repr+serialize+watch',
                                  'probe': 'probe/watch-fires+governs'}[k], v)
        for cl, how, ops, det in fl:
            fails.append((cl, cfg, how, ops, det))
        for c, k in fc.items():
            failcount[c] = failcount.get(c, 0) + k
        for s in samples:
            B.sample(s)
    B.evaluations = total
    fails.sort(key=lambda f: (len(f[3]), f[0], bool(f[1].get('fault')), XTYPE_ORDER.index(f[1].get('xtype')), len(SHAPES[f[1]['shape']]),
                              str(redecl_class(f[1])),
                              HOWS.index(f[2]), f[3]))
    seen = {}
    budget = {}
    nshrinks = 0
    for clause, cfg, how, ops, det in fails:
        if clause in ('C13/harness/error',):
            B.violation(clause, witness_text(cfg, how, ops, '-'), det)
            continue
        # a history that contains an already minimised witness of the clause is that defect again
        known = [v for (c, _k), v in seen.items() if c == clause and any(_subseq(m, ops) for m in v['_ops'])]
        if known:
            known[0]['count'] += 1
            continue
        pre = (clause, witness_class(ops, clause))
        budget[pre] = budget.get(pre, 0) + 1
        if budget[pre] > 2 or nshrinks >= 150:
            continue
        nshrinks += 1
        try:
            r = shrink(cfg, how, ops, clause)
        except Exception as e:
            B.note('shrink failed: %s %s %r' % (clause, witness_text(cfg, how, ops, '-'), e))
            continue
        if r is None:
            B.note('not reproduced when re-run: %s %s' % (clause, witness_text(cfg, how, ops, '-')))
            continue
        c2, h2, o2, at, det2 = r
        wk = (clause, witness_class(o2, clause))
        if wk in seen:
            seen[wk]['count'] += 1
            seen[wk]['_ops'].append(o2)
            continue
        w = witness_text(c2, h2, o2, at)
        det2 = re.sub(r"'([ABCD])\d{5}'", r"'\1<nnnnn>'", det2)       # auto-generated instance names
        B.violation(clause, w, det2, replay_script(c2, h2, o2, clause, at, w))
        seen[wk] = B.violations[-1]
        seen[wk]['_ops'] = [o2]
    for c, k in sorted(failcount.items()):
        B.note('failing (history, entity) checks for %s: %d (minimised to the witnesses above)' % (c, k))
    for v in B.violations:
        v.pop('_ops', None)
    res = B.result()
    res['distinct_nontrivial'] = total
    return res


def run(tier, seed):
    """Entry point of the layer (tiers: quick, thorough; 'smoke' is a development aid used for the
    mutation checks).  Warning filters and param's logger level are restored afterwards."""
    saved = (warnings.filters[:], logging.getLogger('param').level)
    try:
        return _run(tier, seed)
    finally:
        warnings.filters[:] = saved[0]
        logging.getLogger('param').setLevel(saved[1])
