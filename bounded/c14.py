"""Bounded stand-in layer of C14 -- constant and read-only parameters cannot be rebound after construction.

A *case* is a history  (constructor variant, op_1 .. op_k)  executed on freshly built classes
A, B(A), Q(A) (Q's __init__ catches the error of a failing Parameterized constructor) with two
bystander instances.  After EVERY step the invariants of the statement are evaluated:

  C14/constant/guard            rebinding a constant (different object, equal-but-distinct object, via
                                update) raises TypeError (claimed for valid values) and the held object is
                                the identical object as before
  C14/constant/invalid-value    an invalid value for a constant raises ValueError/TypeError, value untouched
  C14/constant/identical        re-assigning the identical object does not change the held object
  C14/constant/class-level      a class-level set (declaring class / subclass) leaves every existing
                                instance's held object untouched
  C14/constant/edit-block       inside edit_constant the held object becomes at most the assigned one
  C14/readonly/guard            instance / class / in-edit_constant assignment of a read-only parameter
                                raises TypeError, value untouched at instance and class level
  C14/edit_constant/flags       after the outermost exit (normal or exceptional) every constant/readonly
                                flag of every class-level and instance-level Parameter is as declared
  C14/name/constant             `name` is constant: flag set, rebinding raises TypeError

Falsy-default dimension: A also declares constants whose default is None / 0 / '' / [] / False / an
empty List (``zn z0 zs zl zf zL``; never passed to a constructor).  They are part of every snapshot (target
and bystanders), and the operations ``clsz-A / clsz-B / clsz-own`` (class-level set of all of them to fresh
truthy objects on the declaring class / the subclass / the target's class) and ``clsz0-own`` (class-level set
back to falsy values) put them under the class-level clause: an existing instance keeps the object it held.

Diamond dimension: A also declares ``k`` (NOT constant) and ``m`` (constant); ``C(A)`` redeclares both with
``constant=True`` and defaults of its own; ``D(B, C)`` -- the earlier base B merely inherits, the later base C
has its own Parameter, which governs ``D.k`` / ``D.m`` by Python's MRO.  Constructor variants ``D()`` /
``D(k=X)``, a bystander instance of D, and the operations ``cls-C / cls-D / clsk-A`` (class-level sets of k, m
(and c) on C / D / of k on A), ``setk-diff`` (instance-level rebinding of k: TypeError on instances of C / D)
and ``editk`` put the redeclared constants under the same clauses: pinned at construction, untouched by
class-level sets, flags restored.

Copy-created-inside-the-block dimension: ``edit_constant`` blocks whose body creates the instance-level
Parameter copies (reading ``obj.param[..]``, ``obj.param.objects()``, watching, assigning a valid / an INVALID
value, ``update``) on an instance that may have none yet, and that exit with an exception (raised by the body
or by the rejected assignment itself): ``edit-read-raise, edit-objects, edit-objects-raise, edit-watch-raise,
edit-update-raise, edit-num-raise, edit-invalid, edit-other-raise``.

The oracle is adaptive where the statement permits either outcome (an assignment inside edit_constant
or at class level may succeed or be refused), so only what the statement demands is checked.  Histories
are prefix-closed: a failure is reported with the shortest prefix that exhibits it.
"""
import itertools
import logging

FALSY = ('zn', 'z0', 'zs', 'zl', 'zf', 'zL')
import warnings
from concurrent.futures import ProcessPoolExecutor

from bounded._api import Bounded, REPLAY_HEADER
from bounded import c14_refs
from bounded import c14_multi          # families MI (several instances / classes, overlapping blocks) and RC


def _header(**kw):
    """replay header; PYVC_REPO (a scratch copy of the library under test) overrides /repo"""
    return REPLAY_HEADER.format(**kw).replace(
        "sys.path.insert(0, '/repo')",
        "import os\nsys.path.insert(0, os.environ.get('PYVC_REPO', '/repo'))      # (PYVC_REPO: a scratch copy of the library under test)")


HARNESS_SRC = r'''
import warnings, logging, copy
warnings.simplefilter('ignore'); logging.getLogger('param').setLevel(100)
import param
from param.parameterized import edit_constant

class Obj:
    """Value object: equality by label, so that equal-but-not-identical objects exist."""
    def __init__(self, label): self.label = label
    def __eq__(self, other): return isinstance(other, Obj) and other.label == self.label
    def __ne__(self, other): return not self == other
    def __hash__(self): return hash(self.label)
    def __repr__(self): return 'Obj(%r)' % self.label

DECLARED = {'c': (True, False), 'n': (True, False), 'r': (True, True), 'name': (True, False), 'v': (False, False),
            'm': (True, False)}
FALSY = ('zn', 'z0', 'zs', 'zl', 'zf', 'zL')       # constants with a falsy default
for _z in FALSY:
    DECLARED[_z] = (True, False)

def declared(K, p):
    """(constant, readonly) as declared for parameter p on class K; k is constant from class C downwards"""
    if p == 'k':
        return (any(b.__name__ == 'C' for b in K.__mro__), False)
    return DECLARED[p]
ALL_NAMES = tuple(DECLARED) + ('k',)

def cls_param(C, n):
    for K in C.__mro__:
        p = K.__dict__.get(n)
        if isinstance(p, param.Parameter):
            return p

DIAMOND_OPS = ('cls-C', 'cls-D', 'clsk-A', 'setk-diff', 'editk')

class World:
    def __init__(self, diamond=True):
        """diamond=False: the classes C, D and the bystander instance of D are not built (histories that never
        touch them; building classes dominates the cost of a case)"""
        self.fail = []                          # (clause, what, detail)
        self.C0, self.R0 = Obj('c0'), Obj('r0')
        C0, R0 = self.C0, self.R0
        K0, K1, M0, M1 = Obj('k0'), Obj('k1'), Obj('m0'), Obj('m1')
        class A(param.Parameterized):
            c = param.Parameter(default=C0, constant=True)
            r = param.Parameter(default=R0, readonly=True)
            n = param.Number(default=1.5, bounds=(0, 10), constant=True)
            v = param.Number(default=1)
            zn = param.Parameter(default=None, constant=True)
            z0 = param.Integer(default=0, constant=True)
            zs = param.String(default='', constant=True)
            zl = param.Parameter(default=[], constant=True)
            zf = param.Boolean(default=False, constant=True)
            zL = param.List(default=[], constant=True)
            k = param.Parameter(default=K0)                     # not constant here
            m = param.Parameter(default=M0, constant=True)
        class B(A):
            pass
        if diamond:
            class C(A):                                        # the LATER base of the diamond has its own k, m
                k = param.Parameter(default=K1, constant=True)
                m = param.Parameter(default=M1, constant=True)
            class D(B, C):                                     # MRO: D, B, C, A
                pass
        else:
            C = D = None
        class Q(A):
            def __init__(self, **kw):
                try:
                    super().__init__(**kw)
                except Exception as e:          # a subclass that survives a failing constructor
                    self.__dict__['ctor_error'] = type(e).__name__
        self.A, self.B, self.Q, self.C, self.D = A, B, Q, C, D
        self.classes = (A, B, Q, C, D) if diamond else (A, B, Q)
        self.e, self.eb, self.ed = A(), B(), (D() if diamond else None)              # bystanders: existing instances
        self.bystanders = (self.e, self.eb, self.ed) if diamond else (self.e, self.eb)
        self.held_e = {id(x): self.snap(x) for x in self.bystanders}
        if diamond and (self.ed.k is not K1 or self.ed.m is not M1):
            self.fail.append(('C14/constant/constructor', 'diamond:constant-of-later-base-not-installed',
                              'D().k is %r, D().m is %r; D.k is %r, D.m is %r' % (self.ed.k, self.ed.m, D.k, D.m)))
        self.n = 0
        self.o = None

    def fresh(self):
        self.n += 1
        return Obj('f%d' % self.n)

    def snap(self, x):
        d = {'c': x.c, 'r': x.r, 'n': x.n, 'name': x.name, 'm': x.m}
        for z in FALSY:
            d[z] = getattr(x, z)
        if declared(type(x), 'k')[0]:
            d['k'] = x.k
        return d

    def set_falsy(self, K, truthy):
        """class-level set of every falsy-default constant of class K (allowed by the statement)"""
        self.n += 1
        vals = ({'zn': Obj('z%d' % self.n), 'z0': 1000 + self.n, 'zs': 's%d' % self.n, 'zl': [self.n], 'zf': True,
                 'zL': [self.n]} if truthy else
                {'zn': None, 'z0': 0, 'zs': '', 'zl': [], 'zf': False, 'zL': []})
        for z in FALSY:
            self.attempt(lambda: setattr(K, z, vals[z]))

    def sync(self):
        self.held = self.snap(self.o)

    # ---- invariants evaluated after every step ------------------------------------------------
    def check(self, in_block=False):
        o = self.o
        for k, v in self.snap(o).items():
            if v is not self.held[k] and not (k == 'name' and v == self.held[k]):
                clause = {'r': 'C14/readonly/guard', 'name': 'C14/name/constant'}.get(k, 'C14/constant/guard')
                self.fail.append((clause, 'held-object-changed:' + k, '%s: %r -> %r' % (k, self.held[k], v)))
                self.held[k] = v
        for x in self.bystanders:
            for k, v in self.snap(x).items():
                if v is not self.held_e[id(x)][k] and not (k == 'name' and v == self.held_e[id(x)][k]):
                    self.fail.append(('C14/constant/class-level', 'existing-instance-changed:' + k,
                                      'bystander %s.%s: %r -> %r' % (type(x).__name__, k, self.held_e[id(x)][k], v)))
                    self.held_e[id(x)][k] = v
        for K in self.classes:
            if K.r is not self.R0:
                self.fail.append(('C14/readonly/guard', 'class-value-changed', '%s.r is %r' % (K.__name__, K.r)))
        if not in_block:
            bad = []
            for K in self.classes:
                for p in ALL_NAMES:
                    const, ro = declared(K, p)
                    P = cls_param(K, p)
                    if P.constant is not const:
                        bad.append(('class', p, 'constant', P.constant))
                    if P.readonly is not ro:
                        bad.append(('class', p, 'readonly', P.readonly))
            for x in (o,) + self.bystanders:
                for p, P in x._param__private.params.items():
                    const, ro = declared(type(x), p)
                    if P.constant is not const:
                        bad.append(('instance' if x is o else 'other-instance', p, 'constant', P.constant))
                    if P.readonly is not ro:
                        bad.append(('instance' if x is o else 'other-instance', p, 'readonly', P.readonly))
            for level, p, flag, val in bad:
                clause = 'C14/name/constant' if p == 'name' else 'C14/edit_constant/flags'
                what = 'flag-wrong:%s-level:%s:%s=%s' % (level, 'readonly-param' if p == 'r' else
                                                       'ordinary-param' if p == 'v' else 'name' if p == 'name'
                                                       else 'diamond-param' if p == 'k'
                                                       else 'constant-param', flag, val)
                self.fail.append((clause, what, '%s-level Parameter %r has %s=%r' % (level, p, flag, val)))
                # repair so that one defect is reported once per history
            for K in self.classes:
                for p in ALL_NAMES:
                    const = declared(K, p)[0]
                    P = cls_param(K, p)
                    if P.constant is not const: P.constant = const
            for x in (o,) + self.bystanders:
                for p, P in x._param__private.params.items():
                    const = declared(type(x), p)[0]
                    if P.constant is not const: P.constant = const

    # ---- helpers ---------------------------------------------------------------------------------
    def must_raise_TypeError(self, clause, what, f):
        try:
            f()
        except TypeError:
            return
        except Exception as e:
            self.fail.append((clause, 'wrong-exception:' + what, 'raised %s: %s' % (type(e).__name__, e)))
            return
        self.fail.append((clause, 'not-rejected:' + what, 'no exception raised'))

    def attempt(self, f):
        try:
            f()
            return None
        except Exception as e:
            return type(e).__name__

    def permitted_change(self, key, candidates):
        """The statement permits the held object to become one of ``candidates`` (or stay)."""
        if key not in self.held:
            return
        v = getattr(self.o, key)
        if v is not self.held[key]:
            if not any(v is c for c in candidates):
                self.fail.append(('C14/constant/edit-block', 'held-object-unexpected:' + key,
                                  '%s is %r, neither the old object nor an assigned one' % (key, v)))
            self.held[key] = v

# ---- constructor variants -------------------------------------------------------------------------
def ctor(w, kind):
    X = w.fresh()
    if kind == 'A()': w.o = w.A()
    elif kind == 'A(c=X)': w.o = w.A(c=X)
    elif kind == 'B()': w.o = w.B()
    elif kind == 'B(c=X)': w.o = w.B(c=X)
    elif kind == 'Q()': w.o = w.Q()
    elif kind == "Q(n='bad')": w.o = w.Q(n='bad')          # Parameterized.__init__ raises inside, Q catches
    elif kind == 'Q(zz=1)': w.o = w.Q(zz=1)                # unknown keyword: TypeError inside, Q catches
    elif kind == 'D()': w.o = w.D()
    elif kind == 'D(k=X)': w.o = w.D(k=X)
    else: raise KeyError(kind)
    w.sync()
    if 'c=X' in kind and w.o.c is not X:
        w.fail.append(('C14/constant/constructor', 'constructor-argument-not-installed', repr(w.o.c)))
    if 'k=X' in kind and w.o.k is not X:
        w.fail.append(('C14/constant/constructor', 'diamond:constructor-argument-not-installed', repr(w.o.k)))
    if kind == 'D()' and (w.o.k is not w.D.k or w.o.m is not w.D.m):
        w.fail.append(('C14/constant/constructor', 'diamond:constant-of-later-base-not-installed',
                       'D().k is %r, D().m is %r; D.k is %r, D.m is %r' % (w.o.k, w.o.m, w.D.k, w.D.m)))
    w.check()

# ---- operations --------------------------------------------------------------------------------------
def op(w, name):
    o = w.o
    in_fail = None
    if name == 'set-same':
        w.attempt(lambda: setattr(o, 'c', o.c))
    elif name == 'upd-same':
        w.attempt(lambda: o.param.update(c=o.c))
    elif name == 'set-diff':
        w.must_raise_TypeError('C14/constant/guard', 'different-object', lambda: setattr(o, 'c', w.fresh()))
    elif name == 'set-equal':
        w.must_raise_TypeError('C14/constant/guard', 'equal-but-distinct-object', lambda: setattr(o, 'c', Obj(o.c.label)))
    elif name == 'upd-diff':
        w.must_raise_TypeError('C14/constant/guard', 'update', lambda: o.param.update(c=w.fresh()))
    elif name == 'num-diff':
        w.must_raise_TypeError('C14/constant/guard', 'valid-number', lambda: setattr(o, 'n', 5.5))
    elif name == 'num-bad':
        exc = w.attempt(lambda: setattr(o, 'n', 'bad'))
        if exc not in ('ValueError', 'TypeError'):
            w.fail.append(('C14/constant/invalid-value', 'not-rejected' if exc is None else 'wrong-exception', str(exc)))
    elif name == 'cls-A':
        w.attempt(lambda: setattr(w.A, 'c', w.fresh()))
    elif name == 'cls-B':
        w.attempt(lambda: setattr(w.B, 'c', w.fresh()))
    elif name == 'cls-own':
        w.attempt(lambda: setattr(type(o), 'c', w.fresh()))
    elif name == 'cls-n':
        w.attempt(lambda: setattr(type(o), 'n', 7.5))
    elif name in ('cls-C', 'cls-D'):
        K = w.C if name == 'cls-C' else w.D
        for key in ('k', 'm', 'c'):
            w.attempt(lambda: setattr(K, key, w.fresh()))
    elif name == 'clsk-A':
        w.attempt(lambda: setattr(w.A, 'k', w.fresh()))
    elif name == 'setk-diff':
        if 'k' in w.held:
            w.must_raise_TypeError('C14/constant/guard', 'diamond:different-object', lambda: setattr(o, 'k', w.fresh()))
            w.must_raise_TypeError('C14/constant/guard', 'diamond:different-object', lambda: setattr(o, 'm', w.fresh()))
        else:
            w.attempt(lambda: setattr(o, 'k', w.fresh()))       # k is an ordinary parameter on A / B / Q
            w.must_raise_TypeError('C14/constant/guard', 'different-object', lambda: setattr(o, 'm', w.fresh()))
    elif name == 'clsz-A':
        w.set_falsy(w.A, True)
    elif name == 'clsz-B':
        w.set_falsy(w.B, True)
    elif name == 'clsz-own':
        w.set_falsy(type(o), True)
    elif name == 'clsz0-own':
        w.set_falsy(type(o), False)
    elif name == 'read-param':
        o.param['c']; o.param['n']; o.param['r']; o.param['name']; w.e.param['c']
    elif name in ('edit', 'edit-read', 'edit-nested', 'edit-raise', 'edit-nested-raise', 'edit-ro', 'edit-update', 'editk',
                  'edit-read-raise', 'edit-objects', 'edit-objects-raise', 'edit-watch-raise', 'edit-update-raise',
                  'edit-num-raise', 'edit-invalid', 'edit-other-raise'):
        cands = []
        ncands = []
        def tryset(key='c'):
            x = w.fresh(); cands.append(x)
            w.attempt(lambda: setattr(o, key, x))
        def block(body):
            """an edit_constant block whose body (may) raise: the exception leaves the block"""
            try:
                with edit_constant(o):
                    body()
                    raise RuntimeError('boom')
            except (RuntimeError, ValueError, TypeError):
                pass
        if name == 'editk':
            with edit_constant(o):
                tryset('k'); tryset('m')
        elif name == 'edit-read-raise':
            block(lambda: (o.param['c'], o.param['n'], o.param['m'], o.param['k']))
        elif name == 'edit-objects':
            with edit_constant(o):
                o.param.objects(instance=True)
        elif name == 'edit-objects-raise':
            block(lambda: o.param.objects(instance=True))
        elif name == 'edit-watch-raise':
            block(lambda: o.param.watch(lambda *e: None, ['c', 'n']))
        elif name == 'edit-update-raise':
            def body():
                x = w.fresh(); cands.append(x)
                o.param.update(c=x)
            block(body)
        elif name == 'edit-num-raise':
            def body():
                x = 2.5 + w.n; ncands.append(x)
                o.n = x
            block(body)
        elif name == 'edit-invalid':
            def body():
                o.n = 'bad'                     # rejected by the validator: the exception leaves the block
            block(body)
        elif name == 'edit-other-raise':
            def body():
                o.v = 3
                o.param['v']
            block(body)
        elif name == 'edit':
            with edit_constant(o):
                tryset()
        elif name == 'edit-update':
            with edit_constant(o):
                x = w.fresh(); cands.append(x)
                w.attempt(lambda: o.param.update(c=x))
        elif name == 'edit-read':
            with edit_constant(o):
                o.param['c']; o.param['n']
                tryset()
        elif name == 'edit-nested':
            with edit_constant(o):
                with edit_constant(o):
                    tryset()
                tryset()
        elif name == 'edit-raise':
            try:
                with edit_constant(o):
                    tryset()
                    raise RuntimeError('boom')
            except RuntimeError:
                pass
        elif name == 'edit-nested-raise':
            with edit_constant(o):
                try:
                    with edit_constant(o):
                        o.param['c']
                        raise RuntimeError('boom')
                except RuntimeError:
                    pass
                tryset()
        elif name == 'edit-ro':
            with edit_constant(o):
                w.must_raise_TypeError('C14/readonly/guard', 'inside-edit_constant', lambda: setattr(o, 'r', w.fresh()))
        w.permitted_change('c', cands)
        w.permitted_change('k', cands)
        w.permitted_change('m', cands)
        w.permitted_change('n', ncands)
    elif name == 'ro-inst':
        w.must_raise_TypeError('C14/readonly/guard', 'instance', lambda: setattr(o, 'r', w.fresh()))
    elif name == 'ro-upd':
        w.must_raise_TypeError('C14/readonly/guard', 'update', lambda: o.param.update(r=w.fresh()))
    elif name == 'ro-cls':
        w.must_raise_TypeError('C14/readonly/guard', 'declaring-class', lambda: setattr(w.A, 'r', w.fresh()))
        w.must_raise_TypeError('C14/readonly/guard', 'subclass', lambda: setattr(w.B, 'r', w.fresh()))
    elif name == 'name':
        w.must_raise_TypeError('C14/name/constant', 'rebinding', lambda: setattr(o, 'name', 'zzz'))
    elif name == 'deepcopy':
        w.o = copy.deepcopy(o)
        w.sync()
    elif name == 'new-inst':
        w.o = type(o)()
        w.sync()
    else:
        raise KeyError(name)
    w.check()

def run_history(ctor_kind, ops, diamond=None):
    """-> list of (step, clause, what, detail); step 0 is the constructor (and the construction of the world:
    classes and bystander instances).  diamond=None: the diamond classes are built iff the history uses them."""
    if diamond is None:
        diamond = ctor_kind.startswith('D') or any(o in DIAMOND_OPS for o in ops)
    w = World(diamond=diamond)
    out = []
    ctor(w, ctor_kind)
    out += [(0,) + f for f in w.fail]; w.fail = []
    for i, name in enumerate(ops):
        op(w, name)
        out += [(i + 1,) + f for f in w.fail]; w.fail = []
    return out
'''

CTORS = ["A()", "A(c=X)", "B()", "B(c=X)", "Q()", "Q(n='bad')", "Q(zz=1)", "D()", "D(k=X)"]
OPS = ["set-same", "upd-same", "set-diff", "set-equal", "upd-diff", "num-diff", "num-bad", "cls-A", "cls-B",
       "cls-own", "cls-n", "clsz-A", "clsz-B", "clsz-own", "clsz0-own", "read-param", "edit", "edit-update", "edit-read", "edit-nested", "edit-raise",
       "edit-nested-raise", "edit-ro", "ro-inst", "ro-upd", "ro-cls", "name", "deepcopy", "new-inst",
       "cls-C", "cls-D", "clsk-A", "setk-diff", "editk",
       "edit-read-raise", "edit-objects", "edit-objects-raise", "edit-watch-raise", "edit-update-raise",
       "edit-num-raise", "edit-invalid", "edit-other-raise"]
CORE_OPS = ["set-diff", "set-equal", "cls-own", "clsz-own", "read-param", "edit", "edit-nested", "edit-raise",
            "edit-nested-raise", "ro-inst", "deepcopy"]
CORE_CTORS = ["A()", "B(c=X)", "Q(n='bad')"]


def _pmap(fn, jobs):
    """Parallel map over the 16 cores; serial fallback when worker processes cannot be started."""
    try:
        ex = ProcessPoolExecutor(max_workers=16)
    except (OSError, AssertionError, ValueError):
        ex = None
    if ex is not None:
        try:
            with ex:
                return list(ex.map(fn, jobs))
        except (OSError, AssertionError) as e:      # e.g. daemonic parent process
            if "daemonic" not in str(e) and not isinstance(e, OSError):
                raise
    return [fn(j) for j in jobs]


_HARNESS = None


def harness():
    global _HARNESS
    if _HARNESS is None:
        ns = {"__name__": "c14_harness"}
        exec(compile(HARNESS_SRC, "<c14 harness>", "exec"), ns)
        _HARNESS = ns
    return _HARNESS


N_OLD_CTORS, N_OLD_OPS = 7, 29        # the constructor variants / operations before the diamond and raising-block dimensions


def enumerate_histories(tier, seed=0):
    """Maximal histories only (every prefix is checked step by step)."""
    import zlib
    out = []
    if tier == "quick":
        old_c, old_o = set(CTORS[:N_OLD_CTORS]), set(OPS[:N_OLD_OPS])
        for c in CTORS:
            for h in itertools.product(OPS, repeat=2):
                if not (c in old_c and h[0] in old_o and h[1] in old_o):
                    # histories with a diamond / raising-block constructor or operation: one in three, chosen by the seed
                    # (each of these operations still appears first and second after every constructor variant)
                    if zlib.crc32(("%d|%s|%s|%s" % (seed, c, h[0], h[1])).encode()) % 3:
                        continue
                out.append((c, h))
    else:
        for c in CTORS:
            for h in itertools.product(OPS, repeat=3):
                out.append((c, h))
        for c in CORE_CTORS:
            for h in itertools.product(CORE_OPS, repeat=4):
                out.append((c, h))
    return out


def run_chunk(args):
    start, step, tier, seed = args
    warnings.simplefilter("ignore")
    logging.getLogger("param").setLevel(logging.CRITICAL + 1)
    H = harness()
    hs = enumerate_histories(tier, seed)
    out = []
    for i in range(start, len(hs), step):
        c, h = hs[i]
        out.append((i, H["run_history"](c, list(h))))
    return out


def make_replay(c, prefix, clause, witness):
    head = _header(prop="C14", name="replay_c14.py", clause=clause, witness=witness)
    return head + HARNESS_SRC + '''
ctor_kind = %r
ops = %r
fails = run_history(ctor_kind, ops, diamond=%r)
print('history: constructor', ctor_kind, 'then', ops)
for step, clause, what, detail in fails:
    print('   step %%d (%%s): %%s  %%s  -- %%s' %% (step, (['<constructor>'] + ops)[step], clause, what, detail))
hit = [f for f in fails if f[1] == %r and f[2] == %r]
if hit:
    print('REPRODUCED:', hit[0][1], hit[0][2], '--', hit[0][3]); sys.exit(1)
print('NOT-REPRODUCED'); sys.exit(0)
''' % (c, list(prefix), True if "ctx=diamond" in witness else None, clause, witness.split(" what=")[1].split(" ")[0])


def run(tier, seed):
    hs = enumerate_histories(tier, seed)
    B = Bounded(
        "C14",
        rule="one case = maximal history (constructor variant, op_1..op_k) on fresh classes A, B(A), Q(A) "
             "(Q.__init__ catches a failing Parameterized constructor) with two bystander instances; after every "
             "step the held objects (identity) of the target and of the bystanders, the class values, every "
             "constant/readonly flag at class and instance level and the exception class of the step are checked; "
             "each prefix is thereby a checked history, failures are reported with their shortest prefix",
        bound="history length (constructor + ops) <= %s: %d constructor variants (plain, constant passed as "
              "argument, subclass, constructor failing inside a subclass __init__ that catches the error: invalid "
              "value / unknown keyword) x all sequences of %d ops over %d operations (identical / different / "
              "equal-but-distinct object, update, valid and invalid number, class-level set on declaring class / "
              "subclass / own class, class-level set of the constants with a falsy default (None, 0, '', [], False, "
              "empty List) to truthy values on declaring class / subclass / own class and back to falsy values, reading obj.param[...] first, edit_constant plain / update / reading inside / "
              "nested / raising / nested-raising / with a read-only target, read-only at instance / update / class "
              "level, name, deepcopy, new instance; diamond D(B, C) whose later base C redeclares k, m constant: constructors "
              "D() / D(k=X), class-level sets on C / D / A, instance-level rebinding, edit_constant on them; "
              "edit_constant blocks whose body creates the instance-level Parameter copies (param[..], objects(), watch, "
              "update, valid / invalid assignment, ordinary parameter) and that exit with an exception)%s"
              % ("3" if tier == "quick" else "5", len(CTORS), 2 if tier == "quick" else 3, len(OPS),
                 "; quick: every history over the first %d constructor variants and %d operations, one in three (chosen "
                 "by the seed) of those involving a diamond / raising-block constructor or operation"
                 % (N_OLD_CTORS, N_OLD_OPS) if tier == "quick" else "; length 5: %d constructor variants x %d^4 core operations"
                 % (len(CORE_CTORS), len(CORE_OPS))))
    nchunks = 64
    results = {}
    for out in _pmap(run_chunk, [(i, nchunks, tier, seed) for i in range(nchunks)]):
        for i, fails in out:
            results[i] = fails
    groups = {}
    nsteps = 0
    for i in range(len(hs)):
        c, h = hs[i]
        fails = results[i]
        B.case(key="ctor=%s ops=[%s]" % (c, ",".join(h)))
        nsteps += len(h) + 1
        if i % 1999 == 7:
            B.sample({"constructor": c, "ops": list(h), "failures": [f[1:3] for f in fails]})
        for step, clause, what, detail in fails:
            prefix = h[:step]
            ctx = "after-failed-constructor" if c in ("Q(n='bad')", "Q(zz=1)") else "normal"
            major = what.split(":")[0]
            if major == "held-object-changed" and any(
                    f[0] == step and f[1] == clause and f[2].startswith("not-rejected") for f in fails):
                continue          # consequence of the missing rejection already recorded for this step
            if what.split(":")[-1] in FALSY:
                ctx = "falsy-default"       # (one class for all constructor variants: shortest history wins)
            if what.split(":")[-1] in ("k", "m") or "diamond" in what:
                ctx = "diamond"
            g = (clause, major, ctx)
            cand = (len(prefix), CTORS.index(c), tuple(OPS.index(x) for x in prefix))
            cur = groups.get(g)
            if cur is None or cand < cur[0]:
                groups[g] = (cand, c, prefix, detail, (cur[4] if cur else 0) + 1, what)
            else:
                groups[g] = cur[:4] + (cur[4] + 1, cur[5])
    for cl in ("C14/constant/guard", "C14/constant/class-level", "C14/readonly/guard", "C14/edit_constant/flags",
               "C14/name/constant", "C14/constant/edit-block"):
        B.checked(cl, nsteps)
    for g in sorted(groups):
        cand, c, prefix, detail, count, what = groups[g]
        clause, major, ctx = g[:3]
        witness = "ctx=%s what=%s ctor=%s ops=[%s]" % (ctx, what, c, ",".join(prefix))
        B.violation(clause=clause, witness=witness,
                    detail="%d (history, step) occurrences; shortest history shown. %s" % (count, detail),
                    replay=make_replay(c, prefix, clause, witness))
        B._seen[(clause, witness)]["count"] = count
    B.note("adaptive oracle: an assignment inside edit_constant or at class level may succeed or be refused "
           "(the statement only restricts changes *outside*); TypeError is demanded for valid values only")
    c14_refs.extend(B, tier, seed)      # reference-valued assignments to constant / read-only parameters
    c14_multi.extend(B, tier, seed, _pmap)      # several instances / classes, overlapping blocks; class-level re-assignment
    return B.result()
