"""Helper of the bounded stand-in layer for C14: histories over SEVERAL instances and classes of one hierarchy.

Family MI (multi-instance histories)
------------------------------------
Fresh classes  P (declares c, n constant, r read-only, v ordinary)  and  Q(P)  (merely inherits), three
existing instances a, b : P and q : Q.  A history is a word over the tokens

  E:x            enter ``edit_constant(x)``                                        x in a, b, q
  X  XR  XO      leave the innermost block normally / leave it with an exception raised by the body / leave
                 the OLDEST open block first (overlapping, not nested, blocks: ExitStack, generators)
  K:x:how        something that may create x's instance-level Parameter copies:  how = item (``x.param['c']``),
                 objs (``x.param.objects()``), watch (``x.param.watch(fn, ['c', 'n'])``), attr (``x.param.c``)
  S:P  S:Q       class-level set of c (a different object) on the declaring class / on the subclass
  SI:Q  SU:Q     class-level set on the subclass of the IDENTICAL object it inherits / through ``Q.param.update``
  RI:Q           class-level set of the read-only parameter on the subclass, identical object (must raise)
  D:R  D:S  D:T  class definition:  ``class R(P): pass``,  ``class S(P): c = Parameter(default=X)`` (the
                 ``constant`` slot is inherited),  ``class T(Q): pass``
  N:P  N:Q       a new instance
  C:a  C:b       ``copy.deepcopy`` of an instance (a further instance)
  W:x            an attempt to rebind c on x (different object)

Blocks still open at the end of the word are left normally, innermost first.  Oracle (statement only; a plain
Python model of "which blocks are open" and "which object every instance holds"):

  C14/multi/constant-locked-after-blocks   whenever NO block is open, rebinding c / n / name on ANY instance (the
                                 existing ones, those created by the history, a fresh instance of every class
                                 that exists, also the classes defined by the history) by assignment or
                                 ``update`` raises TypeError and the held object is untouched
  C14/multi/flags-restored       whenever no block is open every class-level Parameter (every class of the
                                 hierarchy, own copies made by class-level sets included) and every
                                 instance-level copy has constant / readonly as declared
  C14/multi/held-object          no instance's held object changes, except c of x by ``W:x`` inside a block
                                 (to the assigned object); class-level sets never change an existing instance
  C14/multi/readonly             r is refused with TypeError at class level (identical object included), at
                                 instance level after the blocks, and never changes

Inside an open block (of whichever instance) an assignment may succeed or be refused: the statement only
restricts what happens OUTSIDE edit_constant.  The probes are evaluated once, when the word is finished
(they would disturb the history: a successful rebinding is itself a state change); the non-intrusive flag and
held-object clauses are evaluated after every step.

Every failure is tagged with how the object it concerns came into being (``born``): whether the instance-level
copy / the subclass's own copy / the class / the instance / the deepcopy was created while a block was open
(``in-block:<kind>``) and whether the instance that opened a block then open had, at that moment, no
instance-level copy of the parameter concerned (``cls``: its block works on the CLASS-level Parameter) or had
one (``own``).  The tags come from the history alone; they name the class of the witness, so that a known
finding covers exactly one mechanism.

Family RC (re-assignment at class level)
----------------------------------------
P, Q(P), QQ(Q) as above; product of  class in P/Q/QQ  x  parameter r (read-only) / c / n (constant)  x  route
(``setattr(K, p, v)`` / ``K.param.update(p=v)``)  x  value (the identical object / an equal but distinct
object / a different object)  x  what happened before (nothing; an instance of K exists; it has instance-level
copies; a closed edit_constant block on it; the assignment is made INSIDE its block; a class-level set of c
on the parent before).

  C14/class-reassign/readonly-rejected   every class-level assignment of r raises TypeError
  C14/class-reassign/value-untouched     r of every class and of every instance is the object it was; c / n of
                                         every existing instance is the object it was
  C14/class-reassign/still-locked        afterwards (no block open) flags are as declared and instance-level
                                         rebinding of c / n / r raises TypeError on old and fresh instances
"""
import itertools
import zlib

from bounded._api import REPLAY_HEADER


def _header(**kw):
    return REPLAY_HEADER.format(**kw).replace(
        "sys.path.insert(0, '/repo')",
        "import os\nsys.path.insert(0, os.environ.get('PYVC_REPO', '/repo'))")


C_LOCK = "C14/multi/constant-locked-after-blocks"
C_FLAGS = "C14/multi/flags-restored"
C_HELD = "C14/multi/held-object"
C_RO = "C14/multi/readonly"
C_RC_RO = "C14/class-reassign/readonly-rejected"
C_RC_VAL = "C14/class-reassign/value-untouched"
C_RC_LOCK = "C14/class-reassign/still-locked"
CLAUSES = (C_LOCK, C_FLAGS, C_HELD, C_RO, C_RC_RO, C_RC_VAL, C_RC_LOCK)

HARNESS_SRC = r'''
import warnings, logging, copy
warnings.simplefilter('ignore'); logging.getLogger('param').setLevel(100)
import param
from param.parameterized import edit_constant

class Obj:
    """Value object: equality by label, so that equal-but-not-identical objects exist."""
    def __init__(self, label): self.label = label
    def __eq__(self, other): return isinstance(other, Obj) and other.label == self.label
    def __ne__(self, other): return not self == other
    def __hash__(self): return hash(self.label)
    def __repr__(self): return 'Obj(%r)' % self.label

# as declared (constant, readonly); every class of the hierarchy inherits these (a Parameter redeclared without
# ``constant=`` inherits the slot)
DECL = {'c': (True, False), 'n': (True, False), 'name': (True, False), 'r': (True, True), 'v': (False, False)}
CONSTS = ('c', 'n', 'name')
C_LOCK = "C14/multi/constant-locked-after-blocks"
C_FLAGS = "C14/multi/flags-restored"
C_HELD = "C14/multi/held-object"
C_RO = "C14/multi/readonly"
C_RC_RO = "C14/class-reassign/readonly-rejected"
C_RC_VAL = "C14/class-reassign/value-untouched"
C_RC_LOCK = "C14/class-reassign/still-locked"

def outcome(f):
    try:
        f()
        return None
    except Exception as e:
        return type(e).__name__


class MWorld:
    def __init__(self, deep=False):
        self.fail = []                 # (clause, what, target, param, born, detail)
        self.C0, self.R0 = Obj('c0'), Obj('r0')
        C0, R0 = self.C0, self.R0
        class P(param.Parameterized):
            c = param.Parameter(default=C0, constant=True)
            n = param.Number(default=1.5, bounds=(0, 100), constant=True)
            r = param.Parameter(default=R0, readonly=True)
            v = param.Number(default=1)
        class Q(P):
            pass
        self.classes = {'P': P, 'Q': Q}
        if deep:
            class QQ(Q):
                pass
            self.classes['QQ'] = QQ
        self.inst = {}
        self.held = {}
        self.nfresh = 0
        self.stack = []                # open blocks: (opener label, context manager, {param: opener had no copy})
        self.born = {}                 # subject (instance label / class name) -> [(kind, frozenset(cls-params), frozenset(own-params))]
        self.counter = {}
        self.reported = set()          # (clause, what, target, param): one report per history
        for lab, K in (('a', P), ('b', P), ('q', Q)):
            self.add_instance(lab, K())

    # ---- the model ------------------------------------------------------------------------------
    def fresh(self):
        self.nfresh += 1
        return Obj('f%d' % self.nfresh)

    def snap(self, x):
        return {'c': x.c, 'n': x.n, 'name': x.name, 'r': x.r}

    def add_instance(self, lab, x):
        self.inst[lab] = x
        self.held[lab] = self.snap(x)

    def label(self, prefix):
        self.counter[prefix] = self.counter.get(prefix, 0) + 1
        return '%s%d' % (prefix, self.counter[prefix])

    def mark(self, subject, kind):
        """``subject`` came into being by ``kind`` right now: remember it when a block is open"""
        if self.stack:
            cls_p = set(); own_p = set()
            for _lab, _cm, nocopy in self.stack:
                for p, no in nocopy.items():
                    (cls_p if no else own_p).add(p)
            self.born.setdefault(subject, []).append((kind, frozenset(cls_p), frozenset(own_p)))

    def born_tag(self, subjects, p):
        """the derivations (made while a block was open) of the NEAREST subject that has any: the instance itself,
        else its class, else the next class of the MRO"""
        for s in subjects:
            ds = self.born.get(s, ())
            if ds:
                # a deepcopy made in a block is named as such (whatever its original carried); otherwise the FIRST
                # derivation counts: it brought the thing into being, later ones found it there
                dc = [d for d in ds if d[0] == 'deepcopy']
                kind, cls_p, own_p = dc[0] if dc else ds[0]
                return 'in-block:%s:%s' % (kind, 'cls' if p in cls_p else 'own')
        return 'outside'

    def report(self, clause, what, target, p, born, detail):
        k = (clause, what, target, p)
        if k not in self.reported:
            self.reported.add(k)
            self.fail.append((clause, what, target, p, born, detail))

    def subjects_of(self, lab, K):
        return [lab] + [M.__name__ for M in K.__mro__ if M.__name__ in self.classes]

    # ---- non-intrusive invariants (after every step) -----------------------------------------------
    def check_held(self):
        for lab, x in self.inst.items():
            for p, v in self.snap(x).items():
                h = self.held[lab][p]
                if v is not h and not (p == 'name' and v == h):
                    self.report(C_RO if p == 'r' else C_HELD, 'held-object-changed', lab, p,
                                      self.born_tag(self.subjects_of(lab, type(x)), p), '%s.%s: %r -> %r' % (lab, p, h, v))
                    self.held[lab][p] = v
        for name, K in self.classes.items():
            if K.r is not self.R0:
                self.report(C_RO, 'class-value-changed', 'class:' + name, 'r', self.born_tag([name], 'r'),
                                  '%s.r is %r' % (name, K.r))

    def check_flags(self):
        if self.stack:
            return
        for name, K in self.classes.items():
            for p, (const, ro) in DECL.items():
                P_ = K.__dict__.get(p)
                if not isinstance(P_, param.Parameter):
                    continue
                for flag, want in (('constant', const), ('readonly', ro)):
                    got = getattr(P_, flag)
                    if got is not want:
                        self.report(C_FLAGS, 'flag-wrong:class-level:%s=%s' % (flag, got), 'class:' + name, p,
                                          self.born_tag(self.subjects_of(name, K)[1:], p),
                                          "%s.__dict__[%r].%s is %r, declared %r" % (name, p, flag, got, want))
        for lab, x in self.inst.items():
            for p, P_ in x._param__private.params.items():
                if p not in DECL:
                    continue
                const, ro = DECL[p]
                for flag, want in (('constant', const), ('readonly', ro)):
                    got = getattr(P_, flag)
                    if got is not want:
                        self.report(C_FLAGS, 'flag-wrong:instance-level:%s=%s' % (flag, got), lab, p,
                                          self.born_tag(self.subjects_of(lab, type(x)), p),
                                          "instance-level Parameter %r of %s has %s=%r, declared %r" % (p, lab, flag, got, want))

    # ---- probes: every rebinding outside the blocks is refused ------------------------------------------
    def probe_instance(self, lab, x, clause=C_LOCK, ro_clause=C_RO):
        assert not self.stack
        subj = self.subjects_of(lab, type(x))
        for p in CONSTS + ('r',):
            for route in ('setattr', 'update'):
                new = {'n': 7.5 + self.nfresh, 'name': 'zzz%d' % self.nfresh}.get(p) or self.fresh()
                self.nfresh += 1
                before = getattr(x, p)
                if route == 'setattr':
                    exc = outcome(lambda: setattr(x, p, new))
                else:
                    exc = outcome(lambda: x.param.update(**{p: new}))
                after = getattr(x, p)
                cl = ro_clause if p == 'r' else clause
                if exc != 'TypeError':
                    self.report(cl, ('not-rejected:' if exc is None else 'wrong-exception:%s:' % exc) + route, lab, p,
                                      self.born_tag(subj, p), '%s.%s = %r (%s): %s; now %r' % (
                                          lab, p, new, route, 'accepted' if exc is None else 'raised ' + exc, after))
                elif after is not before:
                    self.report(cl, 'refused-but-changed:' + route, lab, p, self.born_tag(subj, p),
                                      '%s.%s: %r -> %r' % (lab, p, before, after))
                if lab in self.held:
                    self.held[lab][p] = after
                if exc is None:
                    break                                  # (one report per parameter and instance)

    def probe_all(self, clause=C_LOCK, ro_clause=C_RO):
        self.check_flags()
        for lab, x in list(self.inst.items()):
            self.probe_instance(lab, x, clause, ro_clause)
        for name, K in list(self.classes.items()):
            self.probe_instance('fresh:' + name, K(), clause, ro_clause)

    # ---- tokens --------------------------------------------------------------------------------------------
    def step(self, tok):
        t = tok.split(':')
        kind = t[0]
        if kind == 'E':
            x = self.inst[t[1]]
            have = set(x._param__private.params)           # (observed for the witness tag only)
            cm = edit_constant(x)
            cm.__enter__()
            self.stack.append((t[1], cm, {p: p not in have for p in CONSTS + ('r',)}))
        elif kind in ('X', 'XR', 'XO'):
            lab, cm, _ = self.stack.pop(0 if kind == 'XO' else -1)
            if kind == 'XR':
                e = RuntimeError('boom')                   # what the with statement does when the body raises
                try:
                    swallowed = cm.__exit__(RuntimeError, e, e.__traceback__)
                except RuntimeError:
                    swallowed = False
                if swallowed:
                    self.report(C_FLAGS, 'exception-swallowed', lab, '-', 'outside', 'edit_constant swallowed the exception of its body')
            else:
                cm.__exit__(None, None, None)
        elif kind == 'K':
            x = self.inst[t[1]]
            if t[2] == 'item': x.param['c']
            elif t[2] == 'objs': x.param.objects()
            elif t[2] == 'watch': x.param.watch(lambda *ev: None, ['c', 'n'])
            elif t[2] == 'attr': x.param.c
            else: raise KeyError(tok)
            self.mark(t[1], 'instance-copy')
        elif kind in ('S', 'SI', 'SU'):
            K = self.classes[t[1]]
            if kind == 'S': outcome(lambda: setattr(K, 'c', self.fresh()))
            elif kind == 'SI': outcome(lambda: setattr(K, 'c', K.c))
            else: outcome(lambda: K.param.update(c=self.fresh()))
            if t[1] != 'P':                                # (P declares c itself: nothing new comes into being)
                self.mark(t[1], 'class-copy')
        elif kind == 'RI':
            K = self.classes[t[1]]
            exc = outcome(lambda: setattr(K, 'r', K.r))
            if exc != 'TypeError':
                self.report(C_RO, 'not-rejected:class-level-identical' if exc is None else 'wrong-exception:%s:class-level-identical' % exc,
                                  'class:' + t[1], 'r', self.born_tag([t[1]], 'r'), '%s.r = %s.r: %s' % (t[1], t[1], exc or 'accepted'))
            if t[1] != 'P':
                self.mark(t[1], 'class-copy')
        elif kind == 'D':
            P, Q = self.classes['P'], self.classes['Q']
            if t[1] in self.classes:
                return
            if t[1] == 'R':
                class R(P): pass
                K = R
            elif t[1] == 'S':
                X = self.fresh()
                class S(P):
                    c = param.Parameter(default=X)      # ``constant`` is inherited from P.c
                K = S
            elif t[1] == 'T':
                class T(Q): pass
                K = T
            else: raise KeyError(tok)
            self.classes[t[1]] = K
            self.mark(t[1], 'class-def')
        elif kind == 'N':
            lab = self.label('n' + t[1])
            self.add_instance(lab, self.classes[t[1]]())
            self.mark(lab, 'instance')
        elif kind == 'C':
            lab = self.label('dc' + t[1])
            self.add_instance(lab, copy.deepcopy(self.inst[t[1]]))
            self.born[lab] = list(self.born.get(t[1], ()))      # whatever the original carries, the copy carries
            self.mark(lab, 'deepcopy')
        elif kind == 'W':
            x = self.inst[t[1]]
            new = self.fresh()
            before = x.c
            exc = outcome(lambda: setattr(x, 'c', new))
            if self.stack:
                if x.c is new:
                    self.held[t[1]]['c'] = new            # permitted inside a block
                self.mark(t[1], 'assigned')
            else:
                if exc != 'TypeError':
                    self.report(C_LOCK, ('not-rejected:' if exc is None else 'wrong-exception:%s:' % exc) + 'setattr', t[1], 'c',
                                      self.born_tag(self.subjects_of(t[1], type(x)), 'c'),
                                      '%s.c = %r outside every block: %s' % (t[1], new, exc or 'accepted'))
                    self.held[t[1]]['c'] = x.c
        else:
            raise KeyError(tok)
        self.check_held()
        self.check_flags()


def valid_word(word):
    depth = 0
    defined = set()
    for tok in word:
        if tok[0] == 'E':
            depth += 1
        elif tok in ('X', 'XR', 'XO'):
            if depth == 0:
                return False
            if tok == 'XO' and depth < 2:
                return False                               # (the oldest block is the innermost one: same as X)
            depth -= 1
        elif tok[0] == 'D':
            if tok in defined:
                return False
            defined.add(tok)
    return True


def run_word(word):
    """-> list of (step, clause, what, target, param, born, detail); step len(word)+1 = closing the blocks still
    open and the probes"""
    w = MWorld()
    out = []
    for i, tok in enumerate(word):
        w.step(tok)
        out += [(i + 1,) + f for f in w.fail]; w.fail = []
    while w.stack:
        w.step('X')
    w.probe_all()
    out += [(len(word) + 1,) + f for f in w.fail]
    return out


# ---- family RC ---------------------------------------------------------------------------------------------
RC_CLASSES = ('P', 'Q', 'QQ')
RC_PARAMS = ('r', 'c', 'n')
RC_ROUTES = ('setattr', 'update')
RC_VALUES = ('identical', 'equal', 'different')
RC_PRES = ('none', 'inst', 'copy', 'edited', 'in-edit', 'parent-set')

def run_rc(K_name, p, route, value, pre):
    w = MWorld(deep=True)
    K = w.classes[K_name]
    out = []
    x = None
    if pre in ('inst', 'copy', 'edited', 'in-edit'):
        x = K()
        w.add_instance('x', x)
    if pre == 'copy':
        x.param.objects()
    if pre == 'edited':
        with edit_constant(x):
            x.c = w.fresh()
        w.held['x']['c'] = x.c
    if pre == 'parent-set':
        parent = K.__mro__[1] if K_name != 'P' else K
        outcome(lambda: setattr(parent, 'c', w.fresh()))
        outcome(lambda: setattr(parent, 'n', 3.25))
    w.check_held(); w.check_flags()
    out += [(0,) + f for f in w.fail]; w.fail = []
    cur = getattr(K, p)
    if value == 'identical': new = cur
    elif value == 'equal': new = Obj(cur.label) if isinstance(cur, Obj) else float(repr(cur))
    else: new = 42.5 if p == 'n' else w.fresh()
    r_before = {name: M.r for name, M in w.classes.items()}
    def assign():
        if route == 'setattr': setattr(K, p, new)
        else: K.param.update(**{p: new})
    if pre == 'in-edit':
        w.step('E:x')
        exc = outcome(assign)
        if K_name != 'P':
            w.mark(K_name, 'class-copy')       # (a class that merely inherits p may get its own Parameter now)
        w.step('X')
    else:
        exc = outcome(assign)
    if p == 'r' and exc != 'TypeError':
        out.append((1, C_RC_RO, ('not-rejected:' if exc is None else 'wrong-exception:%s:' % exc) + value, 'class:' + K_name, 'r',
                    'outside', '%s.r <- %s object by %s: %s' % (K_name, value, route, exc or 'accepted')))
    for name, M in w.classes.items():
        if M.r is not r_before[name]:
            out.append((1, C_RC_VAL, 'class-value-changed', 'class:' + name, 'r', 'outside', '%s.r: %r -> %r' % (name, r_before[name], M.r)))
    w.check_held()
    w.probe_all()
    out += [(2, C_RC_VAL if f[0] in (C_HELD, C_RO) and f[1].endswith('-changed') else C_RC_LOCK) + f[1:] for f in w.fail]
    w.fail = []
    return out
'''

# ---------------------------------------------------------------------------------------------------------
# enumeration
# ---------------------------------------------------------------------------------------------------------
ENTER = ["E:a", "E:b", "E:q"]
EXITS = ["X", "XR", "XO"]
COPIES = ["K:a:item", "K:a:objs", "K:a:watch", "K:a:attr", "K:b:item", "K:b:objs", "K:b:watch", "K:b:attr",
          "K:q:item", "K:q:objs"]
CLASS_SETS = ["S:P", "S:Q", "SI:Q", "SU:Q", "RI:Q"]
DEFS = ["D:R", "D:S", "D:T"]
NEWS = ["N:P", "N:Q", "C:a", "C:b"]
ATTEMPTS = ["W:a", "W:b", "W:q"]
TOKENS = ENTER + EXITS + COPIES + CLASS_SETS + DEFS + NEWS + ATTEMPTS
PRE = ["K:a:objs", "K:a:item", "K:b:item"]          # an instance-level copy that exists before the first block

_H = None


def harness():
    global _H
    if _H is None:
        ns = {"__name__": "c14_multi_harness"}
        exec(compile(HARNESS_SRC, "<c14_multi harness>", "exec"), ns)
        _H = ns
    return _H


def _pick(seed, word, mod):
    return zlib.crc32(("%d|%s" % (seed, ",".join(word))).encode()) % mod == 0


def enumerate_words(tier, seed=0):
    """guided product: every word of length <= L; longer words open a block first (after an optional copy made
    before), so that the added positions are spent inside / after a block"""
    valid = harness()["valid_word"]
    out = []
    if tier == "quick":
        for n in (1, 2):
            out += [w for w in itertools.product(TOKENS, repeat=n)]
        for e in ENTER:
            out += [(e,) + w for w in itertools.product(TOKENS, repeat=2)]
        for pre in PRE:
            for e in ENTER:
                out += [(pre, e, t) for t in TOKENS]
                out += [(pre, e) + w for w in itertools.product(TOKENS, repeat=2) if _pick(seed, (pre, e) + w, 4)]
    else:
        for n in (1, 2, 3):
            out += [w for w in itertools.product(TOKENS, repeat=n)]
        for e in ENTER:
            out += [(e,) + w for w in itertools.product(TOKENS, repeat=3) if _pick(seed, (e,) + w, 3)]
        for pre in PRE:
            for e in ENTER:
                out += [(pre, e) + w for w in itertools.product(TOKENS, repeat=2)]
    seen = set()
    res = []
    for w in out:
        if w not in seen and valid(w):
            seen.add(w)
            res.append(w)
    return res


def enumerate_rc(tier, seed=0):
    H = harness()
    return list(itertools.product(H["RC_CLASSES"], H["RC_PARAMS"], H["RC_ROUTES"], H["RC_VALUES"], H["RC_PRES"]))


def run_chunk(args):
    start, step, tier, seed = args
    import logging
    import warnings
    warnings.simplefilter("ignore")
    logging.getLogger("param").setLevel(logging.CRITICAL + 1)
    H = harness()
    ws = enumerate_words(tier, seed)
    rc = enumerate_rc(tier, seed)
    out = []
    for i in range(start, len(ws), step):
        out.append(("MI", i, H["run_word"](ws[i])))
    for i in range(start, len(rc), step):
        out.append(("RC", i, H["run_rc"](*rc[i])))
    return out


# ---------------------------------------------------------------------------------------------------------
# replays
# ---------------------------------------------------------------------------------------------------------
def replay_mi(word, clause, witness, what, target, p):
    head = _header(prop="C14", name="replay_c14_multi.py", clause=clause, witness=witness)
    return head + HARNESS_SRC + '''
word = %r
fails = run_word(word)
print('history:', ' '.join(word), ' (then: leave the blocks still open, probe every instance)')
for step, clause, what, target, p, born, detail in fails:
    print('   step %%d (%%s): %%s  %%s target=%%s param=%%s born=%%s -- %%s' %% (
        step, (['-'] + list(word) + ['<close+probe>'])[step], clause, what, target, p, born, detail))
hit = [f for f in fails if f[1] == %r and f[2] == %r and f[3] == %r and f[4] == %r]
if hit:
    print('REPRODUCED:', hit[0][1], hit[0][2], '--', hit[0][6]); sys.exit(1)
print('NOT-REPRODUCED'); sys.exit(0)
''' % (list(word), clause, what, target, p)


def replay_rc(case, clause, witness, what, target, p):
    head = _header(prop="C14", name="replay_c14_reassign.py", clause=clause, witness=witness)
    return head + HARNESS_SRC + '''
case = %r
fails = run_rc(*case)
print('class-level re-assignment: class=%%s param=%%s route=%%s value=%%s before=%%s' %% case)
for step, clause, what, target, p, born, detail in fails:
    print('   step %%d: %%s  %%s target=%%s param=%%s -- %%s' %% (step, clause, what, target, p, detail))
hit = [f for f in fails if f[1] == %r and f[2] == %r and f[3] == %r and f[4] == %r]
if hit:
    print('REPRODUCED:', hit[0][1], hit[0][2], '--', hit[0][6]); sys.exit(1)
print('NOT-REPRODUCED'); sys.exit(0)
''' % (tuple(case), clause, what, target, p)


# ---------------------------------------------------------------------------------------------------------
# entry point (called by bounded/c14.py)
# ---------------------------------------------------------------------------------------------------------
RULE = ("family MI: one case = a word over enter / leave (normally, with an exception, oldest block first) "
        "edit_constant on three instances a, b : P, q : Q(P), instance-copy creation (param[..], objects(), watch, "
        "param.c), class-level sets on P / Q (different / identical object, update, read-only), class definitions "
        "(plain subclass, redeclared parameter), new instances, deepcopy, rebinding attempts; flags and held objects "
        "after every step, every rebinding on every instance (also of a fresh instance of every class) once all "
        "blocks are left.  family RC: class-level re-assignment of a read-only / constant parameter on declaring "
        "class / subclass / sub-subclass, identical / equal / different object, setattr / update, six pre-histories")


def bound_text(tier, n_mi, n_rc):
    if tier == "quick":
        s = ("MI: every valid word of length <= 2 over %d tokens, every E:x + 2 tokens, every copy-before + E:x + 1 "
             "token, one in four (seed) of copy-before + E:x + 2 tokens" % len(TOKENS))
    else:
        s = ("MI: every valid word of length <= 3 over %d tokens, one in three (seed) of E:x + 3 tokens, every "
             "copy-before + E:x + 2 tokens" % len(TOKENS))
    return "%s = %d words; RC: full product = %d cases" % (s, n_mi, n_rc)


def _norm_target(target):
    """instance labels created by the history carry a running number: nP1 -> nP"""
    return target.rstrip("0123456789") if target[:1] in "nd" else target


def extend(B, tier, seed, pmap):
    """run both families and record cases / violations in the Bounded recorder of C14"""
    ws = enumerate_words(tier, seed)
    rc = enumerate_rc(tier, seed)
    nchunks = 64
    res = {}
    for out in pmap(run_chunk, [(i, nchunks, tier, seed) for i in range(nchunks)]):
        for fam, i, fails in out:
            res[(fam, i)] = fails
    groups = {}
    nsteps = 0
    for i, w in enumerate(ws):
        B.case(key="MI " + ",".join(w))
        nsteps += len(w) + 1
        if i % 1499 == 11:
            B.sample({"family": "MI", "word": list(w), "failures": [f[1:6] for f in res[("MI", i)]]})
        for step, clause, what, target, p, born, detail in res[("MI", i)]:
            pk = "name" if p == "name" else "readonly" if p == "r" else "constant" if p in ("c", "n") else p
            g = ("MI", clause, what.split(":")[0], pk, born)
            cand = (len(w), i)
            cur = groups.get(g)
            if cur is None or cand < cur[0]:
                groups[g] = (cand, w, (step, clause, what, target, p, born, detail), (cur[3] if cur else 0) + 1)
            else:
                groups[g] = cur[:3] + (cur[3] + 1,)
    for i, case in enumerate(rc):
        B.case(key="RC " + ",".join(case))
        if i % 199 == 5:
            B.sample({"family": "RC", "case": list(case), "failures": [f[1:6] for f in res[("RC", i)]]})
        for step, clause, what, target, p, born, detail in res[("RC", i)]:
            pk = "name" if p == "name" else "readonly" if p == "r" else "constant"
            g = ("RC", clause, what.split(":")[0], pk, case[0] == "P", case[3] if clause == C_RC_RO else "-", born)
            cand = (i,)
            cur = groups.get(g)
            if cur is None or cand < cur[0]:
                groups[g] = (cand, case, (step, clause, what, target, p, born, detail), (cur[3] if cur else 0) + 1)
            else:
                groups[g] = cur[:3] + (cur[3] + 1,)
    for cl in (C_LOCK, C_FLAGS, C_HELD, C_RO):
        B.checked(cl, nsteps)
    for cl in (C_RC_RO, C_RC_VAL, C_RC_LOCK):
        B.checked(cl, len(rc))
    for g in sorted(groups, key=repr):
        cand, case, (step, clause, what, target, p, born, detail), count = groups[g]
        if g[0] == "MI":
            witness = "family=MI what=%s param=%s target=%s born=%s hist=[%s]" % (
                what, p, _norm_target(target), born, ",".join(case))
            rp = replay_mi(case, clause, witness, what, target, p)
        else:
            witness = "family=RC what=%s param=%s target=%s born=%s class=%s route=%s value=%s before=%s" % (
                what, p, target, born, case[0], case[2], case[3], case[4])
            rp = replay_rc(case, clause, witness, what, target, p)
        B.violation(clause=clause, witness=witness,
                    detail="%d occurrences; shortest history shown. %s" % (count, detail), replay=rp)
        B._seen[(clause, witness)]["count"] = count
    B.note("multi-instance families (bounded/c14_multi.py): " + RULE + ".  Bound: " + bound_text(tier, len(ws), len(rc)))
    return len(ws), len(rc)
