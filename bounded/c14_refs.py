"""Helper of the bounded stand-in layer of C14: REFERENCE-valued assignments to constant / read-only parameters.

``bounded/c14.py`` assigns plain objects.  A parameter declared ``allow_refs=True`` also accepts *references*:
the object assigned is not the value but something the value is taken from -- at once (a Parameter of another
object, ``param.bind``, a reactive expression, a ``depends`` function) or later (a coroutine function, an async
generator function; without a running event loop they are driven to completion inside the assignment, with a
running loop by a task).  The statement does not care how the value arrives: after construction the object held
by a ``constant=True`` parameter changes only inside ``edit_constant``, a ``readonly=True`` parameter cannot be
assigned at all, every other attempt raises TypeError and leaves the value untouched.

A case (fresh classes ``Src``; ``A`` with ``c`` constant, ``r`` read-only, ``v`` ordinary -- all allow_refs;
``B(A)``; a bystander instance) =
    constructor variant  x  state before the attempt {nothing, instance-level Parameter copies exist, the ordinary
    parameter ``v`` is linked to ``src.param.y``}
  x target {c, r}  x  route {o.t = ref, update(t=ref), update(v=.., t=ref), inside batch_call_watchers, class-level}
  x reference kind {param, bind, rx, rx-pipe, depends-function | coroutine function, async generator (1 / 2 yields),
                    bind(coroutine function, src.param.x), bind(async generator function, src.param.x)}
  x value delivered {a different object, the identical object already held}
  x {no running loop: the coroutine returns at once / after ``await asyncio.sleep(0)``;
     running loop: returns at once / awaits a hand-made future that the driver completes later}
  x follow-up events, every one followed by an observation (and, with a loop, by a run until idle):
      done   the pending futures are completed (in order)
      srcx   ``src.x = <new object>`` on the source of every reference assigned (a link installed by the attempt would
             carry it into the target; a bind(<async>, src.param.x) reference is evaluated again)
      srcy   ``src.y = <new object>``  (re-runs every reference of the object through the link of ``v``)
      again  a plain ``o.t = <other object>``: the guard must still be there
    in the orders (done, srcx, srcy, again) and (srcx, done, srcy, again); thorough also a SECOND reference-valued
    attempt on the same target before the follow-ups.

Oracle (from the statement; identity of the held objects, exception class -- the library's own result is never used):
  C14/refs/never-rebound      at every observation point ``o.c`` / ``o.r`` (and the bystander's, and the class value of
                              ``r``) is the identical object as after construction -- no history here contains an
                              ``edit_constant`` block
  C14/refs/raises-TypeError   read-only target: every attempt; constant target: every attempt that delivers a different
                              object -- raises TypeError: at the assignment, or, where the value is only delivered later
                              by a task (asynchronous reference under a running loop), in that task at the latest when it
                              delivers (lenient reading: seen by the loop's exception handler / the task's done-callback;
                              nothing is demanded of a pending reference that is superseded before it delivers);
                              another exception class is ``wrong-exception``.  An attempt delivering the identical object
                              may succeed or be refused.
  C14/refs/flags              at the end every constant / readonly flag (class- and instance-level Parameters) is as declared
"""
import itertools
import logging
import warnings
import zlib
from concurrent.futures import ProcessPoolExecutor

from bounded._api import REPLAY_HEADER

SYNC_KINDS = ("param", "bind", "rx", "rxpipe", "depfn")
ASYNC_KINDS = ("coro", "agen", "agen2", "bindcoro", "bindagen")
VALS = ("diff", "same")
ROUTES = ("set", "upd", "upd2", "batch")
CTORS = ("A()", "A(c=X)", "B()", "B(c=X)")
PRES = ("none", "read", "linkv")
FOLLOWS = (("done", "srcx", "srcy", "again"), ("srcx", "done", "srcy", "again"))

C_REBOUND = "C14/refs/never-rebound"
C_RAISES = "C14/refs/raises-TypeError"
C_FLAGS = "C14/refs/flags"

HARNESS_SRC = r'''
import asyncio, gc, warnings, logging
warnings.simplefilter('ignore'); logging.getLogger('param').setLevel(100)
import param
from param.parameterized import batch_call_watchers

class Obj:
    """value object; only its identity matters"""
    def __init__(self, label): self.label = label
    def __repr__(self): return 'Obj(%r)' % self.label

ASYNC_KINDS = ('coro', 'agen', 'agen2', 'bindcoro', 'bindagen')

class World:
    def __init__(self, ctor, loop):
        self.loop = loop                    # the running loop (None: plain synchronous code)
        self.fail = []                      # (clause, what, detail)
        self.errors = []                    # exception class names raised inside tasks (deferred delivery)
        self.futs = []                      # hand-made futures awaited by the asynchronous references
        self.n = 0
        C0, R0, V0 = Obj('c0'), Obj('r0'), Obj('v0')
        class Src(param.Parameterized):
            x = param.Parameter(default=None)
            y = param.Parameter(default=None)
        class A(param.Parameterized):
            c = param.Parameter(default=C0, constant=True, allow_refs=True)
            r = param.Parameter(default=R0, readonly=True, allow_refs=True)
            v = param.Parameter(default=V0, allow_refs=True)
        class B(A):
            pass
        self.Src, self.A, self.B, self.R0 = Src, A, B, R0
        self.src = Src(x=Obj('x0'), y=Obj('y0'))
        self.srcs = []                      # the sources of the references assigned by the attempts
        self.e = A()                        # bystander
        X = Obj('ctor')
        self.o = {'A()': lambda: A(), 'A(c=X)': lambda: A(c=X), 'B()': lambda: B(), 'B(c=X)': lambda: B(c=X)}[ctor]()
        if 'c=X' in ctor and self.o.c is not X:
            self.fail.append(('C14/refs/never-rebound', 'constructor-argument-not-installed', repr(self.o.c)))
        self.held = {'c': self.o.c, 'r': self.o.r}
        self.held_e = {'c': self.e.c, 'r': self.e.r}

    def fresh(self, tag):
        self.n += 1
        return Obj('%s%d' % (tag, self.n))

    # ---- observation ---------------------------------------------------------------------------------------
    def observe(self, when):
        o = self.o
        for k in ('c', 'r'):
            v = getattr(o, k)
            if v is not self.held[k]:
                self.fail.append(('C14/refs/never-rebound', 'rebound:' + k,
                                  '%s: o.%s was %r, is %r (no edit_constant block anywhere)' % (when, k, self.held[k], v)))
                self.held[k] = v
            v = getattr(self.e, k)
            if v is not self.held_e[k]:
                self.fail.append(('C14/refs/never-rebound', 'bystander-rebound:' + k,
                                  '%s: bystander.%s was %r, is %r' % (when, k, self.held_e[k], v)))
                self.held_e[k] = v
        for K in (self.A, self.B):
            if K.r is not self.R0:
                self.fail.append(('C14/refs/never-rebound', 'class-value-changed:r', '%s: %s.r is %r' % (when, K.__name__, K.r)))
                self.R0 = K.r

    def check_flags(self):
        decl = {'c': (True, False), 'r': (True, True), 'v': (False, False), 'name': (True, False)}
        for K in (self.A, self.B):
            for p, (const, ro) in decl.items():
                P = K.param[p]
                if P.constant is not const or P.readonly is not ro:
                    self.fail.append(('C14/refs/flags', 'flag-wrong:class-level:' + p,
                                      '%s.param[%r]: constant=%r readonly=%r' % (K.__name__, p, P.constant, P.readonly)))
        for x, who in ((self.o, 'instance'), (self.e, 'other-instance')):
            for p, P in x._param__private.params.items():
                const, ro = decl.get(p, (P.constant, P.readonly))
                if P.constant is not const or P.readonly is not ro:
                    self.fail.append(('C14/refs/flags', 'flag-wrong:%s-level:%s' % (who, p),
                                      'constant=%r readonly=%r' % (P.constant, P.readonly)))

    # ---- references ------------------------------------------------------------------------------------------
    def make_ref(self, kind, val, target, mode):
        """-> (reference, delivers): ``delivers`` lists what the reference delivers, '=' for the identical object
        already held by the target, '!' for a different object"""
        held = self.held[target]
        D = self.fresh('d')
        first = held if val == 'same' else D
        # every attempt has a source object of its own, which holds the object the reference resolves to
        src = self.Src(x=first)
        self.srcs.append(src)
        w = self
        async def wait():
            if mode == 'sleep':
                await asyncio.sleep(0)
            elif mode == 'fut':
                f = w.loop.create_future(); w.futs.append(f)
                await f
        if kind == 'param':
            ref = src.param.x
        elif kind == 'bind':
            ref = param.bind(lambda x: x, src.param.x)
        elif kind == 'rx':
            ref = src.param.x.rx()
        elif kind == 'rxpipe':
            ref = src.param.x.rx().rx.pipe(lambda x: x)
        elif kind == 'depfn':
            @param.depends(src.param.x)
            def ref(x):
                return x
        elif kind == 'coro':
            async def ref():
                await wait()
                return first
        elif kind == 'agen':
            async def ref():
                await wait()
                yield first
        elif kind == 'agen2':
            second = held if val == 'same' else self.fresh('d')
            async def ref():
                await wait()
                yield first
                await wait()
                yield second
        elif kind == 'bindcoro':
            async def fn(x):
                await wait()
                return x
            ref = param.bind(fn, src.param.x)
        elif kind == 'bindagen':
            async def fn(x):
                await wait()
                yield x
            ref = param.bind(fn, src.param.x)
        else:
            raise KeyError(kind)
        return ref, ('=' if val == 'same' else '!')

    # ---- one attempt ---------------------------------------------------------------------------------------------
    def attempt(self, target, route, kind, val, mode):
        o = self.o
        ref, delivers = self.make_ref(kind, val, target, mode)
        if route == 'set':
            f = lambda: setattr(o, target, ref)
        elif route == 'upd':
            f = lambda: o.param.update(**{target: ref})
        elif route == 'upd2':
            f = lambda: o.param.update(v=self.fresh('v'), **{target: ref})
        elif route == 'batch':
            def f():
                with batch_call_watchers(o):
                    setattr(o, target, ref)
        elif route == 'cls':
            f = lambda: setattr(type(o), target, ref)
        else:
            raise KeyError(route)
        exc = None
        try:
            f()
        except Exception as e:
            exc = e
        demanded = (target == 'r') or (route != 'cls' and delivers == '!')
        if route == 'cls' and target == 'c':
            demanded = False                # a class-level set of a constant is permitted (existing instances keep theirs)
        deferred = kind in ASYNC_KINDS and self.loop is not None and route != 'cls'
        rec = {'target': target, 'kind': kind, 'demanded': demanded, 'deferred': deferred, 'raised': type(exc).__name__ if exc else None,
               'nerr': len(self.errors), 'route': route}
        if exc is not None and not isinstance(exc, TypeError):
            self.fail.append(('C14/refs/raises-TypeError', 'wrong-exception',
                              'the attempt raised %s: %s' % (type(exc).__name__, exc)))
        elif exc is None and demanded and not deferred:
            self.fail.append(('C14/refs/raises-TypeError', 'not-rejected', 'the attempt raised nothing'))
        return rec

    def settle_deferred(self, recs):
        """end of the case: an attempt whose value was delivered later by a task must have raised TypeError there"""
        for rec in recs:
            if rec['demanded'] and rec['deferred'] and rec['raised'] is None:
                later = self.errors[rec['nerr']:]
                if 'TypeError' not in later:
                    self.fail.append(('C14/refs/raises-TypeError', 'not-rejected',
                                      'the attempt raised nothing, and no task raised TypeError when the value was '
                                      'delivered (exceptions seen in tasks afterwards: %r)' % (later,)))

def run_case(cfg):
    """cfg = (ctor, pre, attempts, loop, follow); attempts = ((target, route, kind, val, mode), ...)
    -> list of (clause, what, detail)"""
    ctor, pre, attempts, use_loop, follow = cfg
    out = {}

    def script(w, tick):
        """generator: yields wherever the driver lets the loop run until idle"""
        o = w.o
        w.observe('after construction')
        if pre == 'read':
            o.param['c']; o.param['r']; o.param['v']
        elif pre == 'linkv':
            o.v = w.src.param.y
        recs = []
        for i, (target, route, kind, val, mode) in enumerate(attempts):
            if recs and recs[-1]['deferred'] and attempts[i - 1][4] == 'fut':
                recs[-1]['demanded'] = False    # superseded by this attempt before its value is delivered: nothing to refuse
            recs.append(w.attempt(target, route, kind, val, mode))
            w.observe('right after attempt %d' % (i + 1))
            yield
            w.observe('attempt %d, loop idle' % (i + 1))
        for step in follow:
            if step == 'done':
                k = 0
                while k < len(w.futs):          # (a completed future can make the reference await the next one)
                    f = w.futs[k]; k += 1
                    if not f.done():
                        f.set_result(None)
                    yield
                    w.observe('after completing future %d' % k)
            elif step in ('srcx', 'srcy'):
                for s in ([w.src] if step == 'srcy' else w.srcs):
                    try:
                        setattr(s, step[-1], w.fresh(step[-1]))
                    except Exception as e:
                        w.errors.append(type(e).__name__)       # (delivered synchronously: no running loop)
            elif step == 'again':
                target = attempts[-1][0]
                try:
                    setattr(o, target, w.fresh('plain'))
                except TypeError:
                    pass
                except Exception as e:
                    w.fail.append(('C14/refs/raises-TypeError', 'wrong-exception:plain-afterwards', '%s: %s' % (type(e).__name__, e)))
                else:
                    w.fail.append(('C14/refs/raises-TypeError', 'not-rejected:plain-afterwards',
                                   'a plain o.%s = <other object> after the reference-valued attempt raised nothing' % target))
            yield
            w.observe('after ' + step)
        out['recs'] = recs

    if not use_loop:
        w = World(ctor, None)
        for _ in script(w, None):
            pass
    else:
        loop = asyncio.new_event_loop()
        w = World(ctor, loop)
        def handler(l, ctx):
            e = ctx.get('exception')
            w.errors.append(type(e).__name__ if e is not None else 'message:' + str(ctx.get('message')))
        loop.set_exception_handler(handler)
        watched = set()
        def watch_tasks(me):
            for t in asyncio.all_tasks(loop):
                if t is not me and t not in watched:
                    watched.add(t)
                    def done(t):
                        if not t.cancelled() and t.exception() is not None:
                            w.errors.append(type(t.exception()).__name__)
                    t.add_done_callback(done)
        async def main():
            me = asyncio.current_task()
            for _ in script(w, None):
                for _i in range(40):
                    watch_tasks(me)
                    await asyncio.sleep(0)
                    if not loop._ready:
                        break
            pending = [x for x in asyncio.all_tasks(loop) if x is not me]
            for x in pending: x.cancel()
            if pending: await asyncio.gather(*pending, return_exceptions=True)
        try:
            loop.run_until_complete(main())
            loop.run_until_complete(loop.shutdown_asyncgens())
        finally:
            loop.close()
    w.observe('at the end')
    w.settle_deferred(out.get('recs', []))
    w.check_flags()
    return w.fail
'''

_HARNESS = None


def harness():
    global _HARNESS
    if _HARNESS is None:
        ns = {"__name__": "c14_refs_harness"}
        exec(compile(HARNESS_SRC, "<c14 refs harness>", "exec"), ns)
        _HARNESS = ns
    return _HARNESS


# ---------------------------------------------------------------------------------------------------------
def _modes(kind, loop):
    if kind in SYNC_KINDS:
        return ("-",)
    return ("imm", "fut") if loop else ("imm", "sleep")


def _follows(kind, loop):
    return FOLLOWS if (kind in ASYNC_KINDS and loop) else FOLLOWS[:1]


def enumerate_cases(tier, seed=0):
    """-> list of cfg tuples (see run_case)"""
    out = []
    thorough = tier == "thorough"
    ctors = CTORS if thorough else ("A()", "B(c=X)")
    for ctor in ctors:
        for pre in PRES:
            for target in ("c", "r"):
                for kind in SYNC_KINDS + ASYNC_KINDS:
                    for val in VALS:
                        for loop in (0, 1):
                            for mode in _modes(kind, loop):
                                for route in ROUTES:
                                    for follow in _follows(kind, loop):
                                        if not thorough and route in ("upd2", "batch"):
                                            # quick: the two composite routes for one in three combinations (seeded)
                                            h = zlib.crc32(("%d|%s|%s|%s|%s|%s|%s|%d|%s" % (
                                                seed, ctor, pre, target, kind, val, route, loop, mode)).encode())
                                            if h % 3:
                                                continue
                                        out.append((ctor, pre, ((target, route, kind, val, mode),), loop, follow))
    # class-level route: read-only must refuse, a constant may accept -- existing instances keep what they hold
    for ctor in ("A()", "B(c=X)"):
        for target in ("c", "r"):
            for kind in SYNC_KINDS[1:] + ASYNC_KINDS:       # (a Parameter object assigned at class level DECLARES a parameter)
                for loop in (0, 1):
                    out.append((ctor, "none", ((target, "cls", kind, "diff", _modes(kind, loop)[0]),), loop, FOLLOWS[0]))
    if thorough:
        # a second reference-valued attempt on the same target
        kv = [(k, v) for k in SYNC_KINDS + ASYNC_KINDS for v in VALS]
        for target in ("c", "r"):
            for (k1, v1), (k2, v2) in itertools.product(kv, repeat=2):
                for loop in (0, 1):
                    for pre in ("none", "linkv"):
                        m1, m2 = _modes(k1, loop)[-1], _modes(k2, loop)[-1]
                        for follow in FOLLOWS if loop else FOLLOWS[:1]:
                            out.append(("A()", pre, ((target, "set", k1, v1, m1), (target, "set", k2, v2, m2)), loop, follow))
    return out


def cfg_str(cfg):
    ctor, pre, attempts, loop, follow = cfg
    att = "+".join("%s:%s:%s:%s:%s" % a for a in attempts)
    return "attempt=%s loop=%d ctor=%s pre=%s follow=%s" % (att, loop, ctor, pre, ".".join(follow))


def _size(cfg):
    ctor, pre, attempts, loop, follow = cfg
    return (len(attempts), PRES.index(pre), CTORS.index(ctor), loop,
            tuple((ROUTES + ("cls",)).index(a[1]) for a in attempts),
            tuple((SYNC_KINDS + ASYNC_KINDS).index(a[2]) for a in attempts), FOLLOWS.index(follow), cfg_str(cfg))


def run_chunk(args):
    start, step, tier, seed = args
    warnings.simplefilter("ignore")
    logging.getLogger("param").setLevel(logging.CRITICAL + 1)
    H = harness()
    cases = enumerate_cases(tier, seed)
    out = []
    for i in range(start, len(cases), step):
        out.append((i, H["run_case"](cases[i])))
    return out


def _pmap(fn, jobs):
    try:
        ex = ProcessPoolExecutor(max_workers=16)
    except (OSError, AssertionError, ValueError):
        ex = None
    if ex is not None:
        try:
            with ex:
                return list(ex.map(fn, jobs))
        except (OSError, AssertionError) as e:
            if "daemonic" not in str(e) and not isinstance(e, OSError):
                raise
    return [fn(j) for j in jobs]


def make_replay(cfg, clause, what, witness):
    head = REPLAY_HEADER.format(prop="C14", name="replay_c14_refs.py", clause=clause, witness=witness)
    return head + HARNESS_SRC + '''
cfg = %r
# (constructor, state before, attempts ((target, route, reference kind, value delivered, how the coroutine waits), ..),
#  running event loop?, follow-up events)
fails = run_case(cfg)
print('case:', cfg)
for clause, what, detail in fails:
    print('   %%s  %%s  -- %%s' %% (clause, what, detail))
hit = [f for f in fails if f[0] == %r and f[1] == %r]
if hit:
    print('REPRODUCED:', hit[0][0], hit[0][1], '--', hit[0][2]); sys.exit(1)
print('NOT-REPRODUCED'); sys.exit(0)
''' % (cfg, clause, what)


def _refclass(kind):
    if kind in SYNC_KINDS:
        return "sync"
    return "async+deps" if kind.startswith("bind") else "async"


def extend(B, tier, seed):
    """run the family and record cases / clause evaluations / violations in the recorder of bounded/c14.py"""
    cases = enumerate_cases(tier, seed)
    nchunks = 48
    results = {}
    for out in _pmap(run_chunk, [(i, nchunks, tier, seed) for i in range(nchunks)]):
        for i, fails in out:
            results[i] = fails
    groups = {}
    nobs = 0
    for i, cfg in enumerate(cases):
        B.case(key="refs " + cfg_str(cfg))
        nobs += 3 + len(cfg[2]) * 2 + len(cfg[4])
        if i % 997 == 5:
            B.sample({"refs": cfg_str(cfg), "failures": [f[:2] for f in results[i]]})
        for clause, what, detail in results[i]:
            attempts, loop = cfg[2], cfg[3]
            target = attempts[-1][0]
            g = (clause, what, "target=%s" % ("constant" if target == "c" else "readonly"),
                 "refs=%s" % "+".join("%s/%s" % (_refclass(a[2]), a[3]) for a in attempts),
                 "level=%s" % ("class" if attempts[-1][1] == "cls" else "instance"), "loop=%d" % loop)
            cand = _size(cfg)
            cur = groups.get(g)
            if cur is None:
                groups[g] = [cand, cfg, detail, 1]
            else:
                cur[3] += 1
                if cand < cur[0]:
                    cur[0], cur[1], cur[2] = cand, cfg, detail
    B.checked(C_REBOUND, nobs)
    B.checked(C_RAISES, sum(len(c[2]) + 1 for c in cases))
    B.checked(C_FLAGS, len(cases))
    for g in sorted(groups):
        cand, cfg, detail, count = groups[g]
        clause, what = g[0], g[1]
        witness = "what=%s %s %s" % (what, " ".join(g[2:]), cfg_str(cfg))
        B.violation(clause=clause, witness=witness,
                    detail="%d cases in this class; smallest shown. %s" % (count, detail),
                    replay=make_replay(cfg, clause, what, witness))
        B._seen[(clause, witness)]["count"] = count
    B.rule += ("; REFS (bounded/c14_refs.py): one case = constructor variant x state before x reference-valued attempt on a "
               "constant / read-only allow_refs parameter (reference kind x delivered object x route x running loop or not) "
               "x follow-up events (completion of the futures, change of the source, re-run of all references, plain "
               "attempt), held objects compared by identity after every event")
    B.bound += ("; REFS: %d cases: %s constructor variants x 3 states before x 2 targets x 10 reference kinds (param, bind, "
                "rx, rx.pipe, depends function; coroutine function, async generator with 1 / 2 yields, bind(coroutine "
                "function), bind(async generator function)) x {different, identical object} x {no loop: returns at once / "
                "after sleep(0); running loop: at once / awaits a future completed later} x routes (set, update%s) x "
                "follow-up orders; class-level attempts%s"
                % (len(cases), "4" if tier == "thorough" else "2",
                   ", update with a second parameter, inside batch_call_watchers" if tier == "thorough"
                   else "; update with a second parameter / inside batch_call_watchers for a seeded third of the combinations",
                   "; two reference-valued attempts in a row (all 20 x 20 kind/value pairs)" if tier == "thorough" else ""))
    B.note("REFS: TypeError of an asynchronous reference assigned under a running loop is accepted when it is raised by the "
           "task that delivers the value (lenient reading of 'every other attempt raises TypeError'); not reached: references "
           "given to the CONSTRUCTOR of a constant parameter (the link made at construction follows its source by design), "
           "synchronous generator functions (run in a thread)")
    return len(cases)
