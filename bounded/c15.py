"""Bounded stand-in layer for C15 -- JSON serialization round-trips every serializable value.

Run with

    cd /verif && PYTHONPATH=/repo:/verif /venv/bin/python -m bounded.run C15 --tier quick --seed 0 --out /tmp/c15.json

What is enumerated (DESIGN.md section 7, C15; sensitivity classes of section 6):

part A  one-parameter classes: every type of the statement's quantifier (plus ObjectSelector and
        Magnitude, the serializable subclasses) x declaration variants (allow_None off/on) x the
        type's value lattice (extreme/sub-normal floats, ints beyond 2**53, bools, microseconds,
        midnight datetimes, boundary years 1/999/1000/9999, date-only and datetime ranges, empty
        containers, nested containers incl. a tuple nested inside a Tuple, None where allowed)
        x level {class, instance, instance serialised / class deserialises}
        x api {serialize_parameters/deserialize_parameters, serialize_value/deserialize_value};
part B  `subset=`: four 4-parameter classes x 2 value assignments x level x all 17 x 17 pairs
        (serialising subset, deserialising subset) incl. None, subsets also given as tuple/set;
part C  one class holding one parameter of every type, the lattice values rotated through it
        (the object-level loop over many parameters of mixed types);
part E  class hierarchies X, Y, Z in which a subclass or sibling RE-DECLARES the parameter name ``p``
        with another serializable Parameter type (Date<->CalendarDate, List<->Tuple,
        Range<->CalendarDateRange, DateRange<->CalendarDateRange, Number<->Integer, NumericTuple<->List,
        String<->CalendarDate, both directions) next to an inherited, not re-declared Tuple ``q``; shapes
        chain (Y re-declares, Z inherits from Y), fork (Y re-declares, sibling Z keeps the base type), mid
        (Z re-declares below an inheriting Y), sibs (siblings Y and Z declare different types, the base has
        none); one case = one ORDER in which the three classes are round-tripped in the same process
        (all 6 orders) x level per step {class, instance, inst->class} x api per step -- every step must
        round-trip, whatever was (de)serialized before it (fresh classes per case);
parts F, G, H  (bounded/c15_ext.py) F: Selector / ObjectSelector / ListSelector over a DICT of objects whose
        values are labels of other entries (all permutations of 2-4 labels, int / None / float values colliding
        with labels) x level x api, and under subset=; G: the SAME text deserialized three times with in-place
        mutation of the earlier results / of the objects rebuilt from them (every container-valued state, class
        and instance level, default equal to / different from the state, both apis, subset=); H: parameters of
        different types whose states serialize to the same text, round-tripped one after the other;
part I  (bounded/c15_hist.py) multi-step histories on an INSTANCE that never set the parameter: it acquires its
        own per-instance Parameter object (inst.param[name], inst.param.<name>, serialize_value, ...), the
        class-level value changes (P.x = new, P.param.update, ...), then the instance is serialised (with and
        without subset=, serialize_value): the text must carry the value the instance actually shows;
part J  (bounded/c15_seq.py) TEXT that looks like JSON -- a grid prefix x token x suffix over the JSON literals,
        NaN / Infinity / -Infinity, number-looking text, brackets, braces, quotes, commas, colons, backslashes and
        spelled-out escape sequences -- in every text-carrying position (String, instance name, List / Dict /
        Tuple items at two depths, Dict keys, Selector / ListSelector values over a list and over a dict of objects)
        x level x api: any text is a valid state and must come back verbatim;
part K  (bounded/c15_seq.py) SEQUENCES of serialize / deserialize calls in one process over two objects of one class,
        a class sharing parameter names with it, a subclass, class and instance level, subset= variations (partial
        payloads, subset on one side, empty), both apis, three orders of the calls: the kept result object of every
        call is compared with a reference model after every later call (results are independent of other calls);
        every history runs in a forked copy of a clean process and is shrunk to the shortest failing sub-history;
part D  (thorough; a seed-chosen slice in quick) pseudo-random floats, ints, strings, datetimes,
        dates and date ranges -- this also tests the assumed codecs (json float repr,
        strftime/strptime for the two literal formats).

Oracle (from the property statement, not from the code): rebuild
`cls(**deserialize_parameters(serialize_parameters()))` and compare every parameter value with
the source object's value for equality AND exact Python type, recursively (tuple vs list, int vs
float vs bool, date vs datetime, None); the serialised text must be accepted by a JSON parser
that rejects the non-standard constants NaN/Infinity; with `subset=` the JSON object must hold
exactly the requested names and the deserialised dictionary exactly the names requested on both
sides.  Only states the statement calls valid are used: finite numbers, naive datetimes for
Date parameters, JSON-native element values inside List/Dict (str keys) -- a tuple or a
non-string key inside a List/Dict is not claimed (lenient reading), the tuple nested inside a
*Tuple* parameter is (DESIGN.md section 9).
"""
import itertools
import logging
import random
import struct
import warnings

import sys

from bounded._api import Bounded, REPLAY_HEADER
from bounded import c15_ext
from bounded import c15_hist
from bounded import c15_seq

# --------------------------------------------------------------------------------------------
# The checking core.  It is kept as source text: the layer exec()s it and every replay script
# embeds the very same text, so that layer and replay can never disagree about the oracle.
# --------------------------------------------------------------------------------------------
CORE_SRC = r'''
import datetime as dt
import json
import param


def deep_eq(a, b):
    """equal value AND equal Python type, recursively"""
    if type(a) is not type(b):
        return False
    if isinstance(a, (list, tuple)):
        return len(a) == len(b) and all(deep_eq(x, y) for x, y in zip(a, b))
    if isinstance(a, dict):
        return set(a) == set(b) and all(deep_eq(a[k], b[k]) for k in a)
    return a == b


def loose_eq(a, b):
    """equal up to list/tuple, bool/int/float and date/datetime type differences"""
    if isinstance(a, (list, tuple)) and isinstance(b, (list, tuple)):
        return len(a) == len(b) and all(loose_eq(x, y) for x, y in zip(a, b))
    if isinstance(a, dict) and isinstance(b, dict):
        return set(a) == set(b) and all(loose_eq(a[k], b[k]) for k in a)
    if isinstance(a, dt.date) and isinstance(b, dt.date):
        f = lambda d: d if isinstance(d, dt.datetime) else dt.datetime(d.year, d.month, d.day)
        return f(a) == f(b)
    try:
        return bool(a == b)
    except Exception:
        return False


def strict_loads(text):
    """json.loads that refuses the non-standard constants NaN / Infinity / -Infinity"""
    def bad(c):
        raise ValueError('non-standard JSON constant ' + c)
    if not isinstance(text, str):
        raise ValueError('serialisation is not text: %r' % type(text))
    return json.loads(text, parse_constant=bad)


def mismatch(name, want, got):
    kind = 'type' if loose_eq(want, got) else 'value'
    return (kind, '%s: expected %r (%s) got %r (%s)' % (name, want, type(want).__name__,
                                                      got, type(got).__name__))


def roundtrip(cls, values, level, api, ser_subset=None, de_subset=None, universe=None, history=None):
    """Drive the real param code once; return None or (kind, detail).

    history  statements executed after the source object exists and before it is serialised (names `src`,
             `cls`, `param`, `dt` in scope): the state under test is then whatever `src` SHOWS afterwards

    cls      a Parameterized class whose defaults are the state under test (level 'class'), or
             whose instance built with **values is (levels 'instance', 'inst->class')
    api      'parameters' | 'value'
    """
    stage = 'construct-source'
    try:
        src = cls if level == 'class' else cls(**values)
        if history:
            stage = 'history'
            hns = {'src': src, 'cls': cls, 'param': param, 'dt': dt}
            for stmt in history:
                exec(stmt, hns)
            stage = 'construct-source'
        ser = src.param
        de = cls.param if level in ('class', 'inst->class') else src.param
        names = [n for n in cls.param if n != 'name'] if universe is None else list(universe)
        expected = {n: getattr(src, n) for n in list(cls.param)}
        if api == 'value':
            for n in names:
                stage = 'serialize_value'
                text = ser.serialize_value(n)
                stage = 'standard-json'
                try:
                    strict_loads(text)
                except ValueError as e:
                    return ('nonstandard-json', '%s: %s in %r' % (n, e, text))
                stage = 'deserialize_value'
                got = de.deserialize_value(n, text)
                if not deep_eq(expected[n], got):
                    return mismatch(n, expected[n], got)
                stage = 'construct'
                new = cls(**{n: got})
                if not deep_eq(expected[n], getattr(new, n)):
                    return mismatch(n + ' (rebuilt)', expected[n], getattr(new, n))
            return None
        stage = 'serialize_parameters'
        kw = {} if ser_subset is None else {'subset': ser_subset}
        text = ser.serialize_parameters(**kw)
        stage = 'standard-json'
        try:
            js = strict_loads(text)
        except ValueError as e:
            return ('nonstandard-json', '%s in %r' % (e, text))
        want_keys = set(cls.param) if ser_subset is None else set(ser_subset)
        if not isinstance(js, dict) or set(js) != want_keys:
            return ('keys', 'serialised names %r, requested %r' % (sorted(js), sorted(want_keys)))
        stage = 'deserialize_parameters'
        kw = {} if de_subset is None else {'subset': de_subset}
        args = de.deserialize_parameters(text, **kw)
        want_args = want_keys if de_subset is None else want_keys & set(de_subset)
        if set(args) != want_args:
            return ('keys', 'deserialised names %r, requested %r' % (sorted(args), sorted(want_args)))
        stage = 'construct'
        new = cls(**args)
        for n in sorted(want_args):
            if not deep_eq(expected[n], getattr(new, n)):
                return mismatch(n, expected[n], getattr(new, n))
        return None
    except Exception as e:   # the statement promises a rebuilt object; any exception breaks it
        return ('exception:%s@%s' % (type(e).__name__, stage), '%s: %s' % (type(e).__name__, e))
'''

_CORE = {}
exec(compile(CORE_SRC, "<c15-core>", "exec"), _CORE)
deep_eq = _CORE["deep_eq"]
roundtrip = _CORE["roundtrip"]
dt = _CORE["dt"]
param = _CORE["param"]

_EVAL_NS = {"param": param, "dt": dt}


def _ev(src):
    return eval(src, dict(_EVAL_NS))


# --------------------------------------------------------------------------------------------
# value lattices (all as *source text*, so that a replay script can be generated verbatim)
# --------------------------------------------------------------------------------------------
FLOATS = ["0.0", "-0.0", "1.0", "-1.5", "0.1", "1/3", "1e22", "1e-7", "123456789.123456789",
          "5e-324", "2.2250738585072014e-308", "1.7976931348623157e308", "-1.7976931348623157e308",
          "float(2**53)", "9007199254740993.0", "1e16"]
INTS = ["0", "1", "-1", "7", "2**31", "-2**31-1", "2**53+1", "2**63", "-2**64-1", "10**30"]
STRINGS = ["''", "'a'", "'null'", "'2020-01-02'", "'\\u00e9\\u4e2d'", "'\\U0001f600'", "'\"q\"\\\\'",
           "'\\n\\t\\r'", "'\\x00\\x1f'", "'\\u2028\\u2029'", "' '", "'NaN'", "'a' * 1000"]
DATETIMES = ["dt.datetime(2020, 1, 2, 3, 4, 5, 6)", "dt.datetime(2020, 1, 2)",
             "dt.datetime(2020, 1, 2, 3, 4, 5)", "dt.datetime(2020, 12, 31, 23, 59, 59, 999999)",
             "dt.datetime(1970, 1, 1, 0, 0, 0, 1)", "dt.datetime(2000, 2, 29, 12)",
             "dt.datetime(1000, 1, 1)", "dt.datetime(1000, 1, 1, 0, 0, 0, 1)",
             "dt.datetime(9999, 12, 31, 23, 59, 59, 999999)", "dt.datetime(1900, 1, 1, 0, 0, 1)",
             "dt.datetime(999, 12, 31, 23, 59, 59)", "dt.datetime(999, 1, 2, 3, 4, 5, 6)",
             "dt.datetime(1, 1, 1)", "dt.datetime(1, 1, 1, 0, 0, 0, 1)", "dt.datetime(100, 6, 15, 12)"]
DATES = ["dt.date(2020, 1, 2)", "dt.date(2000, 2, 29)", "dt.date(1970, 1, 1)", "dt.date(1000, 1, 1)",
         "dt.date(9999, 12, 31)", "dt.date(1900, 12, 31)", "dt.date(999, 12, 31)", "dt.date(1, 1, 1)",
         "dt.date(10, 10, 10)"]
DT_RANGES = ["(dt.datetime(2020, 1, 2, 3, 4, 5, 6), dt.datetime(2020, 1, 3))",
             "(dt.datetime(2020, 1, 2), dt.datetime(2020, 1, 2))",
             "(dt.datetime(2020, 1, 2), dt.datetime(2020, 1, 2, 0, 0, 0, 1))",
             "(dt.datetime(1000, 1, 1), dt.datetime(9999, 12, 31, 23, 59, 59, 999999))",
             "(dt.date(2020, 1, 2), dt.date(2020, 1, 3))", "(dt.date(2020, 1, 2), dt.date(2020, 1, 2))",
             "(dt.date(1000, 1, 1), dt.date(9999, 12, 31))",
             "(dt.date(999, 12, 31), dt.date(1000, 1, 1))", "(dt.date(1, 1, 1), dt.date(2, 1, 1))",
             "(dt.datetime(999, 12, 31, 1, 2, 3), dt.datetime(1000, 1, 1, 1, 2, 3))",
             "(dt.datetime(1, 1, 1), dt.datetime(1, 1, 2))"]
D_RANGES = ["(dt.date(2020, 1, 2), dt.date(2020, 1, 3))", "(dt.date(2020, 1, 2), dt.date(2020, 1, 2))",
            "(dt.date(1000, 1, 1), dt.date(9999, 12, 31))", "(dt.date(1970, 1, 1), dt.date(2000, 2, 29))",
            "(dt.date(999, 12, 31), dt.date(1000, 1, 1))", "(dt.date(1, 1, 1), dt.date(2, 1, 1))"]
JSONVALS = ["[]", "[1]", "[1, 'a', None, 2.5, True]", "[[1, 2], [3], []]", "[{'a': 1}, {}]",
            "[1.0, 1, -0.0, 5e-324]", "[2**64, -10**30]", "['', '\\u00e9']", "[[[[]]]]", "[None]"]
DICTVALS = ["{}", "{'a': 1}", "{'a': [1, 2], 'b': {'c': None}}", "{'': 1.5}", "{'\\u00e9': 'x', 'k': True}",
            "{'a': {'b': {'c': {'d': []}}}}", "{'n': 2**70, 'f': 1e-300}"]


def _none_last(vals):
    return vals + ["None"]


def _tuple_neutral(src):
    v = _ev(src)
    return "(0, 0)" if v is None else repr(tuple(0 for _ in v))


def _range_neutral(src):
    return "(0, 0)"


# type table: name -> dict(decl=template with {d} default and {x} extra kwargs,
#                          values=[src...], neutral=src or function(src)->src, none_ok=bool)
TYPES = {
    "Number": dict(decl="param.Number(default={d}{x})", values=FLOATS + INTS[:7] + ["True", "False"],
                   neutral="0.25"),
    "Integer": dict(decl="param.Integer(default={d}{x})", values=INTS + ["True", "False"], neutral="42"),
    "Magnitude": dict(decl="param.Magnitude(default={d}{x})",
                      values=["0.0", "1.0", "0.5", "5e-324", "1/3", "0", "1", "0.9999999999999999"],
                      neutral="0.25"),
    "String": dict(decl="param.String(default={d}{x})", values=STRINGS, neutral="'zz'"),
    "Color": dict(decl="param.Color(default={d}{x})", values=["'#aabbcc'", "'#ABC'", "'red'", "'#000000'"],
                  neutral="'#123456'"),
    "Boolean": dict(decl="param.Boolean(default={d}{x})", values=["True", "False"], neutral="False"),
    "Tuple": dict(decl="param.Tuple(default={d}, length={n}{x})",
                  values=["()", "(1,)", "(1, 'a')", "(None, 1.5)", "(True, 'x', 2)", "([1, 2], 'a')",
                          "({'k': 1}, [])", "(1.0, 1, -0.0)", "(2**64, 5e-324, '')",
                          "((1, 2), 'a')", "((), 1)", "([(1,)], 2)", "({'k': (1, 2)}, 0)"],
                  neutral=_tuple_neutral),
    "NumericTuple": dict(decl="param.NumericTuple(default={d}, length={n}{x})",
                         values=["()", "(0,)", "(1, 2)", "(1.5, -2.5)", "(1e308, -1e308, 5e-324)",
                                 "(2**64, -1, 0.1)", "(True, 1)", "(1.0, 1)", "(-0.0, 0)"],
                         neutral=_tuple_neutral),
    "XYCoordinates": dict(decl="param.XYCoordinates(default={d}{x})",
                          values=["(0.0, 0.0)", "(1, 2)", "(-1.5, 1e308)", "(5e-324, 2**60)", "(1, 2.0)"],
                          neutral="(9.0, 9.0)"),
    "Range": dict(decl="param.Range(default={d}{x})",
                  values=["(0, 1)", "(1.5, 2.5)", "(-1e308, 1e308)", "(0, 0)", "(0.0, 1)", "(-2**64, 2**64)",
                          "(5e-324, 1e-300)", "(2, 1)"],
                  neutral=_range_neutral),
    "Date": dict(decl="param.Date(default={d}{x})", values=DATETIMES, neutral="dt.datetime(2001, 2, 3, 4, 5, 6, 7)"),
    "CalendarDate": dict(decl="param.CalendarDate(default={d}{x})", values=DATES, neutral="dt.date(2001, 2, 3)"),
    "DateRange": dict(decl="param.DateRange(default={d}{x})", values=DT_RANGES,
                      neutral="(dt.datetime(2001, 2, 3, 4), dt.datetime(2001, 2, 3, 5))"),
    "CalendarDateRange": dict(decl="param.CalendarDateRange(default={d}{x})", values=D_RANGES,
                              neutral="(dt.date(2001, 2, 3), dt.date(2001, 2, 4))"),
    "List": dict(decl="param.List(default={d}{x})", values=JSONVALS, neutral="[0]"),
    "Dict": dict(decl="param.Dict(default={d}{x})", values=DICTVALS, neutral="{'z': 0}"),
    "Selector": dict(decl="param.Selector(default={d}, objects=[0, 1, 'a', 2.5, None, True, '', [1, 2], {{'k': 1}}]{x})",
                     values=["0", "1", "'a'", "2.5", "True", "''", "[1, 2]", "{'k': 1}"], neutral="0"),
    "Selector{}": dict(decl="param.Selector(default={d}, objects={{'zero': 0, 'one': 1, 'two': 'b', 'f': 2.5, 'l': [1]}}{x})",
                       values=["1", "'b'", "2.5", "[1]"], neutral="0"),
    "ObjectSelector": dict(decl="param.ObjectSelector(default={d}, objects=[0, 1, 'a', 2.5, [1, 2]]{x})",
                           values=["1", "'a'", "2.5", "[1, 2]"], neutral="0"),
    "ListSelector": dict(decl="param.ListSelector(default={d}, objects=[1, 'a', 2.5, None, True]{x})",
                         values=["[]", "[1]", "[1, 'a']", "[2.5, 1, 'a']", "[None, True]", "[1, 'a', 2.5, None, True]"],
                         neutral="[1]"),
}
# values carrying these tags hit the two defects DESIGN.md section 9 lists for C15; they are explored in
# part A only, so that parts B and C (subsets, many-parameter objects) are not masked by them
SAFE_TAGS = ("year<1000", "nested-tuple")


def vclass(v):
    """input-side feature tags of a value (never derived from the observed failure)"""
    tags = set()

    def walk(x, depth):
        if x is None:
            tags.add("none")
        elif isinstance(x, bool):
            tags.add("bool")
        elif isinstance(x, int):
            if abs(x) > 2 ** 53:
                tags.add("bigint")
        elif isinstance(x, float):
            if x != 0 and (abs(x) < 2.3e-308 or abs(x) > 1e300):
                tags.add("extreme")
        elif isinstance(x, str):
            if any(ord(c) > 126 or ord(c) < 32 for c in x):
                tags.add("nonascii")
        elif isinstance(x, dt.datetime):
            if x.year < 1000:
                tags.add("year<1000")
            if x.microsecond:
                tags.add("us")
            elif not (x.hour or x.minute or x.second):
                tags.add("midnight")
        elif isinstance(x, dt.date):
            if x.year < 1000:
                tags.add("year<1000")
        elif isinstance(x, (list, tuple, dict)):
            if not x:
                tags.add("empty")
            if isinstance(x, tuple) and depth > 0:
                tags.add("nested-tuple")
            for y in (x.values() if isinstance(x, dict) else x):
                walk(y, depth + 1)

    walk(v, 0)
    return ",".join(sorted(tags)) or "plain"


def decl_src(tname, default_src, extra):
    t = TYPES[tname]
    n = ""
    if "{n}" in t["decl"]:
        v = _ev(default_src)
        n = "2" if v is None else str(len(v))
    return t["decl"].format(d=default_src, x=extra, n=n)


def neutral_src(tname, value_src):
    nt = TYPES[tname]["neutral"]
    return nt(value_src) if callable(nt) else nt


_counter = itertools.count()


def make_class(decls):
    """fresh Parameterized class from {name: declaration source}"""
    ns = {k: _ev(src) for k, src in decls.items()}
    return type("C15Case", (param.Parameterized,), ns)


def class_src(decls):
    body = "\n".join("    %s = %s" % (k, s) for k, s in decls.items())
    return "class C15Case(param.Parameterized):\n" + body + "\n"


REPLAY_BODY = '''import os, warnings, logging
sys.path.insert(0, os.environ.get('PYVC_REPO', '/repo'))
warnings.simplefilter('ignore')
logging.disable(logging.CRITICAL)
{core}

{cls}
values = {values}
res = roundtrip(C15Case, values, level={level!r}, api={api!r}, ser_subset={ss!r}, de_subset={ds!r},
                universe={universe!r}, history={history!r})
if res is not None:
    print('REPRODUCED: %s -- %s' % res)
    sys.exit(1)
print('NOT-REPRODUCED')
sys.exit(0)
'''


def make_replay(clause, witness, decls, values_src, level, api, ss=None, ds=None, universe=None, history=None):
    head = REPLAY_HEADER.format(prop="C15", name="replay_c15.py", clause=clause, witness=witness)
    vals = "{" + ", ".join("%r: %s" % (k, s) for k, s in values_src.items()) + "}"
    return head + REPLAY_BODY.format(core=CORE_SRC, cls=class_src(decls), values=vals, level=level,
                                     api=api, ss=ss, ds=ds, universe=universe, history=history)


LEVELS = ("class", "instance", "inst->class")
APIS = ("parameters", "value")

# ---------------------------------------------------------------------------------------------
# part E: hierarchies re-declaring a name with another Parameter type
# ---------------------------------------------------------------------------------------------
# (type A, instance value A, type B, instance value B); every pair is used in both directions
E_PAIRS = [
    ("Date", "dt.datetime(2020, 1, 2, 3, 4, 5, 6)", "CalendarDate", "dt.date(2020, 1, 2)"),
    ("List", "[1, 'a']", "Tuple", "(1, 'a')"),
    ("Range", "(1.5, 2.5)", "CalendarDateRange", "(dt.date(2020, 1, 2), dt.date(2020, 1, 3))"),
    ("DateRange", "(dt.datetime(2020, 1, 2, 3, 4, 5, 6), dt.datetime(2020, 1, 3))", "CalendarDateRange",
     "(dt.date(2020, 1, 2), dt.date(2020, 1, 3))"),
    ("Number", "1.5", "Integer", "7"),
    ("NumericTuple", "(1, 2.5)", "List", "[1, 2.5]"),
    ("String", "'2020-01-02'", "CalendarDate", "dt.date(2020, 1, 2)"),
]
# shape -> per class (name, base, which type its own declaration of p has: 'A' / 'B' / None = inherits)
E_SHAPES = {
    "chain": (("X", None, "A"), ("Y", "X", "B"), ("Z", "Y", None)),
    "fork": (("X", None, "A"), ("Y", "X", "B"), ("Z", "X", None)),
    "mid": (("X", None, "A"), ("Y", "X", None), ("Z", "Y", "B")),
    "sibs": (("X", None, None), ("Y", "X", "A"), ("Z", "X", "B")),
}
E_Q_DECL = "param.Tuple(default=(0, 'z'), length=2)"
E_Q_VALUE = "(1, 'a')"


def e_hierarchy(shape, ta, va, tb, vb):
    """-> (class source text, {class name: values source dict for an instance})"""
    src, eff, vals = "", {}, {}
    for cname, base, own in E_SHAPES[shape]:
        lines = []
        if base is None:
            lines.append("    q = " + E_Q_DECL)
        if own is not None:
            t, v = (ta, va) if own == "A" else (tb, vb)
            lines.append("    p = " + decl_src(t, neutral_src(t, v), ""))
            eff[cname] = (t, v)
        elif base in eff:
            eff[cname] = eff[base]
        src += "class %s(%s):\n%s\n" % (cname, base or "param.Parameterized", "\n".join(lines) or "    pass")
        vals[cname] = dict({"q": E_Q_VALUE}, **({"p": eff[cname][1]} if cname in eff else {}))
    return src, vals


def e_run(src, vals, steps):
    """steps: [(class name, level, api)] on FRESH classes; -> None or (index of the failing step, kind, detail)"""
    ns = dict(_EVAL_NS)
    exec(compile(src, "<c15-E>", "exec"), ns)
    for i, (cname, level, api) in enumerate(steps):
        res = roundtrip(ns[cname], {k: _ev(v) for k, v in vals[cname].items()}, level, api)
        if res is not None:
            return (i,) + tuple(res)
    return None


def e_shrink(src, vals, steps, kind):
    """drop earlier steps while the LAST step still fails with the same kind"""
    steps = list(steps)
    changed = True
    while changed:
        changed = False
        for j in range(len(steps) - 1):
            cand = steps[:j] + steps[j + 1:]
            r = e_run(src, vals, cand)
            if r is not None and r[0] == len(cand) - 1 and r[1] == kind:
                steps, changed = cand, True
                break
    return steps


REPLAY_E = '''import os, warnings, logging
sys.path.insert(0, os.environ.get('PYVC_REPO', '/repo'))
warnings.simplefilter('ignore')
logging.disable(logging.CRITICAL)
{core}

{cls}
values = {values}
steps = {steps!r}       # (class, level, api), round-tripped in this order in one process
for i, (cname, level, api) in enumerate(steps):
    res = roundtrip(globals()[cname], values[cname], level=level, api=api)
    print('step %d: round trip of %s (level=%s, api=%s): %s' % (i, cname, level, api, 'ok' if res is None else res))
    if res is not None:
        print('REPRODUCED: %s -- %s' % res)
        sys.exit(1)
print('NOT-REPRODUCED')
sys.exit(0)
'''


def make_replay_e(clause, witness, src, vals, steps):
    head = REPLAY_HEADER.format(prop="C15", name="replay_c15.py", clause=clause, witness=witness)
    values = "{" + ", ".join("%r: {%s}" % (c, ", ".join("%r: %s" % kv for kv in d.items())) for c, d in vals.items()) + "}"
    return head + REPLAY_E.format(core=CORE_SRC, cls=src, values=values, steps=[tuple(x) for x in steps])


# --------------------------------------------------------------------------------------------
# pseudo-random extension of the lattices (part D)
# --------------------------------------------------------------------------------------------
def random_values(n_each):
    """fixed (seed-independent) pool of pseudo-random values, as source text per type"""
    rnd = random.Random(20261003)
    out = {k: [] for k in ("Number", "Integer", "String", "Date", "CalendarDate", "DateRange",
                           "CalendarDateRange", "Tuple", "NumericTuple")}
    while len(out["Number"]) < n_each:
        f = struct.unpack("<d", struct.pack("<Q", rnd.getrandbits(64)))[0]
        if f == f and abs(f) != float("inf"):
            out["Number"].append(repr(f))
    for _ in range(n_each):
        out["Integer"].append(repr(rnd.randint(-2 ** rnd.randint(1, 200), 2 ** rnd.randint(1, 200))))
        s = "".join(chr(rnd.choice([rnd.randint(0, 0x7f), rnd.randint(0x80, 0x7ff), rnd.randint(0x800, 0xd7ff),
                                    rnd.randint(0xe000, 0xffff), rnd.randint(0x10000, 0x10ffff)]))
                    for _ in range(rnd.randint(0, 6)))
        out["String"].append(repr(s))

        def rdt():
            return dt.datetime(rnd.randint(1000, 9999), rnd.randint(1, 12), rnd.randint(1, 28), rnd.randint(0, 23),
                               rnd.randint(0, 59), rnd.randint(0, 59),
                               rnd.choice([0, 1, 10, 100, 999, 1000, 500000, 999999, rnd.randint(0, 999999)]))
        a, b = sorted([rdt(), rdt()])
        out["Date"].append("dt." + repr(a)[9:])
        out["CalendarDate"].append("dt." + repr(a.date())[9:])
        if rnd.random() < 0.5:
            out["DateRange"].append("(dt.%s, dt.%s)" % (repr(a)[9:], repr(b)[9:]))
        else:
            out["DateRange"].append("(dt.%s, dt.%s)" % (repr(a.date())[9:], repr(b.date())[9:]))
        out["CalendarDateRange"].append("(dt.%s, dt.%s)" % (repr(a.date())[9:], repr(b.date())[9:]))
        k = rnd.randint(0, 4)
        nums = [rnd.choice([rnd.randint(-10 ** 20, 10 ** 20), rnd.uniform(-1e10, 1e10), rnd.random() * 1e-300])
                for _ in range(k)]
        out["NumericTuple"].append(repr(tuple(nums)))
        mixed = [rnd.choice([None, True, rnd.randint(-5, 5), rnd.random(), "s%d" % rnd.randint(0, 9),
                             [rnd.randint(0, 3)], {"k": rnd.random()}]) for _ in range(k)]
        out["Tuple"].append(repr(tuple(mixed)))
    return out


# --------------------------------------------------------------------------------------------
def run(tier, seed):
    # param's warnings / log output are silenced for the duration of the run and restored afterwards
    prev = logging.root.manager.disable
    logging.disable(logging.CRITICAL)
    try:
        with warnings.catch_warnings():
            warnings.simplefilter("ignore")
            return _run(tier, seed)
    finally:
        logging.disable(prev)


def _run(tier, seed):
    B = Bounded(
        "C15",
        rule=("one case = (declaration, state value(s), level, api[, serialising subset, deserialising "
              "subset]); distinct when any of these differ; every case drives serialize_* -> strict JSON "
              "parse -> deserialize_* -> constructor on the real code and compares values and exact "
              "types with the source object (oracle from the statement)"),
        bound=("20 parameter declarations x {allow_None off,on} x value lattice (8-26 values per type, "
               "boundary years 1/999/1000/9999, microseconds, extreme floats, big ints, empty and nested "
               "containers, None) x 3 levels x 2 apis; 4 four-parameter classes x 2 assignments x 2 levels "
               "x 17x17 subset pairs (+ tuple/set forms); all-types class x rotated lattice x 3 levels x 2 "
               "apis; 14 re-declaration pairs (7 type pairs, both directions) x 4 hierarchy shapes of 3 classes x "
               "all 6 orders of round-tripping the classes x (level, api) per step; "
               "dict-of-objects selectors whose values are labels of other entries (permutations of 2-4 labels, "
               "partial / int / mixed collisions; Selector values, ListSelector ordered sub-lists) x 3 levels x 2 "
               "apis + subset pairs; the same text deserialized 3 times with in-place mutation of earlier results "
               "(2 modes) over every container-valued lattice state + pseudo-random nested JSON x 5 level/default "
               "combinations x 2 apis + subset pairs; 22 same-text parameters of different types x 44 orders x 3 "
               "levels; "
               "JSON-looking text (prefix x token x suffix grid: 691 strings quick / 3306 thorough) x 14 text-carrying "
               "positions x 3 levels x 2 apis; call sequences: ordered pairs (+ seeded triples) of a 50-step (quick) / "
               "80-step (thorough) pool {6 sources x 6 subset variants x namespace, value api} x 3 call orders, every "
               "kept result re-checked after every later call; "
               "pseudo-random values per type: %s") % ("1500 each (all)" if tier == "thorough"
                                                            else "a seed-chosen slice of 40 of 1500 each"))
    reported = {}      # (clause, type, vclass, kind) -> canonical witness

    def report(clause, tname, vcls, kind, witness_tail, detail, replay_args):
        k = (clause, tname, vcls, kind)
        if k not in reported:
            witness = "type=%s vclass=%s kind=%s %s" % (tname, vcls, kind, witness_tail)
            reported[k] = witness
            B.violation(clause, witness, detail, make_replay(clause, witness, *replay_args))
        else:
            B.violation(clause, reported[k], detail)

    # ---------------------------------------------------------------- part A
    def part_a(tname, value_srcs, extras, tag):
        for extra in extras:
            for vsrc in value_srcs:
                if vsrc == "None" and "allow_None=True" not in extra:
                    continue
                value = _ev(vsrc)
                vcls = vclass(value)
                first_fail = None
                nfail = 0
                for level in LEVELS:
                    if level == "class":
                        decls = {"x": decl_src(tname, vsrc, extra)}
                    else:
                        decls = {"x": decl_src(tname, neutral_src(tname, vsrc), extra)}
                    try:
                        cls = make_class(decls)
                    except Exception as e:      # not a valid declaration/state: outside the property
                        B.note("skipped invalid declaration %s: %s" % (decls["x"], type(e).__name__))
                        continue
                    for api in APIS:
                        B.case(key=(tag, tname, extra, vsrc, level, api))
                        res = roundtrip(cls, {"x": value}, level, api)
                        B.checked("C15/roundtrip/%s[%s]" % (api, level))
                        if res is not None:
                            nfail += 1
                            if first_fail is None:
                                first_fail = (res, decls, level, api)
                if first_fail is not None:
                    (kind, detail), decls, level, api = first_fail
                    tail = "value=%s decl=%s level=%s api=%s" % (vsrc, decls["x"], level, api)
                    report("C15/roundtrip/value-and-type", tname, vcls, kind, tail,
                           detail + " [%d of the 6 level/api combinations fail]" % nfail,
                           (decls, {"x": vsrc}, level, api))
                elif len(B.samples) < 3 and vcls != "plain":
                    B.sample({"part": "A", "type": tname, "decl": decl_src(tname, vsrc, extra), "value": vsrc,
                              "vclass": vcls, "result": "round-trips at 3 levels x 2 apis"})

    for tname, t in TYPES.items():
        vals = list(t["values"])
        if tname not in ("Selector{}", "ObjectSelector"):
            vals = _none_last(vals)         # None: the allow_None state (for "Selector": one of the objects)
        part_a(tname, vals, ["", ", allow_None=True"], "A")

    # ---------------------------------------------------------------- part B: subsets
    QUADS = [
        ("Number,Tuple,Date,List",
         {"a": "param.Number(default=0.5)", "b": "param.Tuple(default=(0, 'z'))",
          "c": "param.Date(default=dt.datetime(2001, 2, 3, 4, 5, 6, 7))", "d": "param.List(default=[0])"},
         [{"a": "1.25", "b": "(1, 'a')", "c": "dt.datetime(2020, 1, 2, 3, 4, 5, 6)", "d": "[1, [2], {'k': None}]"},
          {"a": "-1e308", "b": "(None, 2.5)", "c": "dt.datetime(2020, 1, 2)", "d": "[]"}]),
        ("Integer,String,CalendarDateRange,Dict",
         {"a": "param.Integer(default=3)", "b": "param.String(default='zz', allow_None=True)",
          "c": "param.CalendarDateRange(default=(dt.date(2001, 2, 3), dt.date(2001, 2, 4)))",
          "d": "param.Dict(default={'z': 0})"},
         [{"a": "2**64", "b": "None", "c": "(dt.date(1000, 1, 1), dt.date(9999, 12, 31))", "d": "{'a': [1, 2]}"},
          {"a": "-1", "b": "'\\u00e9'", "c": "(dt.date(2020, 1, 2), dt.date(2020, 1, 2))", "d": "{}"}]),
        ("Boolean,DateRange,Selector,NumericTuple",
         {"a": "param.Boolean(default=False)",
          "b": "param.DateRange(default=(dt.datetime(2001, 2, 3, 4), dt.datetime(2001, 2, 3, 5)))",
          "c": "param.Selector(default=0, objects=[0, 1, 'a', None])", "d": "param.NumericTuple(default=(0, 0, 0))"},
         [{"a": "True", "b": "(dt.date(2020, 1, 2), dt.date(2020, 1, 3))", "c": "'a'", "d": "(1, 2.5, -3)"},
          {"a": "True", "b": "(dt.datetime(2020, 1, 2), dt.datetime(2020, 1, 2, 0, 0, 0, 1))", "c": "None",
           "d": "(1e308, 5e-324, 2**64)"}]),
        ("Range,CalendarDate,ListSelector,XYCoordinates",
         {"a": "param.Range(default=(0, 0))", "b": "param.CalendarDate(default=dt.date(2001, 2, 3))",
          "c": "param.ListSelector(default=[1], objects=[1, 'a', 2.5])", "d": "param.XYCoordinates(default=(9.0, 9.0))"},
         [{"a": "(1, 2.5)", "b": "dt.date(2020, 1, 2)", "c": "['a', 2.5]", "d": "(1, 2.0)"},
          {"a": "(-1e308, 1e308)", "b": "dt.date(9999, 12, 31)", "c": "[]", "d": "(-0.5, 2**60)"}]),
    ]
    names = ["a", "b", "c", "d"]
    subsets = [None] + [list(c) for r in range(5) for c in itertools.combinations(names, r)]

    def skey(s):
        return "None" if s is None else "[" + ",".join(sorted(s)) + "]"

    for qname, decls, assignments in QUADS:
        for ai, assign in enumerate(assignments):
            values = {k: _ev(v) for k, v in assign.items()}
            cls_inst = make_class(decls)
            # class level: the assignment values are the class defaults
            cdecls = {}
            for k in names:
                head, _, rest = decls[k].partition("default=")
                # replace the default expression (balanced up to the matching top-level comma / paren)
                depth, i = 0, 0
                while i < len(rest):
                    ch = rest[i]
                    if ch in "([{":
                        depth += 1
                    elif ch in ")]}":
                        if depth == 0:
                            break
                        depth -= 1
                    elif ch == "," and depth == 0:
                        break
                    i += 1
                cdecls[k] = head + "default=" + assign[k] + rest[i:]
            cls_cls = make_class(cdecls)
            for level, cls, dsrc in (("class", cls_cls, cdecls), ("instance", cls_inst, decls),
                                     ("inst->class", cls_inst, decls)):
                forms = [(s, t_) for s in subsets for t_ in subsets]
                # the same subsets given as tuple / set / dict-keys (any iterable supporting `in`)
                forms += [(tuple(s), None) for s in subsets[1:]] + [(None, set(s)) for s in subsets[1:]]
                forms += [(set(s), tuple(s)) for s in subsets[1:]]
                for ss, ds in forms:
                    form = "%s/%s" % (type(ss).__name__, type(ds).__name__)
                    B.case(key=("B", qname, ai, level, skey(ss), skey(ds), form))
                    res = roundtrip(cls, values, level, "parameters", ss, ds)
                    B.checked("C15/subset/names-and-values[%s]" % level)
                    if res is not None:
                        kind, detail = res
                        tail = "assignment=%d level=%s ser_subset=%s de_subset=%s form=%s" % (
                            ai, level, skey(ss), skey(ds), form)
                        report("C15/subset/names-and-values", qname, "subset", kind, tail, detail,
                               (dsrc, assign, level, "parameters",
                                ss if not isinstance(ss, set) else sorted(ss),
                                ds if not isinstance(ds, set) else sorted(ds)))
            if len(B.samples) < 5:
                B.sample({"part": "B", "types": qname, "assignment": assign,
                          "subset_pairs": len(subsets) ** 2, "levels": 3})

    # ---------------------------------------------------------------- part C: all types in one class
    def safe_values(tname):
        vals = [v for v in TYPES[tname]["values"] if not any(t in vclass(_ev(v)) for t in SAFE_TAGS)]
        return vals

    tnames = [t for t in TYPES]
    rounds = max(len(safe_values(t)) for t in tnames)
    for r in range(rounds):
        assign, decls_i, decls_c = {}, {}, {}
        for i, tname in enumerate(tnames):
            pname = "p%02d" % i
            vals = safe_values(tname)
            vsrc = vals[(r + i) % len(vals)]
            assign[pname] = vsrc
            decls_i[pname] = decl_src(tname, neutral_src(tname, vsrc), "")
            decls_c[pname] = decl_src(tname, vsrc, "")
        values = {k: _ev(v) for k, v in assign.items()}
        for level in LEVELS:
            dsrc = decls_c if level == "class" else decls_i
            cls = make_class(dsrc)
            for api in APIS:
                B.case(key=("C", r, level, api))
                res = roundtrip(cls, values, level, api)
                B.checked("C15/roundtrip/%s[%s]" % (api, level))
                if res is not None:
                    kind, detail = res
                    pn = detail.split(":")[0].split(" ")[0]
                    tn = tnames[int(pn[1:])] if pn.startswith("p") and pn[1:].isdigit() else "?"
                    report("C15/roundtrip/all-types-object", tn, "mixed", kind,
                           "round=%d level=%s api=%s" % (r, level, api), detail,
                           (dsrc, assign, level, api))
    B.sample({"part": "C", "types": len(tnames), "rounds": rounds})

    # ---------------------------------------------------------------- part E: re-declaring hierarchies
    orders = list(itertools.permutations("XYZ"))
    uniform = [((l,) * 3, (a,) * 3) for l in LEVELS for a in APIS]
    mixed = [(ls, as_) for ls in itertools.product(LEVELS, repeat=3) for as_ in itertools.product(APIS, repeat=3)
             if (ls, as_) not in uniform]
    e_seen = {}
    n_combo = 0
    for ta, va, tb, vb in E_PAIRS + [(b, vb_, a, va_) for a, va_, b, vb_ in E_PAIRS]:
        for shape in E_SHAPES:
            src, vals = e_hierarchy(shape, ta, va, tb, vb)
            n_combo += 1
            if tier == "thorough":
                las = uniform + mixed
            else:       # quick: the uniform level/api assignments + a seed-chosen slice of the mixed ones
                rnd = random.Random("E|%d|%s|%s|%s" % (seed, ta, tb, shape))
                las = uniform + rnd.sample(mixed, 2)
            for ls, as_ in las:
                for order in orders:
                    steps = [(c, l, a) for c, l, a in zip(order, ls, as_)]
                    B.case(key=("E", ta, tb, shape, order, ls, as_))
                    r = e_run(src, vals, steps)
                    B.checked("C15/hierarchy/roundtrip-in-any-order", 3 if r is None else r[0] + 1)
                    if r is None:
                        continue
                    i, kind, detail = r
                    # one witness per (shape, minimal sequence of classes): the first type pair / level / api
                    # that exhibits it (the enumeration order is fixed) stands for the others
                    k0 = (shape, tuple(c for c, _, _ in steps[:i + 1]), kind.split("@")[0].split(":")[0])
                    if k0 in e_seen:
                        B.violation("C15/hierarchy/roundtrip-in-any-order", e_seen[k0], detail)
                        continue
                    m = e_shrink(src, vals, steps[:i + 1], kind)
                    k = (shape, tuple(c for c, _, _ in m))
                    e_seen[k0] = e_seen.get(k)
                    if e_seen[k0] is not None:
                        B.violation("C15/hierarchy/roundtrip-in-any-order", e_seen[k], detail)
                        continue
                    det = e_run(src, vals, m)[2]
                    witness = "part=E types=%s>%s kind=%s shape=%s steps=%s" % (
                        ta, tb, kind, shape, ";".join("%s:%s:%s" % st for st in m))
                    e_seen[k] = e_seen[k0] = witness
                    B.violation("C15/hierarchy/roundtrip-in-any-order", witness,
                                detail + " [after the earlier steps of this order; every step round-trips when run first]"
                                if len(m) > 1 else det,
                                make_replay_e("C15/hierarchy/roundtrip-in-any-order", witness, src, vals, m))
    B.sample({"part": "E", "pairs(both directions)": 2 * len(E_PAIRS), "shapes": list(E_SHAPES), "orders": 6,
              "level/api assignments per order": len(uniform) + (len(mixed) if tier == "thorough" else 2)})
    if tier != "thorough":
        B.note("quick: part E runs all 6 orders x the 6 uniform (level, api) assignments + 2 seed-chosen mixed "
               "assignments (of %d) per (type pair, shape)" % len(mixed))

    # ---------------------------------------------------------------- part D: pseudo-random values
    pool = random_values(1500)
    if tier == "thorough":
        for tname, vals in pool.items():
            part_a(tname, vals, [""], "D")
    else:
        B.exhaustive = False
        B.note("quick: part D explores a slice of 40 of the 1500 pseudo-random values per type "
               "(slice chosen by seed); parts A-C are complete")
        for tname, vals in pool.items():
            k = (seed % 37) * 40
            part_a(tname, vals[k:k + 40], [""], "D")

    # ---------------------------------------------------------------- parts F, G, H (bounded/c15_ext.py)
    # (last: they change deserialized results in place, which must not disturb the parts above when the
    # library under test wrongly shares them)
    c15_ext.run_ext(B, tier, seed, sys.modules[__name__])

    # ---------------------------------------------------------------- part I (bounded/c15_hist.py)
    c15_hist.run_hist(B, tier, seed, sys.modules[__name__])

    # ---------------------------------------------------------------- parts J, K (bounded/c15_seq.py)
    c15_seq.run_text(B, tier, seed, sys.modules[__name__])
    c15_seq.run_seq(B, tier, seed, sys.modules[__name__])

    # notes are de-duplicated
    B.notes = sorted(set(B.notes))
    return B.result()
