"""Extension parts F, G, H of the bounded stand-in layer for C15 (helpers of bounded/c15.py).

part F  Selector / ObjectSelector / ListSelector declared with a DICT of objects (label -> value) in which
        the VALUES are themselves LABELS of other entries: every permutation of the labels as values (2, 3
        and -- thorough; a seed-chosen slice in quick -- 4 labels), partially colliding dicts, int values whose
        str() is another label, a mixed dict (str, int, float, None values colliding with the labels 'None',
        'null', '1', '2.5'); Selector: every value; ListSelector: every ordered sub-list of the values (no
        repetition); x level {class, instance, inst->class} x api {parameters, value}; a four-parameter class
        of such selectors under `subset=` (serialising x deserialising subsets).  The VALUE, not the label,
        must round-trip.
part G  the SAME JSON text deserialized several times.  mode `mutate-between`: deserialize, compare, rebuild,
        change every mutable container reachable from the result (and from the rebuilt object) in place,
        deserialize the same text again ... (3 rounds) -- every result must equal the serialized state;
        mode `build-then-mutate`: deserialize the text 3 times, change the first result in place -> the other
        results must still equal the serialized state; rebuild two objects from results 2 and 3, change the
        values of the first object in place -> the second object must still equal the serialized state.
        Over every container-valued state of the lattice (List, Dict, Tuple holding lists/dicts, Selector /
        ObjectSelector with list/dict objects, ListSelector), pseudo-random nested JSON containers, x level
        {class, instance, inst->class} x {default differs from / equals the state} x api; and a 4-parameter
        class (List, Dict, Tuple, ListSelector) under `subset=`.
part H  parameters of DIFFERENT types whose states serialize to the SAME text (List / Tuple / NumericTuple /
        Range / XYCoordinates / ListSelector on `[1, 2.5]`; String / CalendarDate / Selector on
        `"2020-01-02"`; DateRange / CalendarDateRange / List / Tuple on two dates; Date / String;
        Number / Integer / Selector on `1`; None of several types) round-tripped per value one after the other
        in one process, in every rotation of the declaration order and its reverse x level: each must come back
        with its own type, whatever was deserialized from the same text before.

The oracle is the one of c15.py (statement: equal values of equal Python type, recursively); the expected
state is always rebuilt from the source text of the values, so no container of it is ever handed to param.
"""
import itertools
import random

# ---------------------------------------------------------------------------------------------------
# second part of the checking core (source text: exec()ed by the layer, embedded in the replays)
# ---------------------------------------------------------------------------------------------------
CORE2_SRC = r'''
def fresh_values(values_src):
    """the state, rebuilt from source text: shares no container with anything handed to param before"""
    return {k: eval(s, {'dt': dt, 'param': param}) for k, s in values_src.items()}


def mutate(x, seen=None):
    """change every mutable container reachable from x in place; -> number of containers changed"""
    seen = set() if seen is None else seen
    n = 0
    if isinstance(x, (list, tuple, dict)):
        if id(x) in seen:
            return 0
        seen.add(id(x))
        for y in list(x.values() if isinstance(x, dict) else x):
            n += mutate(y, seen)
        if isinstance(x, list):
            x.append('<mutated>')
            n += 1
        elif isinstance(x, dict):
            x['<mutated>'] = True
            n += 1
    return n


def twice(cls, values_src, level, api, mode, ser_subset=None, de_subset=None, rounds=3):
    """Deserialize the same text `rounds` times with in-place mutations of earlier results.

    -> None or (kind, detail).  mode 'mutate-between' | 'build-then-mutate'."""
    stage = 'construct-source'
    try:
        src = cls if level == 'class' else cls(**fresh_values(values_src))
        ser = src.param
        de = cls.param if level in ('class', 'inst->class') else src.param
        expected = fresh_values(values_src)
        names = [n for n in values_src if (ser_subset is None or n in ser_subset)
                 and (de_subset is None or n in de_subset)]
        units = []
        stage = 'serialize'
        if api == 'value':
            for n in names:
                text = ser.serialize_value(n)
                units.append(([n], text, (lambda n=n, text=text: {n: de.deserialize_value(n, text)})))
        else:
            kw = {} if ser_subset is None else {'subset': ser_subset}
            text = ser.serialize_parameters(**kw)
            kw2 = {} if de_subset is None else {'subset': de_subset}
            units.append((names, text, (lambda text=text: de.deserialize_parameters(text, **kw2))))

        def differs(ns, get, what):
            for n in ns:
                got = get(n)
                if not deep_eq(expected[n], got):
                    return '%s of %s: expected %r (%s) got %r (%s)' % (
                        what, n, expected[n], type(expected[n]).__name__, got, type(got).__name__)
            return None

        for ns, text, get in units:
            if mode == 'mutate-between':
                for r in range(rounds):
                    stage = 'deserialize#%d' % (r + 1)
                    d = get()
                    bad = differs(ns, d.__getitem__, 'deserialization #%d of the text %r' % (r + 1, text))
                    if bad:
                        return ('value' if r == 0 else 'repeat-differs', bad +
                                ('' if r == 0 else ' [after the earlier result(s) were changed in place]'))
                    stage = 'construct#%d' % (r + 1)
                    obj = cls(**d)
                    bad = differs(ns, lambda n: getattr(obj, n), 'object rebuilt from deserialization #%d' % (r + 1))
                    if bad:
                        return ('value' if r == 0 else 'repeat-differs', bad)
                    seen = set()
                    mutate(d, seen)
                    mutate([getattr(obj, n) for n in ns], seen)
            else:
                stage = 'deserialize'
                ds = [get() for _ in range(rounds)]
                for r, d in enumerate(ds):
                    bad = differs(ns, d.__getitem__, 'deserialization #%d of the text %r' % (r + 1, text))
                    if bad:
                        return ('value', bad)
                mutate(ds[0])
                for r, d in enumerate(ds[1:]):
                    bad = differs(ns, d.__getitem__, 'deserialization #%d of the text %r' % (r + 2, text))
                    if bad:
                        return ('aliased-results', bad + ' [after result #1 was changed in place]')
                stage = 'construct'
                objs = [cls(**d) for d in ds[1:]]
                for r, obj in enumerate(objs):
                    bad = differs(ns, lambda n: getattr(obj, n), 'object rebuilt from deserialization #%d' % (r + 2))
                    if bad:
                        return ('value', bad)
                mutate([getattr(objs[0], n) for n in ns])
                for r, obj in enumerate(objs[1:]):
                    bad = differs(ns, lambda n: getattr(obj, n), 'object rebuilt from deserialization #%d' % (r + 3))
                    if bad:
                        return ('aliased-results', bad + ' [after the values of the object rebuilt from '
                                'deserialization #2 were changed in place]')
        return None
    except Exception as e:
        return ('exception:%s@%s' % (type(e).__name__, stage), '%s: %s' % (type(e).__name__, e))
'''

REPLAY_G = '''import os, warnings, logging
sys.path.insert(0, os.environ.get('PYVC_REPO', '/repo'))
warnings.simplefilter('ignore')
logging.disable(logging.CRITICAL)
{core}
{core2}

{cls}
values_src = {values!r}
res = twice(C15Case, values_src, level={level!r}, api={api!r}, mode={mode!r}, ser_subset={ss!r}, de_subset={ds!r})
if res is not None:
    print('REPRODUCED: %s -- %s' % res)
    sys.exit(1)
print('NOT-REPRODUCED')
sys.exit(0)
'''

MODES = ("mutate-between", "build-then-mutate")


def _has_mutable(v):
    if isinstance(v, (list, dict)):
        return True
    if isinstance(v, tuple):
        return any(_has_mutable(x) for x in v)
    return False


def _sublists(vals, maxlen=None):
    """every ordered sub-list without repetition (as source text)"""
    out = []
    n = len(vals) if maxlen is None else min(maxlen, len(vals))
    for r in range(n + 1):
        for c in itertools.permutations(vals, r):
            out.append("[" + ", ".join(repr(x) for x in c) + "]")
    return out


def _pairs(subsets, tier):
    if tier == "thorough":
        return [(s, t) for s in subsets for t in subsets]
    # quick: the diagonal and the pairs with one side unrestricted
    out = [(s, s) for s in subsets]
    out += [(None, t) for t in subsets[1:]] + [(s, None) for s in subsets[1:]]
    return out


def _cdecls(H, decls, assign):
    """the declarations with the assignment values as class defaults"""
    out = {}
    for k, d in decls.items():
        head, _, rest = d.partition("default=")
        depth, i = 0, 0
        while i < len(rest):
            ch = rest[i]
            if ch in "([{":
                depth += 1
            elif ch in ")]}":
                if depth == 0:
                    break
                depth -= 1
            elif ch == "," and depth == 0:
                break
            i += 1
        out[k] = head + "default=" + assign[k] + rest[i:]
    return out


# ---------------------------------------------------------------------------------------------------
def run_ext(B, tier, seed, H):
    """H: the module bounded.c15 (helpers, core)"""
    ns = H._CORE
    if "twice" not in ns:
        exec(compile(CORE2_SRC, "<c15-core2>", "exec"), ns)
    twice = ns["twice"]
    roundtrip = H.roundtrip
    _ev = H._ev
    reported = {}

    def report(clause, key, witness, detail, replay_fn):
        k = (clause,) + tuple(key)
        if k not in reported:
            reported[k] = witness
            B.violation(clause, witness, detail, replay_fn(witness))
        else:
            B.violation(clause, reported[k], detail)

    # ---------------------------------------------------------------- part F: labels that are values
    CL_F = "C15/selector-dict/value-not-label"
    fams = [("swap", {"south": "north", "north": "south"})]
    for perm in itertools.permutations("abc"):
        fams.append(("perm3", dict(zip("abc", perm))))
    perms4 = [dict(zip("abcd", p)) for p in itertools.permutations("abcd")]
    if tier != "thorough":
        perms4 = random.Random("F4|%d" % seed).sample(perms4[1:], 3)
        B.note("quick: part F uses 3 seed-chosen permutations of 4 labels (of 24); the permutations of 2 and 3 "
               "labels, the partial, int and mixed dicts are complete")
    fams += [("perm4", d) for d in perms4]
    fams += [("partial", {"a": "b", "b": "x", "c": "a"}),
             ("int", {"0": 1, "1": 0}), ("int", {"1": 2, "2": 3, "3": 1}),
             ("mixed", {"a": "b", "b": 1, "1": "c", "c": None, "None": "a", "null": 2.5, "2.5": "null"})]

    def f_cases():
        for fam, objs in fams:
            vals = list(objs.values())
            osrc = repr(objs)
            for ptype in ("Selector", "ObjectSelector", "ListSelector"):
                if ptype == "ObjectSelector" and fam not in ("swap", "perm3"):
                    continue
                if ptype == "ListSelector":
                    if fam == "mixed":
                        vsrcs = _sublists(vals, 2) + [repr(vals), repr(vals[::-1])]
                    elif fam == "perm4":
                        vsrcs = _sublists(vals, 2) + [repr(vals), repr(vals[::-1])]
                    else:
                        vsrcs = _sublists(vals)
                    neutral = "[]"
                else:
                    vsrcs = [repr(v) for v in vals]
                    neutral = repr(vals[0])
                tmpl = "param.%s(default=@D@, objects=%s)" % (ptype, osrc)
                for vsrc in vsrcs:
                    yield fam, ptype, tmpl, vsrc, neutral

    f_classes = {}

    def f_class(dsrc):      # a round trip never changes its class: one class per declaration
        if dsrc not in f_classes:
            f_classes[dsrc] = H.make_class({"x": dsrc})
        return f_classes[dsrc]

    nf = 0
    for fam, ptype, tmpl, vsrc, neutral in f_cases():
        value = _ev(vsrc)
        first, nfail = None, 0
        for level in H.LEVELS:
            decls = {"x": tmpl.replace("@D@", vsrc if level == "class" else neutral)}
            cls = f_class(decls["x"])
            for api in H.APIS:
                B.case(key=("F", ptype, tmpl, vsrc, level, api))
                nf += 1
                res = roundtrip(cls, {"x": value}, level, api)
                B.checked("%s[%s,%s]" % (CL_F, api, level))
                if res is not None:
                    nfail += 1
                    if first is None:
                        first = (res, decls, level, api)
        if first is not None:
            (kind, detail), decls, level, api = first
            witness = "part=F type=%s{%s} kind=%s value=%s decl=%s level=%s api=%s" % (
                ptype, fam, kind, vsrc, decls["x"], level, api)
            report(CL_F, (ptype, kind.split("@")[0]), witness,
                   detail + " [%d of the 6 level/api combinations fail]" % nfail,
                   lambda w, a=(decls, {"x": vsrc}, level, api): H.make_replay(CL_F, w, *a))
    B.sample({"part": "F", "object dicts": len(fams), "cases": nf,
              "example": "param.Selector(default='north', objects={'south': 'north', 'north': 'south'})"}, limit=12)

    # subsets over a class of such selectors
    names = ["a", "b", "c", "d"]
    subsets = [None] + [list(c) for r in range(5) for c in itertools.combinations(names, r)]

    def skey(s):
        return "None" if s is None else "[" + ",".join(sorted(s)) + "]"

    f_decls = {"a": "param.Selector(default='north', objects={'south': 'north', 'north': 'south'})",
               "b": "param.ListSelector(default=[], objects={'a': 'b', 'b': 'c', 'c': 'a'})",
               "c": "param.Selector(default='b', objects={'a': 'b', 'b': 1, '1': 'c', 'c': None, 'None': 'a'})",
               "d": "param.ListSelector(default=[], objects={'0': 1, '1': 0, 'x': '0'})"}
    f_assigns = [{"a": "'south'", "b": "['c', 'a']", "c": "'a'", "d": "[0, '0']"},
                 {"a": "'north'", "b": "['a', 'b', 'c']", "c": "None", "d": "[1]"}]
    CL_FS = "C15/selector-dict/subset"
    for ai, assign in enumerate(f_assigns):
        values = {k: _ev(v) for k, v in assign.items()}
        cd = _cdecls(H, f_decls, assign)
        cls_i, cls_c = H.make_class(f_decls), H.make_class(cd)
        for level, cls, dsrc in (("class", cls_c, cd), ("instance", cls_i, f_decls), ("inst->class", cls_i, f_decls)):
            for ss, ds in _pairs(subsets, tier):
                B.case(key=("F-subset", ai, level, skey(ss), skey(ds)))
                res = roundtrip(cls, values, level, "parameters", ss, ds)
                B.checked("%s[%s]" % (CL_FS, level))
                if res is not None:
                    kind, detail = res
                    witness = "part=F type=Selector{},ListSelector{} kind=%s assignment=%d level=%s ser_subset=%s de_subset=%s" % (
                        kind, ai, level, skey(ss), skey(ds))
                    report(CL_FS, (kind.split("@")[0],), witness, detail,
                           lambda w, a=(dsrc, assign, level, "parameters", ss, ds): H.make_replay(CL_FS, w, *a))

    # ---------------------------------------------------------------- part G: the same text twice
    CL_G = "C15/same-text/repeated-deserialization"

    def replay_g(clause, witness, decls, values_src, level, api, mode, ss=None, ds=None):
        head = H.REPLAY_HEADER.format(prop="C15", name="replay_c15.py", clause=clause, witness=witness)
        return head + REPLAY_G.format(core=H.CORE_SRC, core2=CORE2_SRC, cls=H.class_src(decls), values=values_src,
                                      level=level, api=api, mode=mode, ss=ss, ds=ds)

    g_values = []      # (type name, value source)
    for tname, t in H.TYPES.items():
        for vsrc in t["values"]:
            v = _ev(vsrc)
            if _has_mutable(v) and not any(tag in H.vclass(v) for tag in H.SAFE_TAGS):
                g_values.append((tname, vsrc))
    pool = random_json(300)
    if tier == "thorough":
        extra = pool
    else:
        k = (seed % 15) * 20
        extra = pool[k:k + 20]
        B.note("quick: part G explores a slice of 20 of the 300 pseudo-random nested JSON containers (slice chosen "
               "by seed) and, under subset=, the diagonal subset pairs and those with one side unrestricted; the "
               "lattice values are complete")
    g_values += [("List" if s.startswith("[") else "Dict", s) for s in extra]
    # (level, does the class default equal the state?)
    g_levels = [("class", True), ("instance", False), ("instance", True), ("inst->class", False), ("inst->class", True)]
    ng = 0
    for tname, vsrc in g_values:
        first, nfail = {}, 0
        for level, eqdef in g_levels:
            decls = {"x": H.decl_src(tname, vsrc if eqdef else H.neutral_src(tname, vsrc), "")}
            cls = H.make_class(decls)
            for api in H.APIS:
                for mode in MODES:
                    B.case(key=("G", tname, vsrc, level, eqdef, api, mode))
                    ng += 1
                    res = twice(cls, {"x": vsrc}, level, api, mode)
                    B.checked("%s[%s]" % (CL_G, mode))
                    if res is not None:
                        nfail += 1
                        first.setdefault(res[0], (res, decls, level, api, mode))
        for kind, (res, decls, level, api, mode) in first.items():
            witness = "part=G type=%s kind=%s mode=%s value=%s decl=%s level=%s api=%s" % (
                tname, kind, mode, vsrc, decls["x"], level, api)
            report(CL_G, (kind.split("@")[0],), witness,
                   res[1] + " [%d of the 20 level/default/api/mode combinations fail]" % nfail,
                   lambda w, a=(decls, {"x": vsrc}, level, api, mode): replay_g(CL_G, w, *a))
    B.sample({"part": "G", "container-valued states": len(g_values), "cases": ng, "modes": list(MODES),
              "rounds per case": 3}, limit=12)

    g_decls = {"a": "param.List(default=[0])", "b": "param.Dict(default={'z': 0})",
               "c": "param.Tuple(default=(0, 0))", "d": "param.ListSelector(default=[1], objects=[1, 'a', 2.5, [1, 2]])"}
    g_assigns = [{"a": "[1, [2], {'k': None}]", "b": "{'a': [1, 2], 'b': {'c': None}}", "c": "([1, 2], {'k': []})",
                  "d": "['a', [1, 2]]"},
                 {"a": "[]", "b": "{}", "c": "([], {})", "d": "[]"}]
    CL_GS = "C15/same-text/subset"
    for ai, assign in enumerate(g_assigns):
        cd = _cdecls(H, g_decls, assign)
        for level, dsrc in (("class", cd), ("instance", g_decls), ("instance", cd), ("inst->class", g_decls)):
            cls = H.make_class(dsrc)
            for ss, ds in _pairs(subsets, tier):
                for mode in MODES:
                    B.case(key=("G-subset", ai, level, dsrc is cd, skey(ss), skey(ds), mode))
                    res = twice(cls, assign, level, "parameters", mode, ss, ds)
                    B.checked("%s[%s]" % (CL_GS, mode))
                    if res is not None:
                        kind, detail = res
                        witness = ("part=G type=List,Dict,Tuple,ListSelector kind=%s mode=%s assignment=%d level=%s "
                                   "default=%s ser_subset=%s de_subset=%s") % (
                            kind, mode, ai, level, "state" if dsrc is cd else "neutral", skey(ss), skey(ds))
                        report(CL_GS, (kind.split("@")[0],), witness, detail,
                               lambda w, a=(dsrc, assign, level, "parameters", mode, ss, ds): replay_g(CL_GS, w, *a))

    # ---------------------------------------------------------------- part H: same text, different types
    CL_H = "C15/same-text/other-parameter-type"
    d1, d2 = "dt.date(2020, 1, 2)", "dt.date(2020, 1, 3)"
    h_params = [        # (type tag, neutral declaration, value)
        ("List", "param.List(default=[0])", "[1, 2.5]"),
        ("Tuple", "param.Tuple(default=(0, 0))", "(1, 2.5)"),
        ("String", "param.String(default='zz')", "'2020-01-02'"),
        ("Number", "param.Number(default=0.25)", "1"),
        ("DateRange", "param.DateRange(default=(dt.datetime(2001, 2, 3, 4), dt.datetime(2001, 2, 3, 5)))",
         "(%s, %s)" % (d1, d2)),
        ("NumericTuple", "param.NumericTuple(default=(0, 0))", "(1, 2.5)"),
        ("CalendarDate", "param.CalendarDate(default=dt.date(2001, 2, 3))", d1),
        ("Integer", "param.Integer(default=42)", "1"),
        ("List(dates)", "param.List(default=[0])", "['2020-01-02', '2020-01-03']"),
        ("Range", "param.Range(default=(0, 0))", "(1, 2.5)"),
        ("Selector(str)", "param.Selector(default='x', objects=['x', '2020-01-02'])", "'2020-01-02'"),
        ("CalendarDateRange", "param.CalendarDateRange(default=(dt.date(2001, 2, 3), dt.date(2001, 2, 4)))",
         "(%s, %s)" % (d1, d2)),
        ("Date", "param.Date(default=dt.datetime(2001, 2, 3, 4, 5, 6, 7))", "dt.datetime(2020, 1, 2, 3, 4, 5, 6)"),
        ("XYCoordinates", "param.XYCoordinates(default=(9.0, 9.0))", "(1, 2.5)"),
        ("Selector(int)", "param.Selector(default=0, objects=[0, 1])", "1"),
        ("Tuple(dates)", "param.Tuple(default=('', ''))", "('2020-01-02', '2020-01-03')"),
        ("String(datetime)", "param.String(default='zz')", "'2020-01-02T03:04:05.000006'"),
        ("ListSelector", "param.ListSelector(default=[], objects=[1, 2.5, 3])", "[1, 2.5]"),
        ("String(None)", "param.String(default='zz', allow_None=True)", "None"),
        ("List(None)", "param.List(default=[0], allow_None=True)", "None"),
        ("Tuple(None)", "param.Tuple(default=(0, 0), length=2, allow_None=True)", "None"),
        ("Date(None)", "param.Date(default=dt.datetime(2001, 2, 3), allow_None=True)", "None"),
    ]
    h_names = ["h%02d" % i for i in range(len(h_params))]
    h_tag = dict(zip(h_names, (p[0] for p in h_params)))
    h_decls = {n: p[1] for n, p in zip(h_names, h_params)}
    h_assign = {n: p[2] for n, p in zip(h_names, h_params)}
    h_cd = _cdecls(H, h_decls, h_assign)
    h_values = {k: _ev(v) for k, v in h_assign.items()}
    orders = []
    for i in range(len(h_names)):
        rot = h_names[i:] + h_names[:i]
        orders += [rot, rot[::-1]]
    for level in H.LEVELS:
        dsrc = h_cd if level == "class" else h_decls
        cls = H.make_class(dsrc)
        for oi, order in enumerate(orders):
            B.case(key=("H", level, tuple(order)))
            res = roundtrip(cls, h_values, level, "value", universe=order)
            B.checked(CL_H, len(order))
            if res is None:
                continue
            kind, detail = res
            bad = detail.split(":")[0].split(" ")[0]
            # shortest history: the failing parameter alone, else one earlier parameter + the failing one
            cands = [[bad]] + [[q, bad] for q in order[:order.index(bad)]] if bad in order else []
            short = order
            for cand in cands:
                r2 = roundtrip(H.make_class(dsrc), h_values, level, "value", universe=cand)
                if r2 is not None and r2[0] == kind:
                    short, detail = cand, r2[1]
                    break
            witness = "part=H kind=%s types=%s level=%s order=%s" % (
                kind, ">".join(h_tag.get(n, n) for n in short) if len(short) < len(order) else "all",
                level, ",".join(short))
            report(CL_H, (kind.split("@")[0],), witness, detail,
                   lambda w, a=(dsrc, h_assign, level, "value", None, None, list(short)): H.make_replay(CL_H, w, *a))
    B.sample({"part": "H", "parameters": len(h_names), "orders": len(orders), "levels": 3}, limit=12)


# ---------------------------------------------------------------------------------------------------
def random_json(n):
    """fixed (seed-independent) pool of pseudo-random nested JSON containers, as source text"""
    rnd = random.Random(20261004)

    def leaf():
        return rnd.choice([None, True, False, rnd.randint(-9, 9), 2 ** rnd.randint(54, 70), rnd.random(),
                           -rnd.random() * 1e-300, "", "s%d" % rnd.randint(0, 9), "é"])

    def node(depth):
        k = rnd.random()
        if depth <= 0 or k < 0.35:
            return leaf()
        size = rnd.randint(0, 3)
        if k < 0.7:
            return [node(depth - 1) for _ in range(size)]
        return {"k%d" % rnd.randint(0, 5): node(depth - 1) for _ in range(size)}

    out = []
    while len(out) < n:
        size = rnd.randint(0, 4)
        if rnd.random() < 0.5:
            v = [node(3) for _ in range(size)]
        else:
            v = {"k%d" % rnd.randint(0, 5): node(3) for _ in range(size)}
        out.append(repr(v))
    return out
