"""Part I of the bounded stand-in layer for C15 (helper of bounded/c15.py): multi-step histories on an instance.

A class holds `x` (one of the 20 serializable declarations of part A; default = the type's neutral value) and
`y = Number`.  The instance is built WITHOUT a value for x, then a history runs

    acquire   -          item  src.param['x']        attr  src.param.x        serval  src.param.serialize_value('x')
              serpar  src.param.serialize_parameters()      objects  src.param.objects()
              slotwatch  src.param.watch(cb, 'x', what='doc')     (each makes the instance own a Parameter object)
    change    set  cls.x = NEW      update  cls.param.update(x=NEW)      slot  cls.param.x.default = NEW
    tail      -     again (acquire once more)     change2 (cls.x = NEW2)     sety (src.y = 2.5)
              setx (src.x = NEW2: from now on the instance holds its own value)

and the instance is serialised:  serialize_parameters() without subset, with subset=['x'] and ['x', 'y'],
and serialize_value('x'); deserialised through the instance's or the class's namespace.

Oracle (statement): the text round-trips the state of the object that was serialised, i.e. the value the
instance SHOWS (getattr(src, 'x')) at that moment -- equal value of equal Python type after
deserialize + rebuild -- whatever Parameter object the instance acquired before the class-level change.
The check is `roundtrip(..., history=...)` of c15.py (same core as every other part).
"""
import random

CL_I = "C15/instance-history/text-carries-the-value-the-instance-shows"

ACQUIRE = [
    ("-", None),
    ("item", "src.param['x']"),
    ("attr", "src.param.x"),
    ("serval", "src.param.serialize_value('x')"),
    ("serpar", "src.param.serialize_parameters()"),
    ("objects", "src.param.objects()"),
    ("slotwatch", "src.param.watch(lambda *e: None, 'x', what='doc')"),
]
CHANGE = [
    ("set", "cls.x = {v}"),
    ("update", "cls.param.update(x={v})"),
    ("slot", "cls.param.x.default = {v}"),
]
TAIL = [
    ("-", None),
    ("again", "src.param['x']; src.param.serialize_value('x')"),
    ("change2", "cls.x = {v2}"),
    ("sety", "src.y = 2.5"),
    ("setx", "src.x = {v2}"),
]
# (view name, level, api, serialising subset, parameters compared)
VIEWS = [
    ("parameters", "instance", "parameters", None, None),
    ("parameters>class", "inst->class", "parameters", None, None),
    ("subset[x]", "instance", "parameters", ["x"], None),
    ("subset[x,y]", "inst->class", "parameters", ["x", "y"], None),
    ("value", "instance", "value", None, ["x"]),
    ("value>class", "inst->class", "value", None, ["x"]),
]


def type_cases(args):
    """worker: all cases of one declaration type -> [(key, hist, view, level, api, ss, universe, history, decls,
    vsrc, res)] (res None = round-trips)"""
    tier, seed, tname = args
    import logging
    import sys
    import warnings
    from bounded import c15 as H
    logging.disable(logging.CRITICAL)
    warnings.simplefilter("ignore")
    roundtrip = H.roundtrip
    t = H.TYPES[tname]
    rnd = random.Random("I|%d|%s" % (seed, tname))
    out, notes = [], []
    safe = [v for v in t["values"] if v != "None" and not any(tag in H.vclass(H._ev(v)) for tag in H.SAFE_TAGS)]
    picks = safe if tier == "thorough" else [safe[(seed + len(tname)) % len(safe)]]
    for vsrc in picks:
        v2src = safe[(safe.index(vsrc) + 1) % len(safe)]
        dsrc = H.neutral_src(tname, vsrc)
        if "{n}" in t["decl"]:
            # Tuple-like: all values of one case must have the declared length
            n = len(H._ev(vsrc))
            same = [v for v in safe if len(H._ev(v)) == n and v != vsrc]
            v2src = same[0] if same else vsrc
        decls = {"x": H.decl_src(tname, dsrc, ""), "y": "param.Number(default=0.5)"}
        try:
            H.make_class(decls)
        except Exception as e:
            notes.append("part I: skipped invalid declaration %s: %s" % (decls["x"], type(e).__name__))
            continue
        for aname, acq in ACQUIRE:
            for cname, chg in CHANGE:
                for tn, tail in TAIL:
                    if tier != "thorough" and tn != "-" and rnd.random() >= 1 / 6.0:
                        continue
                    history = [s for s in (acq, chg.format(v=vsrc), tail and tail.format(v2=v2src)) if s]
                    for view, level, api, ss, universe in VIEWS:
                        key = ("I", tname, vsrc, aname, cname, tn, view)
                        cls = H.make_class(decls)          # the history changes the class: a fresh one per case
                        res = roundtrip(cls, {}, level, api, ss, None, universe, history)
                        out.append((key, "%s;%s;%s" % (aname, cname, tn), view, level, api, ss, universe, history,
                                    decls, vsrc, res))
    return tname, out, notes


def run_hist(B, tier, seed, H):
    """H: the module bounded.c15 (helpers, core)"""
    from concurrent.futures import ProcessPoolExecutor
    reported = {}
    nrun = ntriv = 0
    jobs = [(tier, seed, tname) for tname in H.TYPES]
    try:
        with ProcessPoolExecutor(max_workers=16) as ex:
            results = list(ex.map(type_cases, jobs))
    except (OSError, AssertionError):          # no worker processes available: in-process
        results = [type_cases(j) for j in jobs]
    for tname, out, notes in results:
        for nt in notes:
            B.note(nt)
        for key, hist, view, level, api, ss, universe, history, decls, vsrc, res in out:
            if res is not None and res[0].endswith("@history"):
                B.case(key=key, nontrivial=False)      # the history itself is not accepted
                ntriv += 1
                continue
            B.case(key=key)
            nrun += 1
            B.checked("%s[%s]" % (CL_I, view))
            if res is None:
                continue
            kind, detail = res
            # one witness per (type family, kind of failure, way of serialising); the first (acquire, change,
            # tail) in enumeration order -- the simplest -- stands for the others
            k = (tname, kind.split("@")[0], api)
            if k not in reported:
                witness = "part=I type=%s kind=%s hist=%s view=%s value=%s decl=%s" % (
                    tname, kind, hist, view, vsrc, decls["x"])
                reported[k] = witness
                B.violation(CL_I, witness, detail + " [history: %s]" % " ; ".join(history),
                            H.make_replay(CL_I, witness, decls, {}, level, api, ss, None, universe, history))
            else:
                B.violation(CL_I, reported[k], detail)
    B.sample({"part": "I", "cases": nrun, "history not accepted (trivial)": ntriv,
              "example": "o = P(); o.param['x']; P.x = NEW; o.param.serialize_parameters()"}, limit=14)
    if tier != "thorough":
        B.note("quick: part I uses one seed-chosen value per type, all 7 acquisitions x 3 class-level changes, the "
               "empty tail completely and a seeded 1/6 of the other 4 tails, x 6 ways of serialising")
