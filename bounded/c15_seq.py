"""Parts J and K of the bounded stand-in layer for C15 (helpers of bounded/c15.py).

part J  TEXT that looks like JSON, in every text-carrying position.  The strings are a grid

            prefix x token x suffix

        token   the JSON literals null / true / false, the non-standard constants NaN / Infinity / -Infinity,
                number-looking text (0, -1.5e3, 1e999), empty structures ([] {} ""), an object ({"a": 1}), escape
                sequences spelled out (backslash-n, backslash-u0041, two backslashes, backslash-quote) and the
                empty token
        prefix  what may stand in front of a JSON value: nothing, blank, [ { : , " ' backslash, a letter, a key
                ("k": ) and a running text (x = [1, )
        suffix  what may follow a JSON value: nothing, blank, ] } , ", 1]" " ' backslash, a letter, ": 1", "}]"

        (quick: the JSON literals, the non-standard constants and the empty token under a 9 x 9 grid, the other
        tokens under 12 matching prefix/suffix pairs -- 691 strings; thorough: the full 12 x 12 grid
        for every token + strings made of two tokens).  Every string S visits the positions

            String value, instance name, List item, nested List item, Dict value, Dict key, nested Dict key and
            value, Tuple item, list inside a Tuple, Selector value (list of objects), Selector value and Selector
            label (dict of objects), ListSelector item (list and dict of objects)

        first in ONE class holding all positions (the object-level loop; class / instance / inst->class level,
        both apis); a failing string is then located: every position alone in a one-parameter class.
part K  SEQUENCES of serialize / deserialize calls in one process.  A small world -- classes P (a NumericTuple,
        b String, c Date, d List), Q (a Number: P's name with another type, b String: P's name and type, e Dict),
        R(P) (+ f CalendarDate); objects p1, p2 (two states of P), q1, r1 -- and a pool of steps

            source {p1, p2, q1, r1, class P, class Q}
            x {serialize_parameters/deserialize_parameters under 6 subset variants: none; partial payload
               (serialising subset of two names); subset on deserialization only; different subsets on both sides;
               empty payload; empty deserialising subset | serialize_value/deserialize_value of one name}
            x deserialising namespace {the instance, its class}

        One history = an ordered pair (or a seeded triple) of steps x the order of the calls {each text
        deserialized at once; all serialized first, then deserialized in the same / the reverse order}.  The
        RESULT OBJECTS of all calls are kept (never copied) and compared with the reference model after EVERY
        later call: a result must be the constructor arguments of exactly its own payload and subset, whatever
        was (de)serialized before or after it, and must rebuild an equal object.  Every history runs in its own
        forked copy of a clean process that has imported param and nothing else, so a history fails in the layer
        exactly when its replay script does; failing histories are shrunk to the shortest failing sub-history.

Oracle (statement; a plain-Python reference model, nothing of param is called to compute it): the state of every
source is the table of value SOURCE TEXTS it was built from (K_OBJECTS / the declared defaults of K_DECLS); the
expected names of a step are (all names | serialising subset) & (all names | deserialising subset); the expected
values are re-evaluated from the source texts for every comparison (equal value and equal Python type,
recursively: `deep_eq` of c15.py); the text must be standard JSON holding exactly the serialised names.
"""
import itertools
import json
import os
import random
import subprocess
import sys
import tempfile

# ---------------------------------------------------------------------------------------------------
# part J: the text grid
# ---------------------------------------------------------------------------------------------------
J_LITERALS = ["NaN", "Infinity", "-Infinity", "null", "true", "false", ""]
J_OTHER = ["0", "-1.5e3", "1e999", "[]", "{}", '""', '{"a": 1}', "\\n", "\\u0041", "\\\\", '\\"']
J_PRE = ["", " ", "[", "{", ": ", ", ", '"', "\\", "'", "x", '"k": ', "x = [1, "]
J_POST = ["", " ", "]", "}", ",", ", 1]", '"', "\\", "'", "x", ": 1", "}]"]
J_PRE_Q = ["", " ", "[", "{", ": ", ", ", '"', "\\", "x = [1, "]            # quick grid of the literals
J_POST_Q = ["", " ", "]", "}", ",", ", 1]", '"', "\\", "x"]
J_PAIRS = list(zip(J_PRE, ["", ",", "]", "}", ", 1]", " ", '"', "\\", "'", "x", "}", "}]"]))   # matching pairs


def text_grid(tier):
    """-> [(token, prefix, suffix, string)] without repeated strings (the first construction names it)"""
    out, seen = [], set()

    def add(tok, pre, post):
        s = pre + tok + post
        if s not in seen:
            seen.add(s)
            out.append((tok, pre, post, s))

    if tier == "thorough":
        for tok in J_LITERALS + J_OTHER:
            for pre in J_PRE:
                for post in J_POST:
                    add(tok, pre, post)
        for t1, t2 in itertools.product(J_LITERALS[:6] + J_OTHER[:3], repeat=2):      # two tokens in one text
            for sep in (", ", "], [", '", "'):
                for pre, post in (("", ""), ("[", "]"), (" ", ",")):
                    add(t1 + sep + t2, pre, post)
    else:
        for tok in J_LITERALS:
            for pre in J_PRE_Q:
                for post in J_POST_Q:
                    add(tok, pre, post)
        for tok in J_OTHER:
            for pre, post in J_PAIRS:
                add(tok, pre, post)
    return out


# position -> (declaration template with @D@ = default, @S@ = the text; state template; neutral default)
# (every template is source text; @S@ is replaced by repr(S))
J_POSITIONS = [
    ("String", "s", "param.String(default=@D@)", "@S@", "'zz'"),
    ("List-item", "l", "param.List(default=@D@)", "[@S@]", "[0]"),
    ("List-nested", "ln", "param.List(default=@D@)", "[[@S@, 1], 'plain', {'k': [@S@]}]", "[0]"),
    ("Dict-value", "dv", "param.Dict(default=@D@)", "{'k': @S@}", "{'z': 0}"),
    ("Dict-key", "dk", "param.Dict(default=@D@)", "{@S@: 1}", "{'z': 0}"),
    ("Dict-nested", "dn", "param.Dict(default=@D@)", "{'n': {@S@: [@S@]}}", "{'z': 0}"),
    ("Tuple-item", "t", "param.Tuple(default=@D@, length=2)", "(@S@, 1)", "(0, 0)"),
    ("Tuple-list", "tl", "param.Tuple(default=@D@, length=2)", "([@S@], 'z')", "(0, 0)"),
    ("Selector-value", "sel", "param.Selector(default=@D@, objects=['plain value', @S@])", "@S@", "'plain value'"),
    ("Selector{}-value", "sdv", "param.Selector(default=@D@, objects={'lab': @S@, 'other label': 'plain value'})",
     "@S@", "'plain value'"),
    ("Selector{}-label", "sdl", "param.Selector(default=@D@, objects={@S@: 'v', 'other label': 'plain value'})",
     "'v'", "'plain value'"),
    ("ListSelector-item", "ls", "param.ListSelector(default=@D@, objects=['plain value', @S@, 3])", "[@S@, 3]", "[]"),
    ("ListSelector{}-item", "lsd", "param.ListSelector(default=@D@, objects={'lab': @S@, 'other label': 3})",
     "[3, @S@]", "[]"),
]
J_NAME_POS = "instance-name"       # `name`, the String parameter every Parameterized has (instance levels only)


def j_decls(s, level, positions=None):
    """-> (declarations, values source) of the class holding `positions` (all when None) for the text s"""
    r = repr(s)
    decls, vals = {}, {}
    for pos, pname, tmpl, state, neutral in J_POSITIONS:
        if positions is not None and pos not in positions:
            continue
        st = state.replace("@S@", r)
        decls[pname] = tmpl.replace("@D@", st if level == "class" else neutral).replace("@S@", r)
        vals[pname] = st
    if level != "class" and (positions is None or J_NAME_POS in positions):
        vals["name"] = r
    if not decls:                      # the name alone: any class will do
        decls["s"] = "param.String(default='zz')"
    return decls, vals


def text_cases(args):
    """worker: all cases of a chunk of strings -> [(key, token, string, res or None, [located failures])]"""
    tier, chunk = args
    import logging
    import warnings
    from bounded import c15 as H
    logging.disable(logging.CRITICAL)
    warnings.simplefilter("ignore")
    out = []
    for tok, pre, post, s in chunk:
        classes = {}
        for level in H.LEVELS:
            decls, vals = j_decls(s, level)
            ck = level == "class"           # the two instance levels use the same class (a round trip leaves it alone)
            if ck not in classes:
                classes[ck] = H.make_class(decls)
            cls = classes[ck]
            values = {} if level == "class" else {k: H._ev(v) for k, v in vals.items()}
            for api in H.APIS:
                if tier != "thorough" and (level, api) == ("inst->class", "value"):
                    continue
                universe = list(decls) + (["name"] if "name" in vals else [])
                res = H.roundtrip(cls, values, level, api, universe=universe if api == "value" else None)
                located = []
                if res is not None:
                    # locate: every position alone (a fresh one-parameter class)
                    for pos in [p[0] for p in J_POSITIONS] + ([J_NAME_POS] if level != "class" else []):
                        d1, v1 = j_decls(s, level, [pos])
                        c1 = H.make_class(d1)
                        vv = {} if level == "class" else {k: H._ev(v) for k, v in v1.items()}
                        u1 = (["name"] if pos == J_NAME_POS else list(d1))
                        r1 = H.roundtrip(c1, vv, level, api, universe=u1 if api == "value" else None)
                        if r1 is not None:
                            located.append((pos, r1, d1, v1, u1 if api == "value" else None))
                out.append(((tok, pre, post, level, api), tok, s, res, located, decls, vals,
                            universe if api == "value" else None))
    return out


CL_J = "C15/text-payload/any-text-round-trips-verbatim"


def run_text(B, tier, seed, H):
    from concurrent.futures import ProcessPoolExecutor
    grid = text_grid(tier)
    nw = 8
    chunks = [grid[i::nw * 4] for i in range(nw * 4)]
    jobs = [(tier, c) for c in chunks if c]
    try:
        # clean worker processes (spawned, not forked): nothing the parts before did to the library is inherited
        import multiprocessing
        with ProcessPoolExecutor(max_workers=nw, mp_context=multiprocessing.get_context("spawn")) as ex:
            results = list(ex.map(text_cases, jobs))
    except (OSError, AssertionError):          # no worker processes available: in-process
        results = [text_cases(j) for j in jobs]
    rows = [r for res in results for r in res]
    order = {s: i for i, (_, _, _, s) in enumerate(grid)}
    rows.sort(key=lambda r: (order[r[2]], H.LEVELS.index(r[0][3]), H.APIS.index(r[0][4])))
    reported = {}
    n = 0
    for key, tok, s, res, located, decls, vals, universe in rows:
        level, api = key[3], key[4]
        B.case(key=("J",) + key)
        n += 1
        B.checked("%s[%s,%s]" % (CL_J, api, level), len(decls) + (1 if "name" in vals else 0))
        if res is None:
            continue
        if not located:
            # fails only with all positions in one object
            located = [("all-positions-in-one-object", res, decls, vals, universe)]
        for pos, (kind, detail), d1, v1, u1 in located:
            # one witness per (position, kind of failure): the first string in grid order stands for the others
            k = (pos, kind.split("@")[0])
            if k not in reported:
                witness = "part=J position=%s kind=%s token=%s text=%r level=%s api=%s" % (
                    pos, kind, tok or "<empty>", s, level, api)
                reported[k] = witness
                B.violation(CL_J, witness, detail,
                            H.make_replay(CL_J, witness, d1, {} if level == "class" else v1, level, api,
                                          universe=u1))
            else:
                B.violation(CL_J, reported[k], detail)
    B.sample({"part": "J", "strings": len(grid), "positions": [p[0] for p in J_POSITIONS] + [J_NAME_POS],
              "cases (string x level x api, all positions in one object)": n,
              "examples": [g[3] for g in grid[40:46]]}, limit=16)
    if tier != "thorough":
        B.note("quick: part J uses the 9x9 prefix/suffix grid for the JSON literals, the non-standard constants and "
               "the empty token, and 12 matching prefix/suffix pairs for the other 11 tokens (%d strings; thorough: the "
               "full 12x12 grid for all 18 tokens + two-token strings), x 5 of the 6 level/api combinations (not: instance "
               "serialised, class deserialises, value api)" % len(grid))


# ---------------------------------------------------------------------------------------------------
# part K: sequences of calls; the core is source text (driver processes and replays embed it)
# ---------------------------------------------------------------------------------------------------
CORE_K_SRC = r'''
import os

# class -> (base, {parameter: (declaration template, default source)}); the model reads the defaults from here
K_DECLS = {
    'P': (None, {'a': ('param.NumericTuple(default=%s)', '(1, 2)'),
                 'b': ('param.String(default=%s)', "'pb'"),
                 'c': ('param.Date(default=%s)', 'dt.datetime(2001, 2, 3, 4, 5, 6, 7)'),
                 'd': ('param.List(default=%s)', '[0]')}),
    'Q': (None, {'a': ('param.Number(default=%s)', '0.25'),
                 'b': ('param.String(default=%s)', "'qb'"),
                 'e': ('param.Dict(default=%s)', "{'z': 0}")}),
    'R': ('P', {'f': ('param.CalendarDate(default=%s)', 'dt.date(2001, 2, 3)')}),
}
# source -> (class, None = the class itself | constructor arguments as source text)
K_OBJECTS = {
    'p1': ('P', {'name': "'p1'", 'a': '(3, 4.5)', 'b': "'one'", 'c': 'dt.datetime(2021, 2, 3, 4, 5, 6, 7)',
                 'd': "['x', [1]]"}),
    'p2': ('P', {'name': "'p2'", 'a': '(7, 8)', 'b': "'two'", 'c': 'dt.datetime(1999, 12, 31, 23, 59, 59, 999999)',
                 'd': '[]'}),
    'q1': ('Q', {'name': "'q1'", 'a': '2.5', 'b': "'three'", 'e': "{'k': [1, 2]}"}),
    'r1': ('R', {'name': "'r1'", 'a': '(0, -1)', 'b': "'four'", 'c': 'dt.datetime(2020, 1, 2)', 'd': '[None]',
                 'f': 'dt.date(2020, 1, 2)'}),
    'P': ('P', None),
    'Q': ('Q', None),
}


def k_defaults(cname):
    base, ds = K_DECLS[cname]
    out = dict(k_defaults(base)) if base else {}
    out.update({n: d for n, (t, d) in ds.items()})
    return out


def k_model(src):
    """reference state of a source: {parameter name: source text of its value}"""
    cname, vals = K_OBJECTS[src]
    out = {'name': repr(cname)}
    out.update(k_defaults(cname))
    out.update(vals or {})
    return out


def k_world():
    """fresh classes and objects"""
    ns = {'param': param, 'dt': dt}
    for cname, (base, ds) in K_DECLS.items():
        body = {n: eval(t % d, ns) for n, (t, d) in ds.items()}
        ns[cname] = type(cname, (ns[base] if base else param.Parameterized,), body)
    objs = {}
    for src, (cname, vals) in K_OBJECTS.items():
        objs[src] = ns[cname] if vals is None else ns[cname](**{n: eval(s, ns) for n, s in vals.items()})
    return ns, objs


def k_expected(step):
    """step = (source, api, serialising subset | parameter name, deserialising subset, namespace)
    -> {name: source text} the result of the step has to carry (reference model)"""
    src, api, ss, ds, where = step
    model = k_model(src)
    if api == 'value':
        return {ss: model[ss]}
    want = set(model) if ss is None else set(ss)
    if ds is not None:
        want &= set(ds)
    return {n: model[n] for n in want}


K_ORDER_NAMES = ('at-once', 'ser-first', 'ser-first-reversed')


def k_ops(n, order):
    """order of the calls: S = serialize step i, D = deserialize the text of step i; a name or an explicit list"""
    if order == 'at-once':
        return [[o, i] for i in range(n) for o in 'SD']
    if order == 'ser-first':
        return [['S', i] for i in range(n)] + [['D', i] for i in range(n)]
    if order == 'ser-first-reversed':
        return [['S', i] for i in range(n)] + [['D', i] for i in reversed(range(n))]
    if isinstance(order, (list, tuple)):
        return [[o, i] for o, i in order]
    raise ValueError(order)


def k_order_name(n, order):
    """the name of an explicit list of calls when it has one"""
    for name in K_ORDER_NAMES:
        if k_ops(n, order) == k_ops(n, name):
            return name
    return [[o, i] for o, i in order]


def k_concat(histories):
    """several histories one after the other as ONE history (explicit list of calls)"""
    steps, ops = [], []
    for st, od in histories:
        ops += [[o, i + len(steps)] for o, i in k_ops(len(st), od)]
        steps += [list(x) for x in st]
    return steps, ops


def k_drop(steps, order, j):
    """the history without step j"""
    ops = [[o, i - (i > j)] for o, i in k_ops(len(steps), order) if i != j]
    rest = steps[:j] + steps[j + 1:]
    return rest, k_order_name(len(rest), ops)


def k_check(ns, step, result):
    """compare the kept result of a step with the reference model -> None or (kind, detail)"""
    src, api, ss, ds, where = step
    cls = ns[K_OBJECTS[src][0]]
    exp = {n: eval(s, {'dt': dt, 'param': param}) for n, s in k_expected(step).items()}
    stage = 'compare'
    try:
        if api == 'value':
            args = {ss: result}
        else:
            args = result
            if not isinstance(args, dict) or set(args) != set(exp):
                return ('keys', 'deserialised names %r, the payload and subset= of this call give %r' % (
                    sorted(args), sorted(exp)))
        for n in sorted(exp):
            if not deep_eq(exp[n], args[n]):
                return mismatch(n, exp[n], args[n])
        stage = 'construct'
        new = cls(**args)
        for n in sorted(exp):
            if not deep_eq(exp[n], getattr(new, n)):
                return mismatch(n + ' (rebuilt)', exp[n], getattr(new, n))
        return None
    except Exception as e:
        return ('exception:%s@%s' % (type(e).__name__, stage), '%s: %s' % (type(e).__name__, e))


def k_run(steps, order, trace=None, world=None):
    """-> None or {'kind', 'detail', 'step': index of the step whose result is wrong, 'at': index of the call
    after which it was found wrong}.  world: classes and objects nothing was done with yet (default: new ones)"""
    ns, objs = world or k_world()
    texts, results = {}, {}
    for at, (op, i) in enumerate(k_ops(len(steps), order)):
        step = tuple(steps[i])
        src, api, ss, ds, where = step
        obj = objs[src]
        stage = 'serialize' if op == 'S' else 'deserialize'
        try:
            if op == 'S':
                if api == 'value':
                    text = obj.param.serialize_value(ss)
                else:
                    text = obj.param.serialize_parameters(**({} if ss is None else {'subset': list(ss)}))
                texts[i] = text
                try:
                    js = strict_loads(text)
                except ValueError as e:
                    return {'kind': 'nonstandard-json', 'detail': '%s in %r' % (e, text), 'step': i, 'at': at}
                if api != 'value':
                    want = set(k_model(src)) if ss is None else set(ss)
                    if not isinstance(js, dict) or set(js) != want:
                        return {'kind': 'keys', 'step': i, 'at': at,
                                'detail': 'serialised names %r, requested %r' % (sorted(js), sorted(want))}
                if trace is not None:
                    trace.append('call %d: serialize step %d %r -> %s' % (at, i, step, text))
                continue
            de = (ns[K_OBJECTS[src][0]] if where == 'cls' else obj).param
            if api == 'value':
                results[i] = de.deserialize_value(ss, texts[i])
            else:
                results[i] = de.deserialize_parameters(texts[i], **({} if ds is None else {'subset': list(ds)}))
            if trace is not None:
                trace.append('call %d: deserialize step %d %r -> %r' % (at, i, step, results[i]))
        except Exception as e:
            return {'kind': 'exception:%s@%s' % (type(e).__name__, stage), 'detail': '%s: %s' % (type(e).__name__, e),
                    'step': i, 'at': at}
        # the result of this call, and the kept results of all earlier calls once more
        for j in [i] + [j for j in sorted(results) if j != i]:
            bad = k_check(ns, tuple(steps[j]), results[j])
            if bad is not None:
                kind, detail = bad
                if j != i:
                    kind = 'later:' + kind
                    detail += ' [the result of step %d was as expected when it was returned; found changed after ' \
                              'call %d = deserialization of step %d]' % (j, at, i)
                return {'kind': kind, 'detail': detail, 'step': j, 'at': at}
    return None


_k_pristine = []


def k_forked(histories):
    """run the histories one after the other in ONE forked copy of this process -> [result per history]
    (state the library keeps does not leak out of the copy; the classes and objects are built once, before the
    first fork: every copy starts with untouched ones)"""
    if not _k_pristine:
        import gc
        _k_pristine.append(k_world())
        gc.collect()
        gc.freeze()
    r, w = os.pipe()
    pid = os.fork()
    if pid == 0:
        code = 0
        try:
            os.close(r)
            out = []
            for steps, order in histories:
                try:
                    out.append(k_run(steps, order, None, _k_pristine[0]))
                except BaseException as e:
                    out.append({'kind': 'exception:%s@harness' % type(e).__name__, 'detail': repr(e),
                                'step': -1, 'at': -1})
            data = json.dumps(out).encode()
            while data:
                data = data[os.write(w, data):]
        except BaseException:
            code = 1
        finally:
            os._exit(code)
    os.close(w)
    buf = b''
    while True:
        chunk = os.read(r, 65536)
        if not chunk:
            break
        buf += chunk
    os.close(r)
    os.waitpid(pid, 0)
    if not buf:
        return [{'kind': 'crash', 'detail': 'the process running the histories died', 'step': -1, 'at': -1}
                for _ in histories]
    return json.loads(buf.decode())


def k_isolated(steps, order):
    """one history in its own forked copy"""
    return k_forked([(steps, order)])[0]


def k_base(kind):
    return kind.split('@')[0]


def k_shrink(steps, order, kind):
    """the shortest sub-history (steps dropped, simplest order) failing with the same kind of failure"""
    best = ([list(x) for x in steps], k_order_name(len(steps), k_ops(len(steps), order)))
    changed = True
    while changed:
        changed = False
        st, od = best
        cands = [k_drop(st, od, j) for j in range(len(st)) if len(st) > 1]
        if od != 'at-once':
            cands.append((st, 'at-once'))
        for cs, co in cands:
            r = k_isolated(cs, co)
            if r is not None and k_base(r['kind']) == k_base(kind):
                best, changed = (cs, co), True
                break
    return best


def k_batch(histories, budget):
    """histories [(index, steps, order)] run one after the other in one forked copy.  A history that fails there
    is run again alone: if it fails alone too, it is shrunk and reported by itself; if it only fails after the
    others, the histories before it belong to the failing input: an earlier history of the batch + the failing
    one (nearest first), else the whole batch up to it, run as ONE history, is shrunk and reported.
    -> [[index, steps, order, result]]"""
    out = []
    res = k_forked([(st, od) for _, st, od in histories])
    last_joint = None
    for pos, ((idx, steps, order), r) in enumerate(zip(histories, res)):
        if r is None:
            continue
        alone = k_isolated(steps, order)
        if alone is not None:
            cand, kind = (steps, order), alone['kind']
        else:
            if budget[0] <= 0:
                if last_joint is not None:
                    out.append([idx] + last_joint)
                continue
            budget[0] -= 1
            cand = None
            for e in range(pos - 1, -1, -1):
                joint = k_concat([(histories[e][1], histories[e][2]), (steps, order)])
                rj = k_isolated(*joint)
                if rj is not None:
                    cand, kind = joint, rj['kind']
                    break
            if cand is None:
                joint = k_concat([(h[1], h[2]) for h in histories[:pos + 1]])
                rj = k_isolated(*joint)
                if rj is None:          # not reproducible in a clean copy: nothing to report
                    continue
                cand, kind = joint, rj['kind']
        st, od = k_shrink(cand[0], cand[1], kind)
        r2 = k_isolated(st, od)
        if r2 is None:
            st, od = cand
            r2 = k_isolated(st, od)
            if r2 is None:
                continue
        if alone is None:
            last_joint = [st, od, r2]
        out.append([idx, st, od, r2])
    return out
'''

DRIVER_TAIL = r'''
if __name__ == '__main__':
    import sys, warnings, logging
    warnings.simplefilter('ignore')
    logging.disable(logging.CRITICAL)
    with open(sys.argv[1]) as f:
        job = json.load(f)
    histories, size = job['histories'], job['batch']
    out, budget = [], [job['joint_budget']]
    for k in range(0, len(histories), size):
        out += k_batch(histories[k:k + size], budget)
    with open(sys.argv[2], 'w') as f:
        json.dump(out, f)
'''

REPLAY_K = '''import warnings, logging
warnings.simplefilter('ignore')
logging.disable(logging.CRITICAL)
{core}
{corek}

# (source, api, serialising subset | parameter name, deserialising subset, deserialising namespace)
steps = {steps!r}
order = {order!r}       # at-once: every text is deserialized at once; ser-first: all serialized, then deserialized
trace = []
res = k_run(steps, order, trace)
print('\\n'.join(trace))
if res is not None:
    print('REPRODUCED: %s -- %s (result of step %d, checked after call %d)' % (
        res['kind'], res['detail'], res['step'], res['at']))
    sys.exit(1)
print('NOT-REPRODUCED')
sys.exit(0)
'''

CL_K = "C15/call-sequence/result-independent-of-other-calls"
K_ORDERS = ("at-once", "ser-first", "ser-first-reversed")
K_BATCH = 25        # histories run one after the other in one forked copy of the clean driver process

_K = {}


def _k_core(H):
    if not _K:
        ns = dict(H._CORE)
        exec(compile(CORE_K_SRC, "<c15-coreK>", "exec"), ns)
        _K.update(ns)
    return _K


def k_pool(H, tier):
    """the pool of steps (see the module text)"""
    K = _k_core(H)
    pool = []
    for src, (cname, vals) in K["K_OBJECTS"].items():
        names = [n for n in K["k_model"](src) if n != "name"]           # declaration order, base class first
        first2, last = names[:2], names[-1]
        variants = [("full", None, None), ("partial-payload", first2, None), ("de-subset", None, [names[1], last]),
                    ("both-subsets", [names[1], last], [last, names[0], "name"]), ("empty-payload", [], None),
                    ("empty-de-subset", None, [])]
        wheres = ["cls"] if vals is None else ["inst", "cls"]
        for vname, ss, ds in variants:
            for where in wheres:
                if tier != "thorough" and where == "cls" and vals is not None and vname not in ("full", "de-subset"):
                    continue
                pool.append((src, "parameters", ss, ds, where))
        vnames = [names[0], last] if tier == "thorough" else [last if src in ("p2", "q1", "r1", "Q") else names[0]]
        for pn in vnames:
            for where in (wheres if tier == "thorough" else wheres[:1]):
                pool.append((src, "value", pn, None, where))
    return pool


def step_text(step):
    src, api, ss, ds, where = step

    def sk(s):
        return "None" if s is None else "[" + ",".join(s) + "]"
    if api == "value":
        return "%s.value(%s)>%s" % (src, ss, where)
    return "%s.parameters(ser=%s,de=%s)>%s" % (src, sk(ss), sk(ds), where)


def k_relation(H, steps):
    """input-side relation between the steps of a (shrunk) history"""
    K = _k_core(H)
    if len(steps) == 1:
        return "single-call"
    srcs = [s[0] for s in steps]
    classes = [K["K_OBJECTS"][s][0] for s in srcs]
    if len(set(srcs)) == 1:
        rel = "same-source"
    elif len(set(classes)) == 1:
        rel = "same-class"
    elif set(classes) == {"P", "R"}:
        rel = "subclass"
    else:
        rel = "other-class"
    names = [set(K["k_expected"](tuple(s))) for s in steps]
    if all(n == names[0] for n in names):
        cover = "same-names"
    elif names[-1] < names[0]:
        cover = "later-covers-fewer"
    elif names[0] < names[-1]:
        cover = "later-covers-more"
    else:
        cover = "other-names"
    return rel + "/" + cover


def k_histories(H, tier, seed):
    pool = k_pool(H, tier)
    rnd = random.Random("K|%d" % seed)
    hist = []
    pairs = [[list(a), list(b)] for a in pool for b in pool]
    for p in pairs:
        hist.append((p, "at-once"))
        for od in K_ORDERS[1:]:
            if tier == "thorough" or rnd.random() < 0.125:
                hist.append((p, od))
    if tier == "thorough":
        ntri = 10000
    else:
        ntri = 150
    for _ in range(ntri):
        hist.append(([list(rnd.choice(pool)) for _ in range(3)], rnd.choice(K_ORDERS)))
    return pool, hist


def run_seq(B, tier, seed, H):
    K = _k_core(H)
    pool, hist = k_histories(H, tier, seed)
    nw = 8
    driver = "import sys, json\n" + H.CORE_SRC + CORE_K_SRC + DRIVER_TAIL
    work = tempfile.mkdtemp(prefix="c15_seq_")
    fails = []
    try:
        dpath = os.path.join(work, "driver.py")
        with open(dpath, "w") as f:
            f.write(driver)
        procs = []
        for w in range(nw):
            part = [(i, st, od) for i, (st, od) in enumerate(hist) if i % nw == w]
            if not part:
                continue
            ip, op = os.path.join(work, "in%d.json" % w), os.path.join(work, "out%d.json" % w)
            with open(ip, "w") as f:
                json.dump({'histories': part, 'batch': K_BATCH, 'joint_budget': 3}, f)
            procs.append((subprocess.Popen([sys.executable, dpath, ip, op], cwd=work, stdout=subprocess.PIPE,
                                           stderr=subprocess.PIPE, text=True), op))
        for pr, op in procs:
            _, err = pr.communicate()
            if pr.returncode != 0 or not os.path.exists(op):
                raise RuntimeError("part K driver failed: %s" % (err or "")[-1500:])
            with open(op) as f:
                fails += json.load(f)
    finally:
        for fn in os.listdir(work):
            os.unlink(os.path.join(work, fn))
        os.rmdir(work)
    failed = {idx: (st, od, res) for idx, st, od, res in fails}
    reported = {}
    for i, (steps, order) in enumerate(hist):
        B.case(key=("K", tuple(step_text(tuple(s)) for s in steps), order))
        B.checked(CL_K, len(steps) * (len(steps) + 1) // 2)
        if i not in failed:
            continue
        st, od, res = failed[i]
        st = [tuple(tuple(x) if isinstance(x, list) else x for x in s) for s in st]
        kind = res["kind"]
        ods = od if isinstance(od, str) else "calls:" + ",".join("%s%d" % (o, j) for o, j in od)
        # one witness per (kind of failure, relation of the calls of the shortest failing sub-history, apis)
        k = (kind.split("@")[0], k_relation(H, st), tuple(s[1] for s in st), ods)
        if k not in reported:
            witness = "part=K kind=%s relation=%s order=%s steps=%s" % (
                kind, k[1], ods, " ; ".join(step_text(s) for s in st))
            reported[k] = witness
            head = H.REPLAY_HEADER.format(prop="C15", name="replay_c15.py", clause=CL_K, witness=witness)
            B.violation(CL_K, witness, res["detail"],
                        head + REPLAY_K.format(core=H.CORE_SRC, corek=CORE_K_SRC,
                                               steps=[list(s) for s in st], order=od))
        else:
            B.violation(CL_K, reported[k], res["detail"])
    B.sample({"part": "K", "steps in the pool": len(pool), "histories": len(hist),
              "orders": list(K_ORDERS), "example": " ; ".join(step_text(tuple(s)) for s in hist[7][0])}, limit=18)
    if tier != "thorough":
        B.exhaustive = False
        B.note("quick: part K runs all ordered pairs of the %d-step pool with every text deserialized at once, a "
               "seeded 1/8 of the pairs under each of the two serialize-first orders and 150 seeded triples "
               "(thorough: the 80-step pool -- every subset variant through both namespaces, two value-api names per "
               "source --, all pairs x 3 orders + 10000 seeded triples); histories run %d at a time one after the other "
               "in a forked copy of a clean process, a failing one is re-run alone" % (len(pool), K_BATCH))
