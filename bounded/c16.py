"""Bounded stand-in layer for C16 -- serialized state always validates against the generated schema.

THIS LAYER NEEDS THE `jsonschema` PACKAGE, which exists only in the `python3-vt` interpreter
(Python 3.11; param is pure stdlib and imports fine there).  Run it with

    cd /verif && PYTHONPATH=/repo:/verif python3-vt -m bounded.run C16 --tier quick --seed 0 --out /tmp/c16.json

(under /venv/bin/python it still runs, using only the built-in draft-07 reading below, and says so
in a note; the verdicts are then not cross-validated.)

What is enumerated (DESIGN.md section 7, C16; sensitivity classes of section 6): for each of the 15
schema-supported types of the statement (Integer, Number, String, Boolean, Tuple, NumericTuple,
XYCoordinates, Range, Date, CalendarDate, List, Dict, Selector(+ObjectSelector), ListSelector,
ClassSelector) every constraint configuration of a fixed grid
  bounds (none / two-sided / one-sided / (None,None) / degenerate / non-integral / huge)
  x inclusive_bounds (all four) x length (0..3) x item_type / class_ (None, int, float, str, bool,
  list, dict, tuple, unions, a Parameterized class) x allowed objects (list, dict, mixed literal
  types, bools, non-literals, empty, grown through check_on_set=False) x allow_None x doc/label
and for each configuration
  * every *valid* lattice value (valid = in the declared bounds by the statement's reading AND
    accepted by the Parameter's own validator), at class level (value is the default) and at
    instance level (value passed to the constructor), None when allowed, bools held by numeric
    types (DESIGN.md section 9);
  * for Number/Integer: every out-of-bound probe (just below/above by one ulp or 1, exactly at an
    exclusive bound, far outside), all four inclusivity combinations, one-sided bounds.

  * List.item_type / ClassSelector.class_ RE-ASSIGNED after the declaration (on the class-level Parameter
    object or on the per-instance one), then values of the new type set and serialized: 5 (4) declared
    types x 11 new types (single classes, unions, unions whose members map to OVERLAPPING JSON types such
    as (int, float) with integral values) x allow_None x 12 histories (class / constructor / instance /
    update route, instance sharing the class Parameter, per-instance re-assignment and what the class
    shows afterwards, schema asked for BEFORE the re-assignment, re-assigned and back, class and instance
    re-assigned to different types); quick: a 1-in-5 slice chosen by seed.  A schema() that raises
    anything but Unserializable on such a state is reported as C16/schema/wellformed kind=raised.
    (Re-assignment to None -- "untyped" -- is not enumerated: on the pinned tree list_schema then calls
    class__schema(None), a TypeError; whether the stale deprecated alias slot `class_` is the user's or
    the library's business is debatable.)

Oracle (from the statement): (1) each entry of `param.schema()` and the object schema
`{'type': 'object', 'properties': param.schema()}` is a well-formed draft-07 JSON Schema that uses
only JSON-Schema keywords and the seven JSON type names; (2) `json.loads(serialize_parameters())`
validates against it; (3) a JSON number outside the declared hard bounds is rejected.
Verdicts come from `jsonschema.Draft7Validator` (`check_schema` for well-formedness, `format` as
annotation, i.e. no format checker) and are cross-validated on every case against the small
independent draft-07 reading in CORE_SRC (which is also what the replay scripts fall back to when
`jsonschema` cannot be imported); a disagreement of the two is never reported as a violation of
param but as a note.  States whose serialisation itself fails (not JSON-representable) and
declarations for which `schema()` raises Unserializable/Unsafeserializable are outside the
statement ("types with JSON-schema support") and only counted as skipped.
"""
import itertools
import logging
import math
import random
import re
import warnings

from bounded._api import Bounded, REPLAY_HEADER

CORE_SRC = r'''
import datetime as dt
import json
import math
import param
try:
    import jsonschema
    from jsonschema import Draft7Validator
except ImportError:          # /venv/bin/python: fall back to the built-in draft-07 reading
    jsonschema = None

JSON_TYPES = ('null', 'boolean', 'object', 'array', 'number', 'string', 'integer')
KEYWORDS = {'$id', '$schema', '$ref', '$comment', 'title', 'description', 'default', 'readOnly',
            'examples', 'multipleOf', 'maximum', 'exclusiveMaximum', 'minimum', 'exclusiveMinimum',
            'maxLength', 'minLength', 'pattern', 'additionalItems', 'items', 'maxItems', 'minItems',
            'uniqueItems', 'contains', 'maxProperties', 'minProperties', 'required',
            'additionalProperties', 'definitions', 'properties', 'patternProperties', 'dependencies',
            'propertyNames', 'const', 'enum', 'type', 'format', 'contentMediaType',
            'contentEncoding', 'if', 'then', 'else', 'allOf', 'anyOf', 'oneOf', 'not'}
ANNOTATIONS = {'title', 'description', 'format', 'default', 'examples', '$comment', 'readOnly'}


class Unsupported(Exception):
    pass


def _isnum(x):
    return isinstance(x, (int, float)) and not isinstance(x, bool)


def is_type(j, t):
    if t == 'null': return j is None
    if t == 'boolean': return isinstance(j, bool)
    if t == 'object': return isinstance(j, dict)
    if t == 'array': return isinstance(j, list)
    if t == 'string': return isinstance(j, str)
    if t == 'number': return _isnum(j)
    if t == 'integer': return _isnum(j) and (isinstance(j, int) or j.is_integer())
    raise Unsupported('type %r' % (t,))


def json_equal(a, b):
    if isinstance(a, bool) or isinstance(b, bool):
        return isinstance(a, bool) and isinstance(b, bool) and a == b
    if _isnum(a) and _isnum(b):
        return a == b
    if isinstance(a, list) and isinstance(b, list):
        return len(a) == len(b) and all(json_equal(x, y) for x, y in zip(a, b))
    if isinstance(a, dict) and isinstance(b, dict):
        return set(a) == set(b) and all(json_equal(a[k], b[k]) for k in a)
    return type(a) is type(b) and a == b


def problems(schema, path='#'):
    """well-formedness of a draft-07 schema restricted to 'only JSON-Schema keywords/types'"""
    out = []
    if isinstance(schema, bool):
        return out
    if not isinstance(schema, dict):
        return ['%s: schema is %s, not an object' % (path, type(schema).__name__)]
    for k, v in schema.items():
        here = '%s/%s' % (path, k)
        if k not in KEYWORDS:
            out.append('%s: not a JSON-Schema keyword' % here)
        elif k == 'type':
            ts = v if isinstance(v, list) else [v]
            if (isinstance(v, list) and not v) or any(not isinstance(t, str) or t not in JSON_TYPES for t in ts):
                out.append('%s: %r is not a JSON type name' % (here, v))
        elif k in ('anyOf', 'allOf', 'oneOf'):
            if not isinstance(v, list) or not v:
                out.append('%s: must be a non-empty array of schemas, is %r' % (here, v))
            else:
                for i, s in enumerate(v):
                    out += problems(s, '%s/%d' % (here, i))
        elif k == 'enum':
            if not isinstance(v, list):
                out.append('%s: must be an array' % here)
        elif k in ('minimum', 'maximum', 'exclusiveMinimum', 'exclusiveMaximum'):
            if not _isnum(v) or (isinstance(v, float) and not math.isfinite(v)):
                out.append('%s: %r is not a (finite) number' % (here, v))
        elif k in ('minItems', 'maxItems'):
            if isinstance(v, bool) or not isinstance(v, int) or v < 0:
                out.append('%s: %r is not a non-negative integer' % (here, v))
        elif k == 'items':
            if isinstance(v, list):
                for i, s in enumerate(v):
                    out += problems(s, '%s/%d' % (here, i))
            else:
                out += problems(v, here)
        elif k in ('additionalItems', 'not', 'contains', 'if', 'then', 'else', 'additionalProperties',
                   'propertyNames'):
            out += problems(v, here)
        elif k == 'properties':
            if not isinstance(v, dict):
                out.append('%s: must be an object' % here)
            else:
                for n, s in v.items():
                    out += problems(s, '%s/%s' % (here, n))
        elif k in ('title', 'description', 'format', '$comment'):
            if not isinstance(v, str):
                out.append('%s: must be a string' % here)
    return out


def accepts(schema, j):
    """draft-07 meaning of the keyword subset param emits (format = annotation)"""
    if schema is True: return True
    if schema is False: return False
    for k, v in schema.items():
        if k in ANNOTATIONS:
            continue
        elif k == 'type':
            if not any(is_type(j, t) for t in (v if isinstance(v, list) else [v])): return False
        elif k == 'anyOf':
            if not any(accepts(s, j) for s in v): return False
        elif k == 'enum':
            if not any(json_equal(j, e) for e in v): return False
        elif k == 'minimum':
            if _isnum(j) and not j >= v: return False
        elif k == 'maximum':
            if _isnum(j) and not j <= v: return False
        elif k == 'exclusiveMinimum':
            if _isnum(j) and not j > v: return False
        elif k == 'exclusiveMaximum':
            if _isnum(j) and not j < v: return False
        elif k == 'minItems':
            if isinstance(j, list) and len(j) < v: return False
        elif k == 'maxItems':
            if isinstance(j, list) and len(j) > v: return False
        elif k == 'items':
            if isinstance(j, list):
                if isinstance(v, list):
                    if not all(accepts(s, x) for s, x in zip(v, j)): return False
                    extra = schema.get('additionalItems', True)
                    if not all(accepts(extra, x) for x in j[len(v):]): return False
                elif not all(accepts(v, x) for x in j): return False
        elif k == 'additionalItems':
            pass            # inert unless `items` is an array of schemas (handled there)
        elif k == 'properties':
            if isinstance(j, dict):
                for n, s in v.items():
                    if n in j and not accepts(s, j[n]): return False
        else:
            raise Unsupported('keyword %r' % k)
    return True


def wellformed(schema):
    """-> (verdict, reasons, note): jsonschema's check_schema + keyword/type-name scan"""
    mine = problems(schema)
    note = None
    if jsonschema is not None:
        try:
            Draft7Validator.check_schema(schema)
            theirs = []
        except jsonschema.exceptions.SchemaError as e:
            theirs = ['jsonschema: %s at %s' % (e.message, '/'.join(map(str, e.absolute_path)))]
        structural = [p for p in mine if 'not a JSON-Schema keyword' not in p]
        if bool(theirs) != bool(structural):
            note = 'xcheck(wellformed): jsonschema=%r own=%r schema=%r' % (theirs, structural, schema)
            return None, theirs + mine, note
        return (not mine and not theirs), theirs + mine, None
    return (not mine), mine, None


def validates(schema, j):
    """-> (verdict or None when the two readings disagree, reasons, note)"""
    try:
        mine = accepts(schema, j)
    except Exception as e:           # ill-formed schema or unsupported keyword
        mine = None
    if jsonschema is not None:
        try:
            errs = [e.message for e in Draft7Validator(schema).iter_errors(j)]
            theirs = not errs
        except Exception as e:
            return None, [], 'xcheck(validate): jsonschema raised %s: %s on %r' % (type(e).__name__, e, schema)
        if mine is not None and mine != theirs:
            return None, errs, 'xcheck(validate): jsonschema=%r own=%r schema=%r instance=%r' % (theirs, mine, schema, j)
        return theirs, errs, None
    return mine, [], None


def in_bounds(v, bounds, inclusive):
    """the statement's reading of hard bounds with per-side inclusivity"""
    if bounds is None:
        return True
    lo, hi = bounds
    if lo is not None and not (v >= lo if inclusive[0] else v > lo):
        return False
    if hi is not None and not (v <= hi if inclusive[1] else v < hi):
        return False
    return True


def check_state(cls, value, level):
    """Drive the real code: schema of the class/instance, serialized state, verdicts.
    -> list of (clause, kind, detail); [] when everything holds; None when out of scope."""
    src = cls if level == 'class' else cls(x=value)
    return check_src(src)


def check_history(cls, ops, level):
    """Apply a history of value assignments, then check the resulting state like check_state.
    ops: list of (route, value) with route 'kwarg' (constructor argument, must come first),
    'inst' (instance attribute), 'update' (inst.param.update), 'class' (class attribute).
    level: 'class' -> schema/state of the class, 'instance' -> of the instance."""
    inst = None
    for route, v in ops:
        if route == 'kwarg':
            inst = cls(x=v)
            continue
        if route == 'class':
            cls.x = v
            continue
        if inst is None:
            inst = cls()
        if route == 'inst':
            inst.x = v
        else:
            inst.param.update(x=v)
    if level == 'instance' and inst is None:
        inst = cls()
    return check_src(cls if level == 'class' else inst)


def check_retype(cls, ops, level, attr):
    """History in which the item type (List.item_type / ClassSelector.class_) is RE-ASSIGNED on the
    Parameter object after the declaration, then values of the new type are set; the final state is
    checked like check_state.  ops:
      ('schema', 'class'|'inst')        ask for the schema first (result dropped: a stale cache shows up)
      ('new',) / ('kwarg', v)           create the instance (without / with the constructor argument)
      ('retype', 'class'|'inst', T)     setattr(P.param.x | inst.param.x, attr, T)
      ('class', v) / ('inst', v) / ('update', v)    assign the value
    level: 'class' -> schema/state of the class, 'instance' -> of the instance."""
    inst = None
    for op in ops:
        k = op[0]
        if k == 'new':
            inst = cls()
        elif k == 'kwarg':
            inst = cls(x=op[1])
        elif k == 'schema':
            try:
                (cls if op[1] == 'class' else inst).param.schema()
            except Exception:
                pass
        elif k == 'retype':
            setattr(cls.param.x if op[1] == 'class' else inst.param.x, attr, op[2])
        elif k == 'class':
            cls.x = op[1]
        elif k == 'inst':
            inst.x = op[1]
        elif k == 'update':
            inst.param.update(x=op[1])
        else:
            raise RuntimeError('unknown op %r' % (op,))
    try:
        return check_src(cls if level == 'class' else inst)
    except (param.serializer.UnserializableException, param.serializer.UnsafeserializableException):
        raise
    except Exception as e:
        # every item type used by these histories has JSON-schema support: no schema at all is not a
        # well-formed schema
        return [('C16/schema/wellformed', 'raised', 'schema() raised %s: %s' % (type(e).__name__, e))]


def check_src(src):
    try:
        text = src.param.serialize_parameters()
        js = json.loads(text)
    except Exception as e:
        return None                       # state not JSON-representable: nothing is claimed
    schema = src.param.schema()           # exceptions here other than Unserializable propagate
    out = []
    full = {'type': 'object', 'properties': schema}
    ok, why, note = wellformed(full)
    if note: out.append(('note', 'xcheck', note))
    if ok is False:
        out.append(('C16/schema/wellformed', 'illformed', '; '.join(why) + ' -- schema[x]=%r' % (schema.get('x'),)))
    ok2, errs, note = validates(full, js)
    if note: out.append(('note', 'xcheck', note))
    if ok2 is False:
        out.append(('C16/valid-state/accepted', 'rejected',
                    'serialized %s rejected by schema[x]=%r: %s [failing-keywords=%s]'
                    % (text, schema.get('x'), '; '.join(errs), failing_keywords(schema.get('x'), js.get('x')))))
    # the per-parameter route must agree with the object route
    ps = src.param.objects('existing')['x'].schema()
    ok3, errs3, note = validates(ps, js['x'])
    if note: out.append(('note', 'xcheck', note))
    if ok3 is False and ok2 is not False:
        out.append(('C16/valid-state/accepted', 'rejected',
                    'serialized value %r rejected by Parameter.schema() %r: %s' % (js['x'], ps, '; '.join(errs3))))
    return out


def failing_keywords(schema, j):
    """which top-level keywords of the parameter's schema reject the value (sorted, '+'-joined)"""
    if not isinstance(schema, dict):
        return '?'
    core = {k: v for k, v in schema.items() if k not in ANNOTATIONS}
    if (j is not None and set(core) == {'anyOf'} and isinstance(core['anyOf'], list) and len(core['anyOf']) == 2
            and core['anyOf'][1] == {'type': 'null'} and isinstance(core['anyOf'][0], dict)):
        return failing_keywords(core['anyOf'][0], j)       # look through the allow_None wrapper
    bad = []
    for k, v in schema.items():
        try:
            if not accepts({k: v}, j):
                bad.append(k)
        except Exception:
            bad.append(k + '?')
    return '+'.join(sorted(bad)) or '?'


def check_probe(cls, probe):
    """A JSON number outside the hard bounds must be rejected. -> list of (clause, kind, detail)"""
    schema = cls.param.schema()
    out = []
    full = {'type': 'object', 'properties': schema}
    js = json.loads(json.dumps({'x': probe}))
    ok, errs, note = validates(full, js)
    if note: out.append(('note', 'xcheck', note))
    if ok is True:
        out.append(('C16/out-of-bounds/rejected', 'accepted',
                    'number %r is outside the hard bounds but accepted by schema[x]=%r' % (probe, schema.get('x'))))
    return out


def check_instance_edit(cls, bounds, inclusive, value=None, probe=None):
    """per-instance edit of bounds: the *instance* schema must follow the instance Parameter"""
    inst = cls()
    inst.param.x.bounds = bounds
    inst.param.x.inclusive_bounds = inclusive
    out = []
    if probe is not None:
        schema = inst.param.schema()
        ok, errs, note = validates({'type': 'object', 'properties': schema}, {'x': probe})
        if note: out.append(('note', 'xcheck', note))
        if ok is True:
            out.append(('C16/out-of-bounds/rejected', 'accepted',
                        'number %r is outside the instance bounds %r/%r but accepted by the instance schema[x]=%r'
                        % (probe, bounds, inclusive, schema.get('x'))))
        return out
    inst.x = value
    schema = inst.param.schema()
    text = inst.param.serialize_parameters()
    ok, errs, note = validates({'type': 'object', 'properties': schema}, json.loads(text))
    if note: out.append(('note', 'xcheck', note))
    if ok is False:
        out.append(('C16/valid-state/accepted', 'rejected',
                    'serialized %s rejected by instance schema[x]=%r: %s' % (text, schema.get('x'), '; '.join(errs))))
    return out
'''

_CORE = {}
exec(compile(CORE_SRC, "<c16-core>", "exec"), _CORE)
param = _CORE["param"]
dt = _CORE["dt"]
in_bounds = _CORE["in_bounds"]
check_state = _CORE["check_state"]
check_probe = _CORE["check_probe"]
check_instance_edit = _CORE["check_instance_edit"]
check_history = _CORE["check_history"]
check_retype = _CORE["check_retype"]
HAVE_JSONSCHEMA = _CORE["jsonschema"] is not None


class C16Item(param.Parameterized):
    """a Parameterized class used as item_type / class_ (schema by recursion)"""
    q = param.Integer(default=1, bounds=(0, 5))


_EVAL_NS = {"param": param, "dt": dt, "C16Item": C16Item, "NoneType": type(None)}
ITEM_SRC = ("class C16Item(param.Parameterized):\n    q = param.Integer(default=1, bounds=(0, 5))\n"
            "NoneType = type(None)\n")


def _ev(src):
    return eval(src, dict(_EVAL_NS))


def make_class(decl):
    return type("C16Case", (param.Parameterized,), {"x": _ev(decl)})


REPLAY_BODY = '''import warnings, logging
warnings.simplefilter('ignore')
logging.disable(logging.CRITICAL)
# verdicts: jsonschema.Draft7Validator when importable (python3-vt), else the draft-07 reading below
{core}
{item}
class C16Case(param.Parameterized):
    x = {decl}

want = {want!r}
{call}
hits = [r for r in res or [] if (r[0], r[1]) == want]
if hits:
    print('REPRODUCED: %s [%s] -- %s' % hits[0])
    sys.exit(1)
print('NOT-REPRODUCED')
sys.exit(0)
'''


def make_replay(clause, witness, decl, kind, value_src=None, level=None, probe_src=None, edit=None, ops_src=None,
                retype_attr=None):
    head = REPLAY_HEADER.format(prop="C16", name="replay_c16.py", clause=clause, witness=witness).replace("sys.path.insert(0, '/repo')", "import os\nsys.path.insert(0, os.environ.get('PYVC_REPO', '/repo'))      # (PYVC_REPO: a scratch copy of the library under test)")
    head = head.replace("PYTHONPATH=/repo /venv/bin/python",
                        "PYTHONPATH=/repo python3-vt   (or /venv/bin/python: built-in validator)")
    if retype_attr is not None:
        call = "res = check_retype(C16Case, %s, %r, %r)" % (ops_src, level, retype_attr)
    elif ops_src is not None:
        call = "res = check_history(C16Case, %s, %r)" % (ops_src, level)
    elif edit is not None:
        call = "res = check_instance_edit(C16Case, %r, %r, value=%s, probe=%s)" % (edit[0], edit[1], value_src, probe_src)
    elif probe_src is not None:
        call = "res = check_probe(C16Case, %s)" % probe_src
    else:
        call = "res = check_state(C16Case, %s, %r)" % (value_src, level)
    return head + REPLAY_BODY.format(core=CORE_SRC, item=ITEM_SRC, decl=decl, want=(clause, kind), call=call)


# --------------------------------------------------------------------------------------------
# configuration grids (source text)
# --------------------------------------------------------------------------------------------
INCL = [(True, True), (True, False), (False, True), (False, False)]
NONE_OPTS = [False, True]


def r(x):
    return repr(x)


def numeric_grid(tname, quick):
    """-> iterable of (dim, decl_template(default_src), cfgkey, bounds, incl, allow_None)"""
    if tname == "Number":
        bgrid = [None, (0, 10), (-1.5, 2.5), (0, None), (None, 10), (None, None), (3, 3), (0.1, 0.2),
                 (-2 ** 60, 2 ** 60), (None, -0.5), (1e-300, None), (0, 2.5), (0.5, 10), (-10, -0.5)]
    else:
        bgrid = [None, (0, 10), (-5, 5), (0, None), (None, 10), (None, None), (3, 3), (-2 ** 70, 2 ** 70),
                 (None, -1), (7, 8),
                 # NON-INTEGRAL float hard bounds of an Integer: the integers strictly between them are
                 # the valid states, the integers next to them on the outside are out of bounds
                 (0, 2.5), (0.5, 10), (-10, -0.5), (-2.5, 2.5), (0.5, None), (None, 2.5), (None, -0.5),
                 (-0.5, 0.5)]
    combos = [(b, inc, an) for b in bgrid for inc in (INCL if b is not None else INCL[:1]) for an in NONE_OPTS]
    if not quick:
        # thorough: 150 further pseudo-random bounds shapes per type (fixed generator, not seed dependent)
        rnd = random.Random(20261003 + len(tname))
        for _ in range(150):
            if tname == "Integer":
                lo = rnd.choice([rnd.randint(-1000, 1000), rnd.randint(-2 ** 65, 2 ** 65), 0])
                hi = lo + rnd.choice([0, 1, 2, rnd.randint(3, 10 ** 6)])
                if _ >= 100:         # the last 50 shapes: non-integral float bounds
                    lo = rnd.randint(-1000, 1000) + rnd.choice([0, 0.5, 0.25, -0.75])
                    hi = lo + rnd.choice([0.5, 1, 1.5, 2.25, rnd.randint(3, 10 ** 4) + 0.5])
            else:
                lo = rnd.choice([rnd.randint(-1000, 1000), rnd.uniform(-1e3, 1e3), rnd.uniform(-1, 1) * 1e-300,
                                 rnd.uniform(-1, 1) * 1e300, 0.0])
                hi = lo + rnd.choice([0, 1, 0.5, abs(lo) * 1e-15, rnd.uniform(0, 1e6), abs(lo)])
            side = rnd.random()
            b = (None, hi) if side < 0.15 else (lo, None) if side < 0.3 else (lo, hi)
            combos.append((b, rnd.choice(INCL), rnd.random() < 0.3))
    for b, inc, an in combos:
        extra = ""
        if b is not None:
            extra += ", bounds=%r" % (b,)
        if inc != (True, True):
            extra += ", inclusive_bounds=%r" % (inc,)
        if an:
            extra += ", allow_None=True"
        yield b, inc, an, extra


def number_values(tname, b, inc):
    """candidate valid values (filtered by the statement's in_bounds) with their class tags"""
    cands = []
    lo, hi = b if b is not None else (None, None)
    isint = tname == "Integer"

    def add(v, tag):
        if isint and (isinstance(v, float)):
            return
        cands.append((v, tag))
    if lo is not None:
        add(lo, "at-lo")
        add(lo + 1, "near-lo")
        if not isint:
            add(float(lo), "at-lo")
            add(math.nextafter(float(lo), math.inf), "near-lo")
    if hi is not None:
        add(hi, "at-hi")
        add(hi - 1, "near-hi")
        if not isint:
            add(float(hi), "at-hi")
            add(math.nextafter(float(hi), -math.inf), "near-hi")
    if lo is not None and hi is not None:
        add(int((lo + hi) // 2) if isint else (lo + hi) / 2, "interior")
    # the integers around each bound (equal to the bound itself when it is integral)
    for bnd, side in ((lo, "lo"), (hi, "hi")):
        if bnd is not None and math.isfinite(bnd) and abs(bnd) < 2 ** 52:
            fl, ce = math.floor(bnd), math.ceil(bnd)
            for k in sorted({fl - 1, fl, ce, ce + 1}):
                add(k, ("at-" if k == bnd else "near-") + side)
    for v in ([0, 1, -1, 5, 2 ** 62, -2 ** 62] if isint else
              [0, 1, -1, 5, 0.5, 0.15, -0.75, 1e308, -1e308, 5e-324, 1e-299, 2 ** 62, -2.0 ** 62]):
        add(v, "interior" if (lo is not None and hi is not None) else "free")
    add(True, "bool")
    add(False, "bool")
    seen, out = set(), []
    for v, tag in cands:
        k = (type(v).__name__, v)
        if k in seen or not in_bounds(v, b, inc):
            continue
        seen.add(k)
        out.append((v, tag))
    return out


def number_probes(tname, b, inc):
    lo, hi = b if b is not None else (None, None)
    cands = []
    if lo is not None:
        cands += [(lo, "at-lo-exclusive"), (float(lo), "at-lo-exclusive"), (lo - 1, "below-lo"),
                  (math.nextafter(float(lo), -math.inf), "below-lo"), (float(lo) - 0.5, "below-lo"),
                  (-1e308, "below-lo"), (-2 ** 80, "below-lo")]
    if hi is not None:
        cands += [(hi, "at-hi-exclusive"), (float(hi), "at-hi-exclusive"), (hi + 1, "above-hi"),
                  (math.nextafter(float(hi), math.inf), "above-hi"), (float(hi) + 0.5, "above-hi"),
                  (1e308, "above-hi"), (2 ** 80, "above-hi")]
    for bnd, below, above in ((lo, "below-lo", "at-lo-exclusive"), (hi, "at-hi-exclusive", "above-hi")):
        # the integers around each bound: an Integer schema must reject those outside
        if bnd is not None and math.isfinite(bnd) and abs(bnd) < 2 ** 52:
            fl, ce = math.floor(bnd), math.ceil(bnd)
            for k in sorted({fl - 1, fl, ce, ce + 1}):
                if bnd is lo:
                    cands.append((k, "at-lo-exclusive" if k == bnd else "below-lo"))
                else:
                    cands.append((k, "at-hi-exclusive" if k == bnd else "above-hi"))
    seen, out = set(), []
    for v, tag in cands:
        k = (type(v).__name__, v)
        if k in seen or in_bounds(v, b, inc):
            continue
        if isinstance(v, float) and not math.isfinite(v):
            continue
        seen.add(k)
        out.append((v, tag))
    return out


def other_configs():
    """-> list of (type, dim, decl template with {d}, [value sources])   (non-numeric types)"""
    out = []
    for an in NONE_OPTS:
        x = ", allow_None=True" if an else ""
        nn = ["None"] if an else []
        for rx in (None, "^a.*$"):
            e = x + ("" if rx is None else ", regex=%r" % rx)
            vals = ["'a'", "'abc'", "'a\\u00e9\\n'"] + ([] if rx else ["''", "'null'", "'1'"])
            out.append(("String", "regex=%s" % (rx is not None), "param.String(default={d}%s)" % e, vals + nn))
        out.append(("Boolean", "-", "param.Boolean(default={d}%s)" % x, ["True", "False"] + nn))
        for n, vals in ((0, ["()"]), (1, ["(1,)", "(None,)", "('a',)"]), (2, ["(1, 'a')", "([1], {'k': 2})", "(True, None)"]),
                        (3, ["(1, 2.5, 'x')", "((1, 2), [], None)"])):
            out.append(("Tuple", "length=%d" % n, "param.Tuple(default={d}, length=%d%s)" % (n, x), vals + nn))
        for n, vals in ((0, ["()"]), (1, ["(1,)", "(2.5,)"]), (2, ["(1, 2.5)", "(True, 1)", "(-1e308, 5e-324)"]),
                        (3, ["(1, 2, 3)", "(2**64, -0.5, 0)"])):
            out.append(("NumericTuple", "length=%d" % n, "param.NumericTuple(default={d}, length=%d%s)" % (n, x), vals + nn))
        out.append(("XYCoordinates", "-", "param.XYCoordinates(default={d}%s)" % x,
                    ["(0.0, 0.0)", "(1, 2)", "(-1.5, 1e308)"] + nn))
        for b in (None, (0, 10), (0, None), (None, 10), (-1.5, 2.5)):
            for inc in (INCL if b is not None else INCL[:1]):
                e = x + ("" if b is None else ", bounds=%r" % (b,)) + ("" if inc == (True, True) else ", inclusive_bounds=%r" % (inc,))
                vals = ["(1, 2)", "(0.5, 1.5)", "(1, 1)", "(2, 1)"]
                if b is not None:
                    lo, hi = b
                    lo_v = lo if lo is not None else -1e308
                    hi_v = hi if hi is not None else 1e308
                    if inc[0] and inc[1]:
                        vals.append("(%r, %r)" % (lo_v, hi_v))
                    elif inc[0]:
                        vals.append("(%r, %r)" % (lo_v, 2))
                    elif inc[1]:
                        vals.append("(%r, %r)" % (1, hi_v))
                out.append(("Range", "bounds=%r inclusive=%r" % (b, inc), "param.Range(default={d}%s)" % e, vals + nn))
        for b in (None, "(dt.datetime(2000, 1, 1), dt.datetime(2030, 1, 1))", "(dt.datetime(2000, 1, 1), None)"):
            e = x + ("" if b is None else ", bounds=%s" % b)
            out.append(("Date", "bounds=%s" % (b is not None), "param.Date(default={d}%s)" % e,
                        ["dt.datetime(2020, 1, 2, 3, 4, 5, 6)", "dt.datetime(2020, 1, 2)", "dt.date(2020, 1, 2)",
                         "dt.datetime(2000, 1, 1)"] + nn))
        for b in (None, "(dt.date(2000, 1, 1), dt.date(2030, 1, 1))"):
            e = x + ("" if b is None else ", bounds=%s" % b)
            out.append(("CalendarDate", "bounds=%s" % (b is not None), "param.CalendarDate(default={d}%s)" % e,
                        ["dt.date(2020, 1, 2)", "dt.date(2000, 1, 1)", "dt.date(2030, 1, 1)"] + nn))
        # List: item type x bounds
        items = [("None", ["[]", "[1]", "[1, 'a', None, 2.5, True, [1], {'k': 1}]"]),
                 ("int", ["[]", "[1]", "[1, -2**64]", "[True]"]),
                 ("float", ["[]", "[1.5]", "[1.0, -0.0, 5e-324]"]),
                 ("str", ["[]", "['a']", "['', 'b']"]),
                 ("bool", ["[]", "[True]", "[True, False]"]),
                 ("list", ["[]", "[[1]]", "[[], [1, 2]]"]),
                 ("dict", ["[]", "[{'k': 1}]", "[{}, {'a': [1]}]"]),
                 ("tuple", ["[]", "[(1, 2)]"]),
                 ("NoneType", ["[]", "[None]"]),
                 ("(int, str)", ["[]", "[1, 'a']", "[True]"]),
                 ("(int, float)", ["[]", "[1, 2.5]",
                                   # INTEGRAL values under a union whose members map to overlapping JSON
                                   # types (an integer is an `integer` and a `number`)
                                   "[1]", "[1.0]", "[2, 3]", "[2**64, 2.0]"]),
                 ("(float, int)", ["[1]", "[2.0, 3]", "[2.5]"]),
                 ("(int, float, str)", ["[1]", "[1, 2.0, 'a']"]),
                 ("(int, float, NoneType)", ["[1, None]", "[2.0]", "[3, 2.5, None]"]),
                 ("(int, int)", ["[1]", "[1, 2]"]),
                 ("(float, NoneType)", ["[]", "[1.5, None]"]),
                 ("C16Item", ["[]"])]
        for it, vals in items:
            for bnd in ("", ", bounds=(0, 3)", ", bounds=(1, None)"):
                vv = [v for v in vals if not (bnd == ", bounds=(1, None)" and v == "[]")]
                if it == "None" and bnd:
                    vv = [v for v in vv if len(_ev(v)) <= 3]
                e = ("" if it == "None" else ", item_type=%s" % it) + bnd + x
                out.append(("List", "item_type=%s" % it, "param.List(default={d}%s)" % e, vv + nn))
        out.append(("Dict", "-", "param.Dict(default={d}%s)" % x,
                    ["{}", "{'a': 1}", "{'a': [1, 2], 'b': {'c': None}}"] + nn))
        # Selector / ObjectSelector: allowed objects
        objs = [("literals", "[1, 'a', 2.5, None]", ["1", "'a'", "2.5", "None"]),
                ("single", "[1]", ["1"]),
                ("dict", "{'one': 1, 'two': 'b', 'three': 2.5}", ["1", "'b'", "2.5"]),
                ("floats-ints", "[1.0, 2, 3.5]", ["1.0", "2", "3.5"]),
                ("bools", "[True, False]", ["True", "False"]),
                ("int-bool", "[0, 1, True]", ["0", "1", "True"]),
                ("nonliteral", "[[1, 2], 'x', {'k': 1}]", ["[1, 2]", "'x'", "{'k': 1}"]),
                ("strings", "['', 'a', 'null']", ["''", "'a'", "'null'"])]
        for sel in ("Selector", "ObjectSelector"):
            for oname, osrc, vals in objs:
                for cos in ("", ", check_on_set=False"):
                    e = ", objects=%s%s%s" % (osrc, cos, x)
                    vv = list(vals) + (["99", "'new'"] if cos else [])
                    if an and "None" not in vv:
                        vv.append("None")
                    out.append((sel, "objects=%s%s" % (oname, "+unchecked" if cos else ""),
                                "param.%s(default={d}%s)" % (sel, e), vv))
            # no objects at all (the default declaration)
            out.append((sel, "objects=empty", "param.%s(default={d}%s)" % (sel, x), ["None"]))
            out.append((sel, "objects=empty", "param.%s(default={d}, objects=[]%s)" % (sel, x), ["None"]))
        for oname, osrc, vals in [("literals", "[1, 'a', 2.5]", ["[]", "[1]", "['a', 2.5]", "[2.5, 'a', 1]"]),
                                  ("single", "[1]", ["[]", "[1]"]),
                                  ("with-None", "[1, None]", ["[None]", "[1, None]"]),
                                  ("floats-ints", "[1.0, 2]", ["[1.0]", "[2, 1.0]"]),
                                  ("empty", "[]", ["[]"])]:
            out.append(("ListSelector", "objects=%s" % oname,
                        "param.ListSelector(default={d}, objects=%s%s)" % (osrc, x), vals + nn))
        # ClassSelector
        for c, vals in [("int", ["1", "-2**64", "True"]), ("float", ["1.5", "1.0", "5e-324"]), ("str", ["''", "'a'"]),
                        ("bool", ["True", "False"]), ("list", ["[]", "[1, 'a']"]), ("dict", ["{}", "{'a': [1]}"]),
                        ("tuple", ["()", "(1, 2)"]), ("NoneType", ["None"]), ("(int, str)", ["1", "'a'"]),
                        ("(int, float, str, NoneType)", ["1", "2.5", "'a'", "None"]), ("(list, dict)", ["[1]", "{'a': 1}"]),
                        # unions whose members map to overlapping JSON types, integral values
                        ("(int, float)", ["1", "1.0", "2.5", "-2**64"]), ("(float, int)", ["1", "2.0"]),
                        ("(int, float, str)", ["1", "2.0", "'a'"]), ("(int, int)", ["1"]),
                        ("C16Item", ["None"])]:
            vv = list(vals)
            if an and "None" not in vv:
                vv.append("None")
            if not an and c == "C16Item":
                continue
            out.append(("ClassSelector", "class_=%s" % c, "param.ClassSelector(default={d}, class_=%s%s)" % (c, x), vv))
    # doc / label decorations
    out.append(("Number", "doc+label", "param.Number(default={d}, bounds=(0, 10), doc='''first line\n        second line''', label='My label')",
                ["1", "2.5"]))
    out.append(("String", "doc+label", "param.String(default={d}, doc='a doc', label='')", ["'a'"]))
    return out


JSON_KIND = {int: "integer", float: "number", str: "string", type(None): "null", bool: "boolean"}


def admitted_configs(quick):
    """Selectors with check_on_set=False whose value is admitted AFTER the declaration.
    -> list of (type, style, decl, ops_src, level, vclass)
    style  'list' / 'dict' (how the objects were declared)
    ops    history of assignments (route, value) -- see check_history in CORE_SRC
    vclass 'admitted-sametype'  every admitted value has the JSON type of some declared object
           'admitted-newtype'   some admitted value has a JSON type no declared object has
           'declared'           the final value is a declared object (something else was admitted on the way)
    """
    out = []
    decls = [("list", "[1, 2]", (int,)), ("dict", "{'one': 1, 'two': 2}", (int,)),
             ("list", "['a', 'b']", (str,)), ("dict", "{'A': 'a', 'B': 'b'}", (str,)),
             ("list", "[1, 'a', 2.5]", (int, str, float)), ("dict", "{'one': 1, 'A': 'a', 'h': 2.5}", (int, str, float)),
             ("dict", "{'one': 1, 'none': None}", (int, type(None)))]
    admit = ["99", "'new'", "2.5", "None"]
    for sel in ("Selector", "ObjectSelector"):
        for style, osrc, types in decls:
            first = repr(list(_ev(osrc).values())[0] if style == "dict" else _ev(osrc)[0])
            for an in NONE_OPTS:
                decl = "param.%s(default=%s, objects=%s, check_on_set=False%s)" % (
                    sel, first, osrc, ", allow_None=True" if an else "")

                def vc(*srcs, final=None):
                    if final is not None and final == first:
                        return "declared"
                    return ("admitted-sametype" if all(type(_ev(x)) in types for x in srcs)
                            else "admitted-newtype")
                for a in admit:
                    for route, level in (("kwarg", "instance"), ("inst", "instance"), ("update", "instance"),
                                         ("class", "class"), ("class", "instance")):
                        out.append((sel, style, decl, "[(%r, %s)]" % (route, a), level, vc(a)))
                    # admitted, then back to a declared object: the admitted one stays allowed
                    out.append((sel, style, decl, "[('inst', %s), ('inst', %s)]" % (a, first), "instance", vc(a, final=first)))
                    out.append((sel, style, decl, "[('class', %s), ('class', %s)]" % (a, first), "class", vc(a, final=first)))
                for a, b2 in itertools.permutations(admit, 2):
                    out.append((sel, style, decl, "[('inst', %s), ('inst', %s)]" % (a, b2), "instance", vc(a, b2)))
                    out.append((sel, style, decl, "[('kwarg', %s), ('class', %s)]" % (a, b2), "instance", vc(a, b2)))
                    out.append((sel, style, decl, "[('class', %s), ('class', %s)]" % (a, b2), "class", vc(a, b2)))
    # ListSelector: lists naming unknown objects (also the same unknown object twice, known+unknown)
    for style, osrc, types in decls[:2] + decls[4:6]:
        known = repr(list(_ev(osrc).values())[0] if style == "dict" else _ev(osrc)[0])
        for an in NONE_OPTS:
            decl = "param.ListSelector(default=[%s], objects=%s, check_on_set=False%s)" % (
                known, osrc, ", allow_None=True" if an else "")
            for a in admit[:3]:
                cls_ = "admitted-sametype" if type(_ev(a)) in types else "admitted-newtype"
                for lst in ("[%s]" % a, "[%s, %s]" % (known, a), "[%s, %s]" % (a, a), "[%s, %s, %s]" % (a, known, a)):
                    for route, level in (("kwarg", "instance"), ("inst", "instance"), ("class", "class")):
                        out.append(("ListSelector", style, decl, "[(%r, %s)]" % (route, lst), level, cls_))
                out.append(("ListSelector", style, decl, "[('inst', [%s]), ('inst', [%s])]" % (a, known), "instance", "declared"))
    return out


RETYPE_NEW = [
    # (new type, class of the type, scalar values of it)   -- no bools (known defect C16-b02) and none of
    # the classes class__schema maps to `object` although they serialize otherwise (C16-b03)
    ("int", "single", ["1", "-2**64"]),
    ("float", "single", ["1.5", "1.0"]),
    ("str", "single", ["'a'", "''"]),
    ("dict", "single", ["{'k': 1}"]),
    ("NoneType", "single", ["None"]),
    ("(int, float)", "overlap", ["1", "1.0", "2.5", "2**64"]),
    ("(float, int)", "overlap", ["1", "2.0", "2.5"]),
    ("(int, str)", "union", ["1", "'a'"]),
    ("(str, NoneType)", "union", ["'a'", "None"]),
    ("(int, float, str)", "overlap", ["1", "2.0", "'a'"]),
    ("(int, float, NoneType)", "overlap", ["3", "None", "2.0"]),
]


def retype_configs():
    """List.item_type / ClassSelector.class_ RE-ASSIGNED after the declaration (class-level or per-instance
    Parameter object), then values of the new type set and serialized.
    -> list of (type, attr, decl, ops_src, level, vclass);  ops: see check_retype in CORE_SRC.
    Every history ends in a valid state BY CONSTRUCTION: the last value assigned through the Parameter
    that governs the checked object consists of instances of the type that Parameter was last given
    (and the real validator must accept every assignment, else the case is skipped)."""
    out = []
    declared = {
        "List": [("None", "[1, 'a']"), ("int", "[1]"), ("str", "['a']"), ("(int, str)", "[1, 'a']"), ("C16Item", "[]")],
        "ClassSelector": [("int", "1"), ("str", "'a'"), ("(int, str)", "'a'"), ("C16Item", "None")],
    }
    for tname, attr in (("List", "item_type"), ("ClassSelector", "class_")):
        for A, vA in declared[tname]:
            for an in NONE_OPTS:
                if tname == "ClassSelector" and vA == "None" and not an:
                    continue
                decl = "param.%s(default=%s%s%s)" % (
                    tname, vA, "" if A == "None" else ", %s=%s" % (attr, A), ", allow_None=True" if an else "")
                for B, bclass, scalars in RETYPE_NEW:
                    if B == A:
                        continue
                    if tname == "List":
                        vals = ["[%s]" % x for x in scalars] + (["[%s]" % ", ".join(scalars)] if len(scalars) > 1 else [])
                    else:
                        vals = list(scalars)
                    other = "float" if B != "float" else "str"
                    for v in vals:
                        rc, ri = "('retype', 'class', %s)" % B, "('retype', 'inst', %s)" % B
                        hs = [
                            ("class", "[%s, ('class', %s)]" % (rc, v), "class"),
                            ("class", "[%s, ('kwarg', %s)]" % (rc, v), "instance"),
                            ("class", "[%s, ('new',), ('inst', %s)]" % (rc, v), "instance"),
                            ("class-shared", "[('new',), %s, ('update', %s)]" % (rc, v), "instance"),
                            ("inst", "[('new',), %s, ('inst', %s)]" % (ri, v), "instance"),
                            ("inst", "[('new',), %s, ('update', %s)]" % (ri, v), "instance"),
                            # the class keeps its declared type and default
                            ("inst-leak", "[('new',), %s, ('inst', %s)]" % (ri, v), "class"),
                            # the schema was asked for before the re-assignment
                            ("class+asked", "[('schema', 'class'), %s, ('class', %s)]" % (rc, v), "class"),
                            ("inst+asked", "[('new',), ('schema', 'inst'), %s, ('inst', %s)]" % (ri, v), "instance"),
                            # re-assigned, then back to the declared type
                            ("class-back", "[%s, ('class', %s), ('retype', 'class', %s), ('class', %s)]" % (rc, v, A, vA), "class"),
                            ("inst-back", "[('new',), %s, ('inst', %s), ('retype', 'inst', %s), ('inst', %s)]" % (ri, v, A, vA),
                             "instance"),
                            # class-level Parameter re-assigned to one type, per-instance Parameter to another
                            ("class+inst", "[('retype', 'class', %s), ('new',), %s, ('inst', %s)]" % (other, ri, v), "instance"),
                        ]
                        for where, ops_src, level in hs:
                            if where.endswith("-back") and tname == "ClassSelector" and A == "None":
                                continue
                            out.append((tname, attr, decl, ops_src, level, "%s/%s" % (where, bclass)))
    return out


def value_tags(v):
    tags = set()

    def walk(x, depth):
        if x is None:
            tags.add("none" if depth == 0 else "none-item")
        elif isinstance(x, bool):
            tags.add("bool" if depth == 0 else "bool-item")
        elif isinstance(x, (list, tuple, dict)):
            if depth > 0:
                tags.add(type(x).__name__ + "-item")
            elif not x:
                tags.add("empty")
            for y in (x.values() if isinstance(x, dict) else x):
                walk(y, depth + 1)
    walk(v, 0)
    return ",".join(sorted(tags)) or "plain"


def run(tier, seed):
    # param's warnings / log output are silenced for the duration of the run and restored afterwards
    prev = logging.root.manager.disable
    logging.disable(logging.CRITICAL)
    try:
        with warnings.catch_warnings():
            warnings.simplefilter("ignore")
            return _run(tier, seed)
    finally:
        logging.disable(prev)


def _run(tier, seed):
    B = Bounded(
        "C16",
        rule=("one case = (type, constraint configuration, value or out-of-bound probe, level); distinct when "
              "any differ; a state case builds the class/instance on the real code, takes param.schema() and "
              "json.loads(serialize_parameters()) and asks jsonschema.Draft7Validator (cross-validated against an "
              "independent draft-07 reading) for well-formedness and acceptance; a probe case asks whether a "
              "JSON number outside the declared hard bounds is rejected"),
        bound=("15 types; Number/Integer: 10-11 bounds shapes x 4 inclusivity x allow_None x (<= 25 valid values "
               "x {class,instance} + <= 14 out-of-bound probes); String/Boolean/Tuple(len 0-3)/NumericTuple(len 0-3)/"
               "XYCoordinates/Range(5 bounds x 4 inclusivity)/Date/CalendarDate/List(13 item types x 3 bounds)/Dict/"
               "Selector+ObjectSelector(9 object sets x check_on_set)/ListSelector(5 object sets)/ClassSelector(12 "
               "class_ values) x allow_None x 1-8 valid values x {class,instance}; instance-level edit of the bounds "
               "(4 shapes x 4 inclusivity); Integer additionally 9 NON-INTEGRAL float bounds shapes (Number 3 more) with "
               "the integers floor-1..ceil+1 around each bound as valid values / out-of-bound probes; "
               "Selector/ObjectSelector/ListSelector(check_on_set=False, objects declared as list or dict, 7 object "
               "sets x allow_None) with values admitted AFTER the declaration (same / new JSON type; constructor, "
               "instance, update, class route; histories of 1-2 admissions, back to a declared object; lists naming "
               "an unknown object once / twice / mixed with known ones), quick: two-admission histories 1-in-3; "
               "List/ClassSelector additionally 5 unions with overlapping JSON types ((int, float), (float, int), "
               "(int, float, str), (int, float, NoneType), (int, int)) with integral values; List.item_type / "
               "ClassSelector.class_ RE-ASSIGNED after the declaration on the class-level or per-instance Parameter "
               "(5/4 declared types x 11 new types x allow_None x 1-5 values of the new type x 12 histories of "
               "length 2-5: class/kwarg/instance/update route, shared class Parameter, per-instance re-assignment, "
               "schema asked before, re-assigned and back, class and instance re-assigned differently = 5820 "
               "histories), quick: 1-in-5 slice by seed; "
               "thorough adds 150 pseudo-random bounds shapes per numeric type (Integer: 50 of them non-integral)"))
    if not HAVE_JSONSCHEMA:
        B.note("jsonschema not importable in this interpreter: verdicts come from the built-in draft-07 reading "
               "only (run under python3-vt for the cross-validated verdicts)")
    reported = {}
    skipped = {"invalid-declaration": 0, "not-serializable": 0, "no-schema-support": 0}
    Unser = (param.serializer.UnserializableException, param.serializer.UnsafeserializableException)

    def report(clause, tname, dim, vcls, kind, tail, detail, replay_kw):
        # one witness per (clause, type, discriminating dimension, value class, kind).  For the numeric
        # types the bounds/inclusivity shape is reported (first failing configuration, the grid starts
        # with the defaults) but does not multiply the witnesses of one defect.
        k = (clause, tname, dim if tname not in ("Number", "Integer", "Range") else "", vcls, kind)
        if k not in reported:
            witness = "type=%s dim=%s vclass=%s kind=%s %s" % (tname, dim, vcls, kind, tail)
            reported[k] = witness
            B.violation(clause, witness, detail, make_replay(clause, witness, kind=kind, **replay_kw))
        else:
            B.violation(clause, reported[k], detail)

    def handle(results, tname, dim, vcls, tail, replay_kw):
        for clause, kind, detail in results:
            if clause == "note":
                B.note(detail[:600])
                continue
            report(clause, tname, dim, vcls, kind, tail, detail, replay_kw)

    def state_cases(tname, dim, template, value_srcs, default_src=None, tagfn=None):
        """all values at class level and at instance level"""
        valid = []
        for vsrc in value_srcs:
            decl = template.replace("{d}", vsrc)
            try:
                # the statement quantifies over valid states: the Parameter's own validator decides
                # (asked on a throw-away class: Selector._validate may grow the objects list)
                make_class(decl).param.x._validate(_ev(vsrc))
                cls = make_class(decl)
            except Exception:
                skipped["invalid-declaration"] += 1
                continue
            valid.append(vsrc)
            vcls = tagfn(vsrc) if tagfn else value_tags(_ev(vsrc))
            B.case(key=("state", tname, template, vsrc, "class"))
            try:
                res = check_state(cls, _ev(vsrc), "class")
            except Unser:
                skipped["no-schema-support"] += 1
                continue
            B.checked("C16/schema/wellformed")
            B.checked("C16/valid-state/accepted")
            if res is None:
                skipped["not-serializable"] += 1
                continue
            handle(res, tname, dim, vcls, "decl=%s value=%s level=class" % (decl, vsrc),
                   dict(decl=decl, value_src=vsrc, level="class"))
        if not valid:
            return
        base = template.replace("{d}", default_src or valid[0])
        for vsrc in valid:
            try:
                cls = make_class(base)
                cls(x=_ev(vsrc))
            except Exception:
                skipped["invalid-declaration"] += 1
                continue
            vcls = tagfn(vsrc) if tagfn else value_tags(_ev(vsrc))
            B.case(key=("state", tname, template, vsrc, "instance"))
            try:
                res = check_state(cls, _ev(vsrc), "instance")
            except Unser:
                skipped["no-schema-support"] += 1
                continue
            B.checked("C16/schema/wellformed")
            B.checked("C16/valid-state/accepted")
            if res is None:
                skipped["not-serializable"] += 1
                continue
            handle(res, tname, dim, vcls, "decl=%s value=%s level=instance" % (base, vsrc),
                   dict(decl=base, value_src=vsrc, level="instance"))

    # ---------------------------------------------------------------- Number / Integer
    for tname in ("Number", "Integer"):
        for b, inc, an, extra in numeric_grid(tname, tier == "quick"):
            template = "param.%s(default={d}%s)" % (tname, extra)
            vals = number_values(tname, b, inc)
            if not vals:
                continue
            tagof = {r(v): tag for v, tag in vals}
            srcs = [r(v) for v, _ in vals] + (["None"] if an else [])
            dim = "bounds=%s inclusive=%s" % ("none" if b is None else
                                              "%s,%s" % tuple("open" if e is None else "set" for e in b),
                                              "%s,%s" % tuple("incl" if i else "excl" for i in inc))
            state_cases(tname, dim, template, srcs, tagfn=lambda s: tagof.get(s, "none"))
            # out-of-bound probes against the class whose default is the first valid value
            probes = number_probes(tname, b, inc)
            if probes:
                nonbool = [s for s in srcs if s not in ("True", "False", "None")] or srcs
                decl = template.replace("{d}", nonbool[0])
                try:
                    cls = make_class(decl)
                except Exception:
                    skipped["invalid-declaration"] += 1
                    continue
                for pv, ptag in probes:
                    B.case(key=("probe", tname, template, r(pv)))
                    res = check_probe(cls, pv)
                    B.checked("C16/out-of-bounds/rejected")
                    handle(res, tname, dim, ptag, "decl=%s probe=%r" % (decl, pv), dict(decl=decl, probe_src=r(pv)))
                if len(B.samples) < 3 and b is not None and b[0] is not None:
                    B.sample({"type": tname, "decl": decl, "valid_values": srcs[:8], "probes": [r(p) for p, _ in probes][:8]})
        # per-instance edit of the bounds: the instance schema must follow the instance Parameter
        for b, inc in itertools.product([(0, 10), (None, 3), (2, None), (0.5, 2.5)], INCL):
            decl = "param.%s(default=2)" % tname
            cls = make_class(decl)
            dim = "instance-bounds-edit"
            for v, tag in number_values(tname, b, inc):
                try:
                    res = check_instance_edit(cls, b, inc, value=v)
                except ValueError:
                    continue            # rejected by the instance validator: not a valid state
                B.case(key=("inst-edit", tname, b, inc, r(v)))
                B.checked("C16/valid-state/accepted")
                handle(res, tname, dim, tag, "decl=%s bounds=%r inclusive=%r value=%r level=instance" % (decl, b, inc, v),
                       dict(decl=decl, value_src=r(v), edit=(b, inc)))
            for pv, ptag in number_probes(tname, b, inc):
                B.case(key=("inst-edit-probe", tname, b, inc, r(pv)))
                res = check_instance_edit(cls, b, inc, probe=pv)
                B.checked("C16/out-of-bounds/rejected")
                handle(res, tname, dim, ptag, "decl=%s bounds=%r inclusive=%r probe=%r level=instance" % (decl, b, inc, pv),
                       dict(decl=decl, probe_src=r(pv), edit=(b, inc)))

    # ---------------------------------------------------------------- all other types
    for tname, dim, template, vals in other_configs():
        state_cases(tname, dim, template, vals)
        if len(B.samples) < 6 and tname in ("List", "Selector", "Range"):
            B.sample({"type": tname, "dim": dim, "decl": template, "values": vals})

    # ---------------------------------------------------------------- values admitted after the declaration
    adm = admitted_configs(tier == "quick")
    if tier == "quick":
        B.exhaustive = False
        # every single-admission history; the two-admission histories on a 1-in-3 slice chosen by seed
        adm = [c for i, c in enumerate(adm) if c[3].count("(") - 1 == 1 or (i + seed) % 3 == 0]
    for tname, style, decl, ops_src, level, vcls in adm:
        try:
            cls = make_class(decl)
            ops = _ev(ops_src)
        except Exception:
            skipped["invalid-declaration"] += 1
            continue
        B.case(key=("admitted", decl, ops_src, level))
        try:
            res = check_history(cls, ops, level)
        except Unser:
            skipped["no-schema-support"] += 1
            continue
        except (ValueError, TypeError):
            skipped["invalid-declaration"] += 1      # history rejected by the validator: not a valid state
            continue
        B.checked("C16/schema/wellformed")
        B.checked("C16/valid-state/accepted")
        if res is None:
            skipped["not-serializable"] += 1
            continue
        for clause, kind, detail in res:
            # the schema keyword(s) rejecting the state are part of the witness: different defects of the
            # same configuration class stay apart
            m = re.search(r"\[failing-keywords=([^\]]*)\]", detail)
            tail = "failing=%s decl=%s ops=%s level=%s" % (m.group(1) if m else "-", decl, ops_src, level)
            handle([(clause, kind, detail)], tname, "objects=%s+admitted" % style,
                   vcls + ("/" + m.group(1) if m else ""), tail, dict(decl=decl, ops_src=ops_src, level=level))

    # ---------------------------------------------------------------- item type re-assigned after the declaration
    rt = retype_configs()
    n_rt_all = len(rt)
    if tier == "quick":
        # 1-in-5 slice chosen by seed (12 histories per value: every history kind x type pair is met)
        rt = [c for i, c in enumerate(rt) if (i + seed) % 5 == 0]
    for tname, attr, decl, ops_src, level, vcls in rt:
        try:
            cls = make_class(decl)
            ops = _ev(ops_src)
        except Exception:
            skipped["invalid-declaration"] += 1
            continue
        B.case(key=("retype", decl, ops_src, level))
        try:
            res = check_retype(cls, ops, level, attr)
        except Unser:
            skipped["no-schema-support"] += 1
            continue
        except (ValueError, TypeError):
            skipped["invalid-declaration"] += 1      # an assignment rejected by the validator: not a valid state
            continue
        B.checked("C16/schema/wellformed")
        B.checked("C16/valid-state/accepted")
        if res is None:
            skipped["not-serializable"] += 1
            continue
        for clause, kind, detail in res:
            m = re.search(r"\[failing-keywords=([^\]]*)\]", detail)
            tail = "failing=%s decl=%s ops=%s level=%s" % (m.group(1) if m else "-", decl, ops_src, level)
            handle([(clause, kind, detail)], tname, "%s=reassigned" % attr,
                   vcls + ("/" + m.group(1) if m else ""), tail,
                   dict(decl=decl, ops_src=ops_src, level=level, retype_attr=attr))
    if len(B.samples) < 8 and rt:
        B.sample({"family": "retype", "explored": len(rt), "of": n_rt_all, "first": list(rt[0])}, limit=8)

    B.note("skipped (outside the statement): %r" % (skipped,))
    B.notes = sorted(set(B.notes))
    return B.result()
