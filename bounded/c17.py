"""Bounded stand-in layer for C17 -- copies and pickles are faithful and independent.

Run with

    cd /verif && PYTHONPATH=/repo:/verif /venv/bin/python -m bounded.run C17 --tier quick --seed 0 --out /tmp/c17.json

The model classes (importable module-level classes, as pickle needs), the operation alphabet, the
snapshot and the scenario runner live in `bounded/c17_classes.py`; that file's text is embedded
into every replay script, so layer and replay share one oracle.

What is enumerated (DESIGN.md section 7, C17; sensitivity classes of section 6):

  model class  Plain (parameters v, lst, dct, a (sub-object), s (Selector), constant k; watch=True
               dependencies on v and on lst/s) and Main(Plain) with an additional
               `depends('a.x', watch=True)` on the attached sub-object's parameter
  x pre-history (object state before the copy) over the alphabet
               {set, mut (in-place mutation of parameter values), pedit (per-instance Parameter edit:
               obj.param.v.bounds/doc), pmut (in-place growth of the instance Selector's objects),
               attach (sub-object), subset (set a parameter of the attached sub-object), watch (user
               watcher = bound method), watchfn (user watcher = module function), attr (ordinary
               attribute with mutable content)}
  slotted model classes  SlotFirst(SlotMixin, Plain) (plain mixin declaring __slots__ BEFORE the Parameterized
               base, plus a slot declared by the Parameterized subclass itself), SlotLast(Plain, SlotMixin) (mixin
               AFTER), SlotDeep(SlotMixin2(SlotMixin), Plain) (slots of a plain base and of its plain base),
               SlotSub(SlotFirst) (mixin deeper in the MRO); alphabets: pre {slot (fill every slot: lists and
               strings), slotpart (fill one slot, the others stay unset), attr (__dict__ attribute), set, watch},
               post {slot (grow / rebind / fill an unset slot), attr, set, mut}; the snapshot lists every slot of
               the MRO (value or <unset>) next to the __dict__ attributes
  x copy mechanism {copy.deepcopy, pickle protocol 2, 3, 4, 5}
  x post-history applied afterwards, first to the copy and then to the original, over
               {set, mut, pedit, pmut, attach, subset, attr, const (assign the constant), watch}.

Oracle (from the statement): the copy must succeed; right after it the copy's values, Parameter
attributes and ordinary attributes (incl. the invocation logs) equal the original's, the original
is unchanged and no mutable object is shared by identity; the driven side must then behave exactly
like an object that was never copied and went through the same history (values, Parameter
attributes, attributes, invocation logs of the depends/watch callbacks, outcome = exception class
of every operation: bounds edits enforced, constant still constant, dependencies on the sub-object
firing on the copy) while the other side stays exactly as it was.
"""
import concurrent.futures
import itertools
import logging
import multiprocessing
import os
import warnings

from bounded._api import Bounded, REPLAY_HEADER
from bounded import c17_classes as K

PRE = tuple(K.PRE_OPS)
POST = tuple(K.POST_OPS)
CLASSES = ("Plain", "Main")
SLOT_CLASSES = tuple(K.SLOT_CLASSES)
SLOT_PRE = tuple(K.SLOT_PRE_OPS)
SLOT_POST = tuple(K.SLOT_POST_OPS)
ALL_MECHS = K.MECHS


def pre_alphabet(cname):
    return SLOT_PRE if cname in SLOT_CLASSES else PRE


def post_alphabet(cname):
    return SLOT_POST if cname in SLOT_CLASSES else POST


def histories(alphabet, maxlen):
    for n in range(maxlen + 1):
        for h in itertools.product(alphabet, repeat=n):
            yield h


def is_subseq(a, b):
    it = iter(b)
    return all(x in it for x in a)


def mech_str(mechs):
    ms = sorted(mechs)
    out = [m for m in ms if not m.startswith("pickle")]
    ps = "".join(m[len("pickle"):] for m in ms if m.startswith("pickle"))
    if ps:
        out.append("pickle" + ps)
    return "+".join(out)


def hist_str(h):
    return ",".join(h) if h else "-"


# ------------------------------------------------------------------------------------------------
# worker
# ------------------------------------------------------------------------------------------------
def _init_worker():
    warnings.simplefilter("ignore")
    logging.disable(logging.CRITICAL)


def work(task):
    """task = (cname, pre, maxpost, mechs) -> counts and failures of all post-histories <= maxpost"""
    cname, pre, maxpost, mechs = task
    cases = 0
    checked = {}
    fails = []
    copy_failed = set()
    applicable = False
    for post in histories(post_alphabet(cname), maxpost):
        try:
            ref = K.reference(cname, pre, post)
        except Exception as e:
            # cannot happen on the pinned tree: the uncopied reference object itself cannot be built/driven
            # (e.g. Parameter.__getstate__, which param's own per-instance Parameter copies rely on, is broken)
            fails.append((cname, pre, post, mechs[0], "C17/model/reference-object-usable", type(e).__name__, "-",
                          "building the never-copied reference object through %r + %r raised %s: %s"
                          % (list(pre), list(post), type(e).__name__, e)))
            cases += 1
            applicable = True
            break
        if ref is None:
            continue                      # e.g. `subset` without an attached sub-object
        applicable = True
        for mech in mechs:
            if mech in copy_failed:
                continue                  # the copy itself fails: one case, not one per post-history
            cases += 1
            try:
                res = K.run_scenario(cname, pre, mech, post, "both", ref)
            except Exception as e:
                res = [("C17/model/reference-object-usable", type(e).__name__, "-",
                        "the scenario harness raised %s: %s" % (type(e).__name__, e))]
            for cl in ("C17/copy/succeeds", "C17/copy/equal-at-copy", "C17/copy/original-undisturbed",
                       "C17/copy/no-shared-mutable"):
                checked[cl] = checked.get(cl, 0) + 1
            if not (res and res[0][0].startswith(("C17/copy/", "C17/model/"))):
                checked["C17/after/faithful"] = checked.get("C17/after/faithful", 0) + 2
                checked["C17/after/independent"] = checked.get("C17/after/independent", 0) + 2
            for clause, dpath, side, detail in res:
                if clause == "C17/copy/succeeds":
                    copy_failed.add(mech)
                fails.append((cname, pre, post, mech, clause, dpath, side, detail))
    return {"task": (cname, pre), "cases": cases, "checked": checked, "fails": fails,
            "applicable": applicable, "clean": K.class_state_clean()}


# ------------------------------------------------------------------------------------------------
REPLAY_BODY = '''import warnings, logging
warnings.simplefilter('ignore')
logging.disable(logging.CRITICAL)
# ---- text of /verif/bounded/c17_classes.py (model classes, operations, snapshot, scenario) ----
{core}
# -----------------------------------------------------------------------------------------------
want = {want!r}
res = run_scenario({cname!r}, {pre!r}, {mech!r}, {post!r}, 'both')
hits = [r for r in res or [] if (r[0], r[1]) == want]
if hits:
    print('REPRODUCED: %s [%s] driving=%s -- %s' % hits[0])
    sys.exit(1)
print('NOT-REPRODUCED' + (' (other findings: %r)' % (res,) if res else ''))
sys.exit(0)
'''


def make_replay(clause, witness, cname, pre, mech, post, dpath):
    head = REPLAY_HEADER.format(prop="C17", name="replay_c17.py", clause=clause, witness=witness)
    with open(K.__file__.replace(".pyc", ".py")) as f:
        core = f.read()
    return head + REPLAY_BODY.format(core=core, want=(clause, dpath), cname=cname, pre=tuple(pre), mech=mech,
                                     post=tuple(post))


def run(tier, seed):
    # param's warnings / log output are silenced for the duration of the run and restored afterwards
    prev = logging.root.manager.disable
    logging.disable(logging.CRITICAL)
    try:
        with warnings.catch_warnings():
            warnings.simplefilter("ignore")
            return _run(tier, seed)
    finally:
        logging.disable(prev)


def plan(tier, seed):
    """-> list of tasks (cname, pre, maxpost, mechs), sampled flag, bound text"""
    tasks = []
    sampled = False
    if tier == "thorough":
        for cname in CLASSES:
            for pre in histories(PRE, 3):
                if len(pre) <= 2:
                    tasks.append((cname, pre, 2, ALL_MECHS))
                else:
                    tasks.append((cname, pre, 1, ALL_MECHS))
                    if len(set(pre)) == 3:
                        tasks.append((cname, pre, 2, ("deepcopy",)))
        for cname in SLOT_CLASSES:
            for pre in histories(SLOT_PRE, 3):
                tasks.append((cname, pre, 2 if len(pre) <= 2 else 1, ALL_MECHS))
        bound = ("4 slotted model classes x pre-histories <= 3 over 5 operations x post-histories (<= 2 for pre <= 2, "
                 "<= 1 for pre = 3) over 4 operations x {deepcopy, pickle 2,3,4,5}; "
                 "2 model classes x pre-histories <= 3 over 9 operations x post-histories over 9 operations: <= 2 "
                 "for pre <= 2 and <= 1 for pre = 3, with all of {deepcopy, pickle 2,3,4,5}; additionally deepcopy x "
                 "post-histories <= 2 for the pre-histories of 3 pairwise distinct operations; each post-history "
                 "applied to the copy and then to the original")
    else:
        for cname in CLASSES:
            for pre in histories(PRE, 2):
                tasks.append((cname, pre, 1, ALL_MECHS))
                if len(pre) <= 1:
                    tasks.append((cname, pre, 2, ("deepcopy", "pickle5")))
            pre3 = [h for h in histories(PRE, 3) if len(h) == 3]
            for i, pre in enumerate(pre3):
                if i % 16 == seed % 16:
                    tasks.append((cname, pre, 1, ("deepcopy", "pickle5")))
                    sampled = True
        for cname in SLOT_CLASSES:
            for pre in histories(SLOT_PRE, 2):
                tasks.append((cname, pre, 1, ("deepcopy", "pickle2", "pickle5")))
                if len(pre) <= 1:
                    tasks.append((cname, pre, 2, ("deepcopy", "pickle5")))
        bound = ("4 slotted model classes x {pre-histories <= 2 x post-histories <= 1 x {deepcopy, pickle 2, 5}; "
                 "pre-histories <= 1 x post-histories <= 2 x {deepcopy, pickle5}} over 5+4 operations (complete); "
                 "2 model classes x {pre-histories <= 2 x post-histories <= 1 x {deepcopy, pickle 2,3,4,5}; "
                 "pre-histories <= 1 x post-histories <= 2 x {deepcopy, pickle5}} over 9+9 operations (complete), plus "
                 "a seed-chosen sixteenth of the pre-histories of length 3 x post-histories <= 1 x {deepcopy, "
                 "pickle5}; each post-history applied to the copy and then to the original")
    # a task over post-histories <= 2 covers those <= 1: never run a (class, pre, mechanism, post) twice
    best = {}
    for cname, pre, maxpost, mechs in tasks:
        for m in mechs:
            k = (cname, pre, m)
            best[k] = max(best.get(k, 0), maxpost)
    regroup = {}
    for (cname, pre, m), maxpost in best.items():
        regroup.setdefault((cname, pre, maxpost), []).append(m)
    out = [(cname, pre, maxpost, tuple(sorted(ms))) for (cname, pre, maxpost), ms in regroup.items()]
    # most expensive tasks first (better balance over the worker processes); deterministic order
    out.sort(key=lambda t: (-(len(post_alphabet(t[0])) ** t[2]) * len(t[3]), t[0], len(t[1]), t[1], t[3]))
    return out, sampled, bound


def _run(tier, seed):
    tasks, sampled, bound = plan(tier, seed)
    B = Bounded(
        "C17",
        rule=("model classes: Plain / Main (parameters, dependencies, sub-object) and four slotted classes (ordinary "
              "attributes in __slots__ declared by plain mixins before / after / deeper than the Parameterized base "
              "and by the Parameterized subclass itself, next to __dict__ attributes); "
              "one case = (model class, pre-history, copy mechanism, post-history); the post-history is applied to "
              "the copy and then to the original and both objects are compared after each phase with an object "
              "that was never copied (values, Parameter attributes, ordinary attributes, invocation logs, operation "
              "outcomes); histories that are not applicable (`subset` without a sub-object) are not counted; when "
              "the copy itself raises, the (class, pre-history, mechanism) counts once"),
        bound=bound)
    if sampled:
        B.exhaustive = False
    nproc = max(1, min(16, len(os.sched_getaffinity(0)) if hasattr(os, "sched_getaffinity") else (os.cpu_count() or 1)))
    ctx = multiprocessing.get_context("fork")
    results = []
    with concurrent.futures.ProcessPoolExecutor(max_workers=nproc, mp_context=ctx, initializer=_init_worker) as ex:
        for r in ex.map(work, tasks, chunksize=1):
            results.append(r)

    groups = {}            # (clause, cname, dpath, side, pre, post) -> {mech: detail}
    unclean = 0
    for t, r in zip(tasks, results):
        cname, pre, maxpost, mechs = t
        if not r["clean"]:
            unclean += 1
        for cl, n in r["checked"].items():
            B.checked(cl, n)
        B.evaluations += r["cases"]
        for f in r["fails"]:
            cname, pre, post, mech, clause, dpath, side, detail = f
            groups.setdefault((clause, cname, dpath, side, pre, post), {})[mech] = detail
    # all executed cases are distinct by construction: the plan never repeats a (class, pre-history,
    # mechanism, post-history) combination
    distinct_cases = sum(r["cases"] for r in results)

    # ---- minimal witnesses: shortest failing (pre, post) of a class; longer ones are folded into it
    reported = []          # (clause, cname, dpath, side, pre, post, witness)
    order = sorted(groups, key=lambda g: (g[0], g[1], len(g[4]) + len(g[5]), len(g[4]), g[4], g[5], g[2], g[3]))
    for g in order:
        clause, cname, dpath, side, pre, post = g
        mechs = groups[g]
        fam = lambda ms: (any(m == "deepcopy" for m in ms), any(m.startswith("pickle") for m in ms))
        host = None
        for (c2, n2, d2, s2, p2, q2, w2, m2) in reported:
            if (c2, n2, d2, s2) == (clause, cname, dpath, side) and is_subseq(p2, pre) and is_subseq(q2, post) \
                    and all(a or not b for a, b in zip(fam(m2), fam(mechs))):
                host = w2
                break
        if host is not None:
            for _ in mechs:
                B.violation(clause, host)
            continue
        if clause == "C17/copy/succeeds":
            witness = "cls=%s pre=%s mech=%s kind=%s" % (cname, hist_str(pre), mech_str(mechs), dpath)
        else:
            witness = "cls=%s pre=%s post=%s driving=%s mech=%s diff=%s" % (
                cname, hist_str(pre), hist_str(post), side, mech_str(mechs), dpath)
        first = sorted(mechs)[0]
        B.violation(clause, witness, mechs[first], make_replay(clause, witness, cname, pre, first, post, dpath))
        for _ in list(mechs)[1:]:
            B.violation(clause, witness)
        reported.append((clause, cname, dpath, side, pre, post, witness, set(mechs)))

    if unclean:
        B.note("%d tasks left the model classes' own Parameters changed (per-instance state leaked into the class); "
               "the differential oracle stays self-consistent but see C12" % unclean)
    napp = sum(1 for r in results if r["applicable"])
    B.note("tasks=%d (class, pre-history, mechanisms) of which applicable=%d; worker processes=%d" % (
        len(tasks), napp, nproc))
    for cname, pre, mech, post in (("Plain", ("pedit", "attach", "subset"), "pickle4", ("set", "subset")),
                                   ("Main", (), "deepcopy", ("attach", "subset"))):
        try:
            r = K.run_scenario(cname, pre, mech, post, "both")
        except Exception as e:
            r = "harness raised %s" % type(e).__name__
        B.sample({"class": cname, "pre": list(pre), "mech": mech, "post": list(post), "findings": r})
    res = B.result()
    res["distinct_nontrivial"] = distinct_cases
    return res
