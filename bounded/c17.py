"""Bounded stand-in layer for C17 -- copies and pickles are faithful and independent.

Run with

    cd /verif && PYTHONPATH=/repo:/verif /venv/bin/python -m bounded.run C17 --tier quick --seed 0 --out /tmp/c17.json

The model classes (importable module-level classes, as pickle needs), the operation alphabet, the
snapshot and the scenario runner live in `bounded/c17_classes.py`; that file's text is embedded
into every replay script, so layer and replay share one oracle.

What is enumerated (DESIGN.md section 7, C17; sensitivity classes of section 6):

  model class  Plain (parameters v, lst, dct, a (sub-object), s (Selector), constant k; watch=True
               dependencies on v and on lst/s) and Main(Plain) with an additional
               `depends('a.x', watch=True)` on the attached sub-object's parameter
  x pre-history (object state before the copy) over the alphabet
               {set, mut (in-place mutation of parameter values), pedit (per-instance Parameter edit:
               obj.param.v.bounds/doc), pmut (in-place growth of the instance Selector's objects),
               attach (sub-object), subset (set a parameter of the attached sub-object), watch (user
               watcher = bound method), watchfn (user watcher = module function), attr (ordinary
               attribute with mutable content)}
  slotted model classes  SlotFirst(SlotMixin, Plain) (plain mixin declaring __slots__ BEFORE the Parameterized
               base, plus a slot declared by the Parameterized subclass itself), SlotLast(Plain, SlotMixin) (mixin
               AFTER), SlotDeep(SlotMixin2(SlotMixin), Plain) (slots of a plain base and of its plain base),
               SlotSub(SlotFirst) (mixin deeper in the MRO); alphabets: pre {slot (fill every slot: lists and
               strings), slotpart (fill one slot, the others stay unset), attr (__dict__ attribute), set, watch},
               post {slot (grow / rebind / fill an unset slot), attr, set, mut}; the snapshot lists every slot of
               the MRO (value or <unset>) next to the __dict__ attributes
  ordinary attributes  class Attr(Plain): every attribute name that is not one of param's own bookkeeping names
               (ATTR_NAMES: underscore-prefixed / private / name-mangled names, near-misses of `_param__private`,
               `_param_watchers`, `_instance__params`, ..., the slot names of the private namespace and of the Parameters
               accessor state, parameter names of other classes, odd but legal names) x value kinds (VALUE_KINDS:
               immutable incl. all falsy ones; mutable containers, bytearray, plain object, Parameterized sub-object;
               values referring back into the object: the object itself, the list that is a parameter's value, a bound
               method, a Watcher handle), set after construction (`attr:<name>=<kind>`, all names at once under a
               name->kind shift: `attrs:<shift>`) or before Parameterized.__init__ (`early:` / `earlys:`); post
               alphabet {amut (grow every mutable attribute value in place), aset (rebind), adel (delete), set, mut};
               copy mechanisms incl. pickle protocols 0 and 1.  A failure found with all names on one object is reduced
               to the single (name, kind) that exposes it (re-run) before it is reported.
  several parameters at once  class Multi(Plain): depends('p','q'), depends('p','q','r'), depends('p'), a
               watch='queued' dependency; alphabets: pre {upd2 (param.update of two parameters), setp, setw, watchm /
               watchfn2 (user watcher -- bound method / function -- on several parameters)}, post {upd2, upd3, updvp,
               batch2 (batch_call_watchers), trig2 (trigger of two parameters), setp, seteach, same (re-assign the
               current values: nothing may run), setw, watchm}
  copies in the middle of a dispatch  `cls=Multi ctx=<context>`: the copy is taken inside batch_call_watchers
               (nothing queued / events queued / nested), inside discard_events, inside a watcher callback (run by a
               plain assignment, by an update of several parameters, of a queued dependency, by trigger, a user
               watcher); oracle: the copy equals the original at the copy point; what the original still delivers
               when the context ends reaches the original only; afterwards the copy behaves like the never-copied
               object after the context -- the calls still pending at the copy point may or may not be made on it
  watcher callbacks of every callable shape x watcher precedence  class Wat(Plain): parameters p, q, acc; depends
               methods (precedence -1) on p, on q and on (p, q) with order-sensitive effects on acc; the operation
               `w:<shape>.<effect>@<precedence>:<parameters>` registers a value watcher with param.watch on the instance:
               shape in {meth (bound method of the instance), pbound (functools.partial around a bound method of the
               instance), pfunc (partial around a module-level function), lam (lambda closing over the instance;
               copy.deepcopy only -- not picklable), other (bound method of another, plain object whose method is named
               like one of the instance's), othersub (bound method of the attached Parameterized sub-object), cobj
               (callable object), cobjown (callable object that holds the instance and acts on it)} x effect {add1, mul2}
               (acc -> acc + 1 / 2 acc: the combined effect and the trace depend on the dispatch order) x precedence
               {0, 1, 2} x parameters {p, q, (p, q) as ONE watcher}; post alphabet {setp, setq, upd2 / updqp (one
               param.update of p and q, in both orders), batch2, trigp, and two watchers registered after the copy};
               families: shapes (each shape and each pair of shapes at equal precedence), precedence (all pairs and
               triples of bound-method watchers over effect x precedence x parameters: dispatch order decided by
               precedence against registration order, ties by registration order, depends methods first), shapes x
               precedence (shape A at precedence 2 registered before shape B at precedence 1)
  watcher handles kept by the object  class Hand(Wat): `h:<shape>.<effect>@<precedence>:<parameters>` (`hq:` = queued)
               registers a value watcher like `w:` and KEEPS the handle param.watch returns in ordinary attributes
               (list `handles`, the first one also as `_handle`); the copy holds handles of its own and uses them: post
               alphabet {unw:<k> (param.unwatch with the k-th handle), rew:<k> (unwatch, then watch the same callback
               again and keep the new handle), unwa (unwatch every handle), setp, setq, upd2, trigp}: the same history
               that stops / re-arms the callback on a never-copied object must do so on the copy, and on the copy only
               (nothing here raises when it fails -- param.unwatch only warns --, the invocation logs show it);
               singles over shapes x {0 on p, 1 on (p, q), queued 2 on q}, pairs incl. the same callback twice
  copies from inside watcher callbacks of every kind  `cls=Cb ctx=cb.<fire>.<order>.<D>.<C>.<Y>`: the dispatch is
               started by fire in {set, upd (param.update of two parameters), trig, batch (assignment inside
               batch_call_watchers)}; watcher D on x (queued or not, precedence 0-2) assigns y, ANOTHER watched parameter,
               from inside its callback; the copy is taken from inside the callback of watcher C (queued or not,
               precedence 0-2, watching x or y; registered before or after D); the watcher logging y is queued or not.
               Oracle as for the contexts above, except that the callbacks still to run at the copy point change
               values here: 'pending calls not made on the copy' is a never-copied IDLE object built in the state of the
               copy point (K.idle_reference), 'pending calls made' is the never-copied object after its dispatch
  x copy mechanism {copy.deepcopy, pickle protocol 2, 3, 4, 5}
  x post-history applied afterwards, first to the copy and then to the original, over
               {set, mut, pedit, pmut, attach, subset, attr, const (assign the constant), watch}.

Oracle (from the statement): the copy must succeed; right after it the copy's values, Parameter
attributes and ordinary attributes (incl. the invocation logs) equal the original's, the original
is unchanged and no mutable object is shared by identity; the driven side must then behave exactly
like an object that was never copied and went through the same history (values, Parameter
attributes, attributes, invocation logs of the depends/watch callbacks, outcome = exception class
of every operation: bounds edits enforced, constant still constant, dependencies on the sub-object
firing on the copy) while the other side stays exactly as it was.
"""
import concurrent.futures
import itertools
import logging
import multiprocessing
import os
import warnings

from bounded._api import Bounded, REPLAY_HEADER
from bounded import c17_classes as K

PRE = tuple(K.PRE_OPS)
POST = tuple(K.POST_OPS)
CLASSES = ("Plain", "Main")
SLOT_CLASSES = tuple(K.SLOT_CLASSES)
SLOT_PRE = tuple(K.SLOT_PRE_OPS)
SLOT_POST = tuple(K.SLOT_POST_OPS)
ALL_MECHS = K.MECHS
MECHS7 = ("deepcopy", "pickle0", "pickle1", "pickle2", "pickle3", "pickle4", "pickle5")
MECHS3 = ("deepcopy", "pickle2", "pickle5")
MECHS2 = ("deepcopy", "pickle5")
ATTR_POST = tuple(K.ATTR_POST_OPS)
MULTI_PRE = tuple(K.MULTI_PRE_OPS)
MULTI_POST = tuple(K.MULTI_POST_OPS)
CTX_PRE = tuple(K.CTX_PRE_OPS)
CTX_POST = tuple(K.CTX_POST_OPS)
NK = len(K.VALUE_KINDS)
WAT_POST = tuple(K.WAT_POST)
W = K.w_op
HAND_POST = tuple(K.HAND_POST)
H = K.h_op
CB_PRE = tuple(K.CB_PRE_OPS)
CB_POST = tuple(K.CB_POST_OPS)


def pre_alphabet(cname):
    if cname == "Multi":
        return MULTI_PRE
    if cname.startswith("Multi@"):
        return CTX_PRE
    if cname.startswith("Cb@"):
        return CB_PRE
    return SLOT_PRE if cname in SLOT_CLASSES else PRE


def post_alphabet(cname):
    if cname == "Attr":
        return ATTR_POST
    if cname == "Multi":
        return MULTI_POST
    if cname.startswith("Multi@"):
        return CTX_POST
    if cname == "Wat":
        return WAT_POST
    if cname == "Hand":
        return HAND_POST
    if cname.startswith("Cb@"):
        return CB_POST
    return SLOT_POST if cname in SLOT_CLASSES else POST


def histories(alphabet, maxlen):
    for n in range(maxlen + 1):
        for h in itertools.product(alphabet, repeat=n):
            yield h


def _norm(h):
    # the value kind of an `attr:<name>=<kind>` operation is irrelevant for folding witnesses
    return tuple(op.split("=")[0] if op.startswith(("attr:", "early:")) else op for op in h)


def is_subseq(a, b):
    it = iter(_norm(b))
    return all(x in it for x in _norm(a))


def mech_str(mechs):
    ms = sorted(mechs)
    out = [m for m in ms if not m.startswith("pickle")]
    ps = "".join(m[len("pickle"):] for m in ms if m.startswith("pickle"))
    if ps:
        out.append("pickle" + ps)
    return "+".join(out)


def hist_str(h):
    return ",".join(h) if h else "-"


# ------------------------------------------------------------------------------------------------
# worker
# ------------------------------------------------------------------------------------------------
def _init_worker():
    warnings.simplefilter("ignore")
    logging.disable(logging.CRITICAL)


def work(task):
    """task = (cname, pre, maxpost, mechs) -> counts and failures of all post-histories <= maxpost"""
    cname, pre, maxpost, mechs = task
    cases = 0
    checked = {}
    fails = []
    copy_failed = set()
    applicable = False
    for post in histories(post_alphabet(cname), maxpost):
        try:
            ref = K.reference(cname, pre, post)
        except Exception as e:
            # cannot happen on the pinned tree: the uncopied reference object itself cannot be built/driven
            # (e.g. Parameter.__getstate__, which param's own per-instance Parameter copies rely on, is broken)
            fails.append((cname, pre, post, mechs[0], "C17/model/reference-object-usable", type(e).__name__, "-",
                          "building the never-copied reference object through %r + %r raised %s: %s"
                          % (list(pre), list(post), type(e).__name__, e)))
            cases += 1
            applicable = True
            break
        if ref is None:
            continue                      # e.g. `subset` without an attached sub-object
        applicable = True
        for mech in mechs:
            if mech in copy_failed:
                continue                  # the copy itself fails: one case, not one per post-history
            cases += 1
            try:
                res = K.run_scenario(cname, pre, mech, post, "both", ref)
            except Exception as e:
                res = [("C17/model/reference-object-usable", type(e).__name__, "-",
                        "the scenario harness raised %s: %s" % (type(e).__name__, e))]
            for cl in ("C17/copy/succeeds", "C17/copy/equal-at-copy", "C17/copy/original-undisturbed",
                       "C17/copy/no-shared-mutable"):
                checked[cl] = checked.get(cl, 0) + 1
            if not (res and res[0][0].startswith(("C17/copy/", "C17/model/"))):
                checked["C17/after/faithful"] = checked.get("C17/after/faithful", 0) + 2
                checked["C17/after/independent"] = checked.get("C17/after/independent", 0) + 2
            for clause, dpath, side, detail in res:
                if clause == "C17/copy/succeeds":
                    copy_failed.add(mech)
                fails.append((cname, pre, post, mech, clause, dpath, side, detail))
    if cname == "Attr" and fails:
        fails = _shrink_attr_fails(fails)
    return {"task": (cname, pre), "cases": cases, "checked": checked, "fails": fails,
            "applicable": applicable, "clean": K.class_state_clean()}


def _attr_name_in(dpath):
    """the attribute name a difference path (`attrs.<name>...`, `obj.<name>...`) points at, if any"""
    best = None
    for pref in ("attrs.", "obj."):
        if dpath.startswith(pref):
            rest = dpath[len(pref):]
            for n in K.ATTR_NAMES:
                if (rest == n or rest.startswith((n + ".", n + "[", n + "("))) and (best is None or len(n) > len(best)):
                    best = n
    return best


def _shrink_attr_fails(fails):
    """A failure found with ALL attribute names on one object (`attrs:<shift>` / `earlys:<shift>`) is reduced to
    the single (name, value kind) that exposes it, re-running the scenario to make sure it does."""
    out = []
    scanned = {}                                  # clause -> name found by scanning all names (once per task)
    for f in fails:
        cname, pre, post, mech, clause, dpath, side, detail = f
        idx = [i for i, op in enumerate(pre) if op.startswith(("attrs:", "earlys:"))]
        if len(idx) != 1:
            out.append(f)
            continue
        i = idx[0]
        base, shift = pre[i].split(":")
        single = "attr" if base == "attrs" else "early"
        n = _attr_name_in(dpath)
        if n is not None:
            cands = [n]
        elif clause in scanned:
            cands = [scanned[clause]] if scanned[clause] else []
        else:
            cands = list(K.ATTR_NAMES)
        hit = None
        for n in cands:
            kind = K._kind_at(K.ATTR_NAMES.index(n), int(shift))
            pre2 = pre[:i] + ("%s:%s=%s" % (single, n, kind),) + pre[i + 1:]
            try:
                res = K.run_scenario(cname, pre2, mech, post, "both")
            except Exception:
                res = None
            for r in res or []:
                if r[0] == clause and (r[2] == side):
                    hit = (cname, pre2, post, mech, clause, r[1], side, r[3])
                    break
            if hit:
                if len(cands) > 1:
                    scanned[clause] = n
                break
        if hit is None and len(cands) > 1:
            scanned[clause] = None
        out.append(hit or f)
    return out


# ------------------------------------------------------------------------------------------------
REPLAY_BODY = '''import warnings, logging
warnings.simplefilter('ignore')
logging.disable(logging.CRITICAL)
# ---- text of /verif/bounded/c17_classes.py (model classes, operations, snapshot, scenario) ----
{core}
# -----------------------------------------------------------------------------------------------
want = {want!r}
res = run_scenario({cname!r}, {pre!r}, {mech!r}, {post!r}, 'both')
hits = [r for r in res or [] if (r[0], r[1]) == want]
if hits:
    print('REPRODUCED: %s [%s] driving=%s -- %s' % hits[0])
    sys.exit(1)
print('NOT-REPRODUCED' + (' (other findings: %r)' % (res,) if res else ''))
sys.exit(0)
'''


def make_replay(clause, witness, cname, pre, mech, post, dpath):
    head = REPLAY_HEADER.format(prop="C17", name="replay_c17.py", clause=clause, witness=witness)
    with open(K.__file__.replace(".pyc", ".py")) as f:
        core = f.read()
    return head + REPLAY_BODY.format(core=core, want=(clause, dpath), cname=cname, pre=tuple(pre), mech=mech,
                                     post=tuple(post))


def run(tier, seed):
    # param's warnings / log output are silenced for the duration of the run and restored afterwards
    prev = logging.root.manager.disable
    logging.disable(logging.CRITICAL)
    try:
        with warnings.catch_warnings():
            warnings.simplefilter("ignore")
            return _run(tier, seed)
    finally:
        logging.disable(prev)


def plan_new_families(tier, seed):
    """ordinary attributes (names x values), several parameters at once, copies in the middle of a dispatch"""
    tasks = []
    names = K.ATTR_NAMES
    ctxs = ["Multi@" + c for c in K.CTXS]
    if tier == "thorough":
        # -- ordinary attributes: every (name, value kind) on its own + all names at once under every shift
        for i, n in enumerate(names):
            for kind in K.VALUE_KINDS:
                tasks.append(("Attr", ("attr:%s=%s" % (n, kind),), 1, MECHS3))
                tasks.append(("Attr", ("attr:%s=%s" % (n, kind),), 0, MECHS7))
            for kind in ("int", "none", "list", "sub"):
                tasks.append(("Attr", ("early:%s=%s" % (n, kind),), 1, MECHS3))
        for k in range(NK):
            tasks.append(("Attr", ("attrs:%d" % k,), 2, MECHS7))
            tasks.append(("Attr", ("earlys:%d" % k,), 1, MECHS7))
            for other in ("set", "watch", "pedit"):
                tasks.append(("Attr", (other, "attrs:%d" % k), 1, MECHS3))
                tasks.append(("Attr", ("attrs:%d" % k, other), 1, MECHS3))
        # -- several parameters at once
        for pre in histories(MULTI_PRE, 3):
            if len(pre) <= 1:
                tasks.append(("Multi", pre, 2, MECHS7))
            else:
                tasks.append(("Multi", pre, 2 if len(pre) == 2 else 1, MECHS2))
        # -- copies in the middle of a dispatch
        for c in ctxs:
            for pre in histories(CTX_PRE, 2):
                if len(pre) <= 1:
                    tasks.append((c, pre, 2, MECHS7))
                else:
                    tasks.append((c, pre, 1, MECHS3))
        bound = ("ordinary attributes: %d names x %d value kinds (immutable, mutable, referring back into the object) "
                 "one at a time x {post-histories <= 1 over 5 operations x {deepcopy, pickle 2, 5}; copy-time clauses x "
                 "{deepcopy, pickle 0-5}}, set after or (4 kinds) before Parameterized.__init__; all names at once "
                 "under all %d name->kind shifts x post-histories <= 2 x {deepcopy, pickle 0-5}, also combined with "
                 "set / watch / pedit; several parameters at once: class Multi x {pre-histories <= 1 x post-histories "
                 "<= 2 x {deepcopy, pickle 0-5}; pre-histories 2 (3) x post-histories <= 2 (<= 1) x {deepcopy, "
                 "pickle5}} over 5+10 operations; copies in the middle of a dispatch: %d contexts x {pre-histories "
                 "<= 1 x post-histories <= 2 x {deepcopy, pickle 0-5}; pre-histories = 2 x post-histories <= 1 x "
                 "{deepcopy, pickle 2, 5}} over 4+5 operations" % (len(names), NK, NK, len(K.CTXS)))
        return tasks, False, bound
    for k in range(NK):
        # copy-time clauses (equal, no mutable object shared) for every shift; diverging histories for a quarter
        tasks.append(("Attr", ("attrs:%d" % k,), 1 if k % 4 == seed % 4 else 0, MECHS3))
        if k % 14 == seed % 14:
            tasks.append(("Attr", ("attrs:%d" % k,), 0, MECHS7))
        if k % 7 == seed % 7:
            tasks.append(("Attr", ("earlys:%d" % k,), 0, MECHS2))
    k = seed % NK
    for i, other in enumerate(("set", "watch", "pedit")):
        if i % 2 == seed % 2:
            tasks.append(("Attr", (other, "attrs:%d" % k), 1, MECHS2))
        else:
            tasks.append(("Attr", ("attrs:%d" % ((k + 1) % NK), other), 1, MECHS2))
    tasks.append(("Attr", ("attrs:%d" % ((k + 2) % NK),), 2, ("deepcopy",)))
    j = 0
    for i, n in enumerate(names):
        for kind in K.VALUE_KINDS:
            if j % 197 == seed % 197:
                tasks.append(("Attr", ("attr:%s=%s" % (n, kind),), 1, MECHS2))
            j += 1
    for i, pre in enumerate(histories(MULTI_PRE, 2)):
        if len(pre) == 0:
            tasks.append(("Multi", pre, 2, MECHS2))
            tasks.append(("Multi", pre, 1, MECHS3))
        elif len(pre) == 1:
            tasks.append(("Multi", pre, 1, MECHS3))
        elif i % 3 == seed % 3:
            tasks.append(("Multi", pre, 1, ("deepcopy",) if i % 2 else ("pickle5",)))
    for ci, c in enumerate(ctxs):
        for i, pre in enumerate(histories(CTX_PRE, 1)):
            if len(pre) == 0:
                tasks.append((c, pre, 1, MECHS3))
            else:
                tasks.append((c, pre, 1, ("deepcopy",) if (i + seed) % 2 else ("pickle5",)))
        if ci % 3 == seed % 3:
            tasks.append((c, (), 2, ("deepcopy",)))
    bound = ("ordinary attributes: %d names x %d value kinds (immutable, mutable, referring back into the object), all "
             "names on one object under each of the %d name->kind shifts (every (name, kind) pair is covered) x "
             "{deepcopy, pickle 2, 5} with the copy-time clauses, a seed-chosen quarter of the shifts also x "
             "post-histories <= 1 over 5 operations, seed-chosen shifts x pickle 0-5 / set before "
             "Parameterized.__init__ / combined with set, watch, pedit / post-histories <= 2 / one (name, kind) at a "
             "time; several parameters at once: class Multi x {no pre-history x post-histories <= 2 x {deepcopy, "
             "pickle5}; pre-histories <= 1 x post-histories <= 1 x {deepcopy, pickle 2, 5}; a seed-chosen third of "
             "the pre-histories = 2 x post-histories <= 1 x one mechanism} over 5+10 operations; copies in the middle "
             "of a dispatch: %d contexts x {post-histories <= 1 x {deepcopy, pickle 2, 5}; pre-histories = 1 x "
             "post-histories <= 1 x one mechanism; a seed-chosen third of the contexts x post-histories <= 2 x "
             "deepcopy} over 4+5 operations" % (len(names), NK, NK, len(K.CTXS)))
    return tasks, True, bound


def _wat_mechs(pre, mechs):
    """a lambda is not picklable: histories that register one are copied with copy.deepcopy only"""
    for op in pre:
        if op.startswith(("w:", "h:", "hq:")) and K.parse_w(op.split(":", 1)[1])[0] in K.UNPICKLABLE_SHAPES:
            return ("deepcopy",)
    return mechs


def plan_hand(tier, seed):
    """watcher handles kept by the object and used after the copy (class Hand): every callable shape x {precedence 0
    on p, precedence 1 on (p, q) as one watcher, queued at precedence 2 on q}; the handle is used by the post-history
    (unwatch / unwatch + watch again / unwatch all), followed by assignments that show whether the callback still
    runs"""
    shapes = K.W_SHAPES
    ops = ([H(s_, "add1", 0, "p") for s_ in shapes] + [H(s_, "mul2", 1, "pq") for s_ in shapes]
           + [H(s_, "add1", 2, "q", True) for s_ in shapes])
    core = [H("meth", "add1", 0, "p"), H("meth", "mul2", 1, "pq"), H("pbound", "add1", 0, "p"),
            H("pfunc", "mul2", 1, "pq"), H("other", "add1", 0, "p"), H("cobjown", "mul2", 1, "pq"),
            H("othersub", "add1", 2, "q", True), H("meth", "add1", 2, "q", True)]
    pairs_core = [(a, b) for a in core for b in core]          # incl. the same callback registered twice
    pairs_all = [(a, b) for a in ops for b in ops]
    tasks = []

    def add(pre, maxpost, mechs):
        tasks.append(("Hand", tuple(pre), maxpost, _wat_mechs(pre, mechs)))
    if tier == "thorough":
        for op in ops:
            add((op,), 2, MECHS7)
            if op in core:
                add((op,), 3, ("deepcopy",))
            add(("set", op), 1, MECHS2)
            add(("attach", op), 2, MECHS2)
        for pre in pairs_core:
            add(pre, 2, MECHS3)
        for i, pre in enumerate(pairs_all):
            add(pre, 1, ("deepcopy",) if i % 2 else ("pickle5",))
        bound = ("watcher handles kept by the object: class Hand, operations h:/hq:<shape>.<effect>@<precedence>:"
                 "<parameters> (the handle returned by param.watch is kept in ordinary attributes) over %d operations "
                 "(%d shapes x {add1@0:p, mul2@1:(p,q), queued add1@2:q}); post alphabet of %d operations {unwatch the "
                 "k-th handle, unwatch + watch again, unwatch every handle, setp, setq, upd2, trigp}: each operation "
                 "alone x post-histories <= 2 x {deepcopy, pickle 0-5} (8 core operations also x post-histories <= 3 x "
                 "deepcopy), also after set (attach) x post-histories <= 1 (<= 2) x {deepcopy, pickle5}; %d pairs over "
                 "8 core operations (incl. the same callback registered twice) x post-histories <= 2 x {deepcopy, pickle "
                 "2, 5}; all %d pairs x post-histories <= 1 x one mechanism (alternating); lambda: deepcopy only"
                 % (len(ops), len(shapes), len(HAND_POST), len(pairs_core), len(pairs_all)))
        return tasks, False, bound
    for i, op in enumerate(ops):
        if not op.startswith("hq:") or i % 4 == seed % 4:
            add((op,), 2, ("deepcopy",) if (i + seed) % 2 else ("pickle5",))
        add((op,), 1, MECHS2)
    for i, pre in enumerate(pairs_core):
        if pre[0] == pre[1] or i % 8 == seed % 8:
            add(pre, 2, ("deepcopy",) if (i + seed) % 2 else ("pickle5",))
    for i, op in enumerate(core):
        if i % 2 == seed % 2:
            add(("attach", op), 1, MECHS2)
    bound = ("watcher handles kept by the object: class Hand, operations h:/hq:<shape>.<effect>@<precedence>:"
             "<parameters> (the handle returned by param.watch is kept in ordinary attributes) over %d operations (%d "
             "shapes x {add1@0:p, mul2@1:(p,q), queued add1@2:q}); post alphabet of %d operations {unwatch the k-th "
             "handle, unwatch + watch again, unwatch every handle, setp, setq, upd2, trigp}: each operation alone x "
             "{post-histories <= 1 x {deepcopy, pickle5}; post-histories <= 2 x one mechanism (alternating; of the "
             "queued ones a seed-chosen quarter)}; of %d pairs over 8 core operations the 8 that register the same "
             "callback twice and a seed-chosen eighth of the others x post-histories <= 2 x one mechanism; half of the core "
             "operations after attach x post-histories <= 1 x {deepcopy, pickle5}; lambda: deepcopy only"
             % (len(ops), len(shapes), len(HAND_POST), len(pairs_core)))
    return tasks, True, bound


def cb_contexts(precs):
    out = []
    for fire in ("set", "upd", "trig", "batch"):
        for order in ("dc", "cd"):
            for dq in "qn":
                for cq in "qn":
                    for dp, cp in precs:
                        for ct in "xy":
                            for yq in "qn":
                                out.append("Cb@" + K.cb_ctx(fire, order, dq, dp, cq, cp, ct, yq))
    return out


def plan_cb(tier, seed):
    """copies taken from inside watcher callbacks of every kind (class Cb, contexts cb.<fire>.<order>.<D>.<C>.<Y>)"""
    rel = ((0, 1), (1, 0), (1, 1))                 # D before C, C before D, tie (decided by registration order)
    allp = tuple((a, b) for a in (0, 1, 2) for b in (0, 1, 2))
    tasks = []
    if tier == "thorough":
        small = set(cb_contexts(rel))
        for i, c in enumerate(cb_contexts(allp)):
            tasks.append((c, (), 1, MECHS3))
            if c in small:
                tasks.append((c, (), 1, MECHS7))
                if i % 3 == 0:
                    tasks.append((c, (), 2, ("deepcopy",)))
                tasks.append((c, ("watch",), 1, MECHS2))
        bound = ("copies taken from inside watcher callbacks: class Cb, %d contexts = fire {set, update, trigger, "
                 "assignment inside a batch} x registration order x deriving watcher D on x (assigns y, another watched "
                 "parameter; queued or not; precedence 0-2) x copying watcher C (queued or not; precedence 0-2; watching "
                 "x or y) x logging watcher of y queued or not: no pre-history x post-histories <= 1 over %d operations "
                 "x {deepcopy, pickle 2, 5}; the %d contexts with precedences (0,1), (1,0), (1,1) also x {deepcopy, "
                 "pickle 0-5}, a third of them x post-histories <= 2 x deepcopy, and after a user watcher x "
                 "post-histories <= 1 x {deepcopy, pickle5}" % (len(cb_contexts(allp)), len(CB_POST), len(small)))
        return tasks, False, bound
    quick_ctxs = [c for c in cb_contexts(rel) if ".cd." not in c or c.split(".")[3][1] == c.split(".")[4][1]]
    for i, c in enumerate(quick_ctxs):
        if i % 8 == seed % 8:
            tasks.append((c, (), 1, MECHS3))
        else:
            tasks.append((c, (), 1, ("deepcopy",) if (i + seed) % 2 else ("pickle5",)))
        if i % 48 == seed % 48:
            tasks.append((c, (), 2, ("deepcopy",)))
            tasks.append((c, ("watch",), 1, ("pickle5",)))
    bound = ("copies taken from inside watcher callbacks: class Cb, %d contexts = fire {set, update, trigger, "
             "assignment inside a batch} x registration order x deriving watcher D on x (assigns y, another watched "
             "parameter; queued or not) x copying watcher C (queued or not; watching x or y) x precedences (D, C) in "
             "{(0,1), (1,0), (1,1)} (the second registration order only for the tie) x logging watcher of y queued or not: no pre-history x post-histories <= 1 over %d "
             "operations x one mechanism (alternating; a seed-chosen eighth x {deepcopy, pickle 2, 5}); a seed-chosen "
             "48th also x post-histories <= 2 x deepcopy and after a user watcher x pickle5"
             % (len(quick_ctxs), len(CB_POST)))
    return tasks, True, bound


def plan_wat(tier, seed):
    """watcher callbacks of every callable shape x watcher precedence (class Wat)"""
    shapes = K.W_SHAPES
    ops_shape = [W(s_, "add1", 0, "p") for s_ in shapes] + [W(s_, "mul2", 0, "pq") for s_ in shapes]
    ops_prec = [W("meth", e, pr, ps) for e in K.W_EFFECTS for pr in K.W_PRECS for ps in K.W_PARAMS]
    mixed = [(W(a, "mul2", 2, pa), W(b, "add1", 1, "p")) for a in shapes for b in shapes for pa in ("p", "pq")]
    pairs_shape = [h for h in histories(ops_shape, 2) if len(h) == 2]
    pairs_prec = [h for h in histories(ops_prec, 2) if len(h) == 2]
    # triples: the watchers of p and of (p, q) (three-way orders; the q-only watchers are covered by the pairs)
    ops_prec3 = [op for op in ops_prec if not op.endswith(":q")]
    triples_prec = [h for h in histories(ops_prec3, 3) if len(h) == 3]
    tasks = []

    def add(pre, maxpost, mechs):
        tasks.append(("Wat", tuple(pre), maxpost, _wat_mechs(pre, mechs)))
    if tier == "thorough":
        for pre in histories(ops_shape, 1):
            add(pre, 2, MECHS7)
        for pre in pairs_shape:
            add(pre, 1, MECHS3)
        for op in ops_shape:
            add(("set", op), 1, MECHS3)
            add(("attach", op), 1, MECHS3)
        for pre in histories(ops_prec, 1):
            add(pre, 2, MECHS7)
        for pre in pairs_prec:
            add(pre, 2, ("deepcopy",))
            add(pre, 1, MECHS3)
        for i, pre in enumerate(triples_prec):
            add(pre, 1, ("deepcopy",) if i % 2 else ("pickle5",))
        for pre in mixed:
            add(pre, 1, MECHS3)
        bound = ("watcher callbacks x precedence: class Wat, operation w:<shape>.<effect>@<precedence>:<parameters> over "
                 "%d shapes x 2 effects x 3 precedences x 3 parameter sets; shapes: {each of %d (shape, parameters) "
                 "operations alone x post-histories <= 2 x {deepcopy, pickle 0-5}; every pair x post-histories <= 1 x "
                 "{deepcopy, pickle 2, 5}} (lambda: deepcopy only), each also after set / attach x {deepcopy, pickle 2, "
                 "5}; precedence: bound-method watchers over %d (effect, precedence, parameters) operations: "
                 "{pre-histories <= 1 x post-histories <= 2 x {deepcopy, pickle 0-5}; all %d pairs x {post-histories "
                 "<= 2 x deepcopy; post-histories <= 1 x {deepcopy, pickle 2, 5}}; all %d triples of the watchers of p "
                 "and of (p, q) x post-histories <= 1 x one mechanism (alternating)}; shapes x precedence: %d pairs "
                 "(shape A at precedence 2 on p / (p, q) "
                 "registered before shape B at precedence 1 on p) x post-histories <= 1 x {deepcopy, pickle 2, 5}; post "
                 "alphabet of %d operations" % (len(shapes), len(ops_shape), len(ops_prec), len(pairs_prec),
                                                 len(triples_prec), len(mixed), len(WAT_POST)))
        return tasks, False, bound
    for pre in histories(ops_shape, 1):
        add(pre, 1, MECHS7)
    for i, pre in enumerate(pairs_shape):
        if i % 16 == seed % 16:
            add(pre, 1, MECHS2)
    add((), 2, MECHS2)
    for pre in histories(ops_prec, 1):
        add(pre, 1, MECHS2)
    for i, pre in enumerate(pairs_prec):
        # registration order against precedence order, or a tie: always; both orders agree: a seed-chosen third
        if K.parse_w(pre[0][2:])[2] >= K.parse_w(pre[1][2:])[2] or i % 3 == seed % 3:
            add(pre, 1, ("deepcopy",) if (i + seed) % 2 else ("pickle5",))
    for i, pre in enumerate(triples_prec):
        if i % 64 == seed % 64:
            add(pre, 1, ("deepcopy",) if (i // 64 + seed) % 2 else ("pickle5",))
    for i, pre in enumerate(mixed):
        if i % 8 == seed % 8:
            add(pre, 1, MECHS2)
    bound = ("watcher callbacks x precedence: class Wat, operation w:<shape>.<effect>@<precedence>:<parameters> over %d "
             "shapes x 2 effects x 3 precedences x 3 parameter sets; shapes: each of %d (shape, parameters) operations "
             "alone x post-histories <= 1 x {deepcopy, pickle 0-5} (lambda: deepcopy only), a seed-chosen sixteenth of "
             "the pairs x post-histories <= 1 x {deepcopy, pickle5}; precedence: bound-method watchers over %d (effect, "
             "precedence, parameters) operations: pre-histories <= 1 x post-histories <= 1 x {deepcopy, pickle5}, "
             "the %d pairs (all whose registration order is not the precedence order or that tie, a seed-chosen third of "
             "the others) x post-histories <= 1 x one mechanism (alternating), a seed-chosen 64th of the %d triples "
             "(watchers of p and of (p, q)) x post-histories <= 1 x one mechanism, no pre-history x post-histories <= 2 x {deepcopy, pickle5}; shapes x "
             "precedence: a seed-chosen eighth of %d pairs (shape A at precedence 2 registered before shape B at "
             "precedence 1) x post-histories <= 1 x {deepcopy, pickle5}; post alphabet of %d operations"
             % (len(shapes), len(ops_shape), len(ops_prec), len(pairs_prec), len(triples_prec), len(mixed),
                len(WAT_POST)))
    return tasks, True, bound


def plan(tier, seed):
    """-> list of tasks (cname, pre, maxpost, mechs), sampled flag, bound text"""
    tasks = []
    sampled = False
    if tier == "thorough":
        for cname in CLASSES:
            for pre in histories(PRE, 3):
                if len(pre) <= 2:
                    tasks.append((cname, pre, 2, ALL_MECHS))
                else:
                    tasks.append((cname, pre, 1, ALL_MECHS))
                    if len(set(pre)) == 3:
                        tasks.append((cname, pre, 2, ("deepcopy",)))
        for cname in SLOT_CLASSES:
            for pre in histories(SLOT_PRE, 3):
                tasks.append((cname, pre, 2 if len(pre) <= 2 else 1, ALL_MECHS))
        bound = ("4 slotted model classes x pre-histories <= 3 over 5 operations x post-histories (<= 2 for pre <= 2, "
                 "<= 1 for pre = 3) over 4 operations x {deepcopy, pickle 2,3,4,5}; "
                 "2 model classes x pre-histories <= 3 over 9 operations x post-histories over 9 operations: <= 2 "
                 "for pre <= 2 and <= 1 for pre = 3, with all of {deepcopy, pickle 2,3,4,5}; additionally deepcopy x "
                 "post-histories <= 2 for the pre-histories of 3 pairwise distinct operations; each post-history "
                 "applied to the copy and then to the original")
    else:
        for cname in CLASSES:
            for pre in histories(PRE, 2):
                tasks.append((cname, pre, 1, ALL_MECHS))
                if len(pre) <= 1:
                    tasks.append((cname, pre, 2, ("deepcopy", "pickle5")))
            pre3 = [h for h in histories(PRE, 3) if len(h) == 3]
            for i, pre in enumerate(pre3):
                if i % 16 == seed % 16:
                    tasks.append((cname, pre, 1, ("deepcopy", "pickle5")))
                    sampled = True
        for cname in SLOT_CLASSES:
            for pre in histories(SLOT_PRE, 2):
                tasks.append((cname, pre, 1, ("deepcopy", "pickle2", "pickle5")))
                if len(pre) <= 1:
                    tasks.append((cname, pre, 2, ("deepcopy", "pickle5")))
        bound = ("4 slotted model classes x {pre-histories <= 2 x post-histories <= 1 x {deepcopy, pickle 2, 5}; "
                 "pre-histories <= 1 x post-histories <= 2 x {deepcopy, pickle5}} over 5+4 operations (complete); "
                 "2 model classes x {pre-histories <= 2 x post-histories <= 1 x {deepcopy, pickle 2,3,4,5}; "
                 "pre-histories <= 1 x post-histories <= 2 x {deepcopy, pickle5}} over 9+9 operations (complete), plus "
                 "a seed-chosen sixteenth of the pre-histories of length 3 x post-histories <= 1 x {deepcopy, "
                 "pickle5}; each post-history applied to the copy and then to the original")
    t2, s2, b2 = plan_new_families(tier, seed)
    tasks += t2
    sampled = sampled or s2
    bound += "; " + b2
    t3, s3, b3 = plan_wat(tier, seed)
    tasks += t3
    sampled = sampled or s3
    bound += "; " + b3
    for planner in (plan_hand, plan_cb):
        t4, s4, b4 = planner(tier, seed)
        tasks += t4
        sampled = sampled or s4
        bound += "; " + b4
    # a task over post-histories <= 2 covers those <= 1: never run a (class, pre, mechanism, post) twice
    best = {}
    for cname, pre, maxpost, mechs in tasks:
        for m in mechs:
            k = (cname, pre, m)
            best[k] = max(best.get(k, 0), maxpost)
    regroup = {}
    for (cname, pre, m), maxpost in best.items():
        regroup.setdefault((cname, pre, maxpost), []).append(m)
    out = [(cname, pre, maxpost, tuple(sorted(ms))) for (cname, pre, maxpost), ms in regroup.items()]
    # most expensive tasks first (better balance over the worker processes); deterministic order
    out.sort(key=lambda t: (-(len(post_alphabet(t[0])) ** t[2]) * len(t[3]), t[0], len(t[1]), t[1], t[3]))
    return out, sampled, bound


def _run(tier, seed):
    tasks, sampled, bound = plan(tier, seed)
    B = Bounded(
        "C17",
        rule=("model classes: Plain / Main (parameters, dependencies, sub-object) and four slotted classes (ordinary "
              "attributes in __slots__ declared by plain mixins before / after / deeper than the Parameterized base "
              "and by the Parameterized subclass itself, next to __dict__ attributes); Attr (ordinary attributes: "
              "names that look like param's bookkeeping but are not x value kinds); Multi (dependencies / watchers on "
              "several parameters x updates of several parameters at once; copies taken in the middle of a dispatch: "
              "inside a batch, inside discard_events, inside a watcher callback); Wat (value watchers registered "
              "with param.watch on the instance: every callable shape x explicit precedences, next to depends methods "
              "on the same parameters, all with order-sensitive effects); Hand (the handles returned by param.watch are "
              "kept in ordinary attributes and used after the copy: unwatch, unwatch + watch again); Cb (copies taken "
              "from inside watcher callbacks: queued / non-queued x precedence x a sibling callback that assigns another "
              "watched parameter x how the dispatch was started); "
              "one case = (model class, pre-history, copy mechanism, post-history); the post-history is applied to "
              "the copy and then to the original and both objects are compared after each phase with an object "
              "that was never copied (values, Parameter attributes, ordinary attributes, invocation logs, operation "
              "outcomes); histories that are not applicable (`subset` without a sub-object) are not counted; when "
              "the copy itself raises, the (class, pre-history, mechanism) counts once"),
        bound=bound)
    if sampled:
        B.exhaustive = False
    nproc = max(1, min(16, len(os.sched_getaffinity(0)) if hasattr(os, "sched_getaffinity") else (os.cpu_count() or 1)))
    ctx = multiprocessing.get_context("fork")
    results = []
    with concurrent.futures.ProcessPoolExecutor(max_workers=nproc, mp_context=ctx, initializer=_init_worker) as ex:
        for r in ex.map(work, tasks, chunksize=1):
            results.append(r)

    groups = {}            # (clause, cname, dpath, side, pre, post) -> {mech: detail}
    unclean = 0
    for t, r in zip(tasks, results):
        cname, pre, maxpost, mechs = t
        if not r["clean"]:
            unclean += 1
        for cl, n in r["checked"].items():
            B.checked(cl, n)
        B.evaluations += r["cases"]
        for f in r["fails"]:
            cname, pre, post, mech, clause, dpath, side, detail = f
            groups.setdefault((clause, cname, dpath, side, pre, post), {})[mech] = detail
    # all executed cases are distinct by construction: the plan never repeats a (class, pre-history,
    # mechanism, post-history) combination
    distinct_cases = sum(r["cases"] for r in results)

    # ---- minimal witnesses: shortest failing (pre, post) of a class; longer ones are folded into it
    reported = []          # (clause, cname, dpath, side, pre, post, witness)
    folded_attr = {}
    folded_wat = {}
    order = sorted(groups, key=lambda g: (g[0], g[1], len(g[4]) + len(g[5]), len(g[4]), g[4], g[5], g[2], g[3]))
    for g in order:
        clause, cname, dpath, side, pre, post = g
        mechs = groups[g]
        fam = lambda ms: (any(m == "deepcopy" for m in ms), any(m.startswith("pickle") for m in ms))
        host = None
        for (c2, n2, d2, s2, p2, q2, w2, m2) in reported:
            # (copies taken in the middle of a dispatch: one witness per context, clause and kind of difference --
            # the shortest history; a context that leaves the copy's dispatch stuck fails under every later set)
            if (c2, n2, d2, s2) == (clause, cname, dpath, side) and is_subseq(p2, pre) \
                    and (is_subseq(q2, post) or "@" in cname) \
                    and all(a or not b for a, b in zip(fam(m2), fam(mechs))):
                host = w2
                break
        if host is not None:
            for _ in mechs:
                B.violation(clause, host)
            continue
        if cname == "Attr":
            # cap: one defect of the attribute handling shows up under many names; at most 8 witnesses per clause
            mine = [r for r in reported if (r[0], r[1]) == (clause, cname)]
            if len(mine) >= 8:
                for _ in mechs:
                    B.violation(clause, mine[0][6])
                folded_attr[clause] = folded_attr.get(clause, 0) + 1
                continue
        if cname in ("Wat", "Hand") or cname.startswith("Cb@"):
            # cap: one defect of the watcher re-binding shows up under many (shape, effect, precedence, parameters)
            # combinations (one defect of the dispatch state of a copy under many callback contexts); at most 6
            # witnesses (the shortest histories; 3 for the handle family) per clause and kind of difference
            mine = [r for r in reported if (r[0], r[1].partition("@")[0], r[2]) == (clause, cname.partition("@")[0], dpath)]
            if len(mine) >= (3 if cname == "Hand" else 6):
                for _ in mechs:
                    B.violation(clause, mine[0][6])
                folded_wat[(clause, dpath)] = folded_wat.get((clause, dpath), 0) + 1
                continue
        cls_, _, ctx = cname.partition("@")
        cls_s = cls_ + (" ctx=" + ctx if ctx else "")
        if clause == "C17/copy/succeeds":
            witness = "cls=%s pre=%s mech=%s kind=%s" % (cls_s, hist_str(pre), mech_str(mechs), dpath)
        else:
            witness = "cls=%s pre=%s post=%s driving=%s mech=%s diff=%s" % (
                cls_s, hist_str(pre), hist_str(post), side, mech_str(mechs), dpath)
        first = sorted(mechs)[0]
        B.violation(clause, witness, mechs[first], make_replay(clause, witness, cname, pre, first, post, dpath))
        for _ in list(mechs)[1:]:
            B.violation(clause, witness)
        reported.append((clause, cname, dpath, side, pre, post, witness, set(mechs)))

    for cl, n in sorted(folded_attr.items()):
        B.note("%s: %d further failing (attribute name, history) classes of the ordinary-attribute family folded "
               "into the first witness (cap 8 per clause)" % (cl, n))
    for (cl, dp), n in sorted(folded_wat.items()):
        B.note("%s diff=%s: %d further failing histories of the watcher shape / precedence / handle / callback-context "
               "families folded into the first witness (cap 6 per family, clause and kind of difference)" % (cl, dp, n))
    if unclean:
        B.note("%d tasks left the model classes' own Parameters changed (per-instance state leaked into the class); "
               "the differential oracle stays self-consistent but see C12" % unclean)
    napp = sum(1 for r in results if r["applicable"])
    B.note("tasks=%d (class, pre-history, mechanisms) of which applicable=%d; worker processes=%d" % (
        len(tasks), napp, nproc))
    for cname, pre, mech, post in (("Plain", ("pedit", "attach", "subset"), "pickle4", ("set", "subset")),
                                   ("Main", (), "deepcopy", ("attach", "subset"))):
        try:
            r = K.run_scenario(cname, pre, mech, post, "both")
        except Exception as e:
            r = "harness raised %s" % type(e).__name__
        B.sample({"class": cname, "pre": list(pre), "mech": mech, "post": list(post), "findings": r})
    # ---- family TM: param.Time objects (bounded/c17_time.py) ---------------------------
    from bounded import c17_time
    ntm = c17_time.extend(B, tier, seed)
    B.bound += ("; FAMILY TM (bounded/c17_time.py): param.Time objects -- pre-histories (set, enter a context, leave it, "
                "timestep) x deepcopy / every pickle protocol x every post-history (up to 3-4 operations quick, 4-5 "
                "thorough) of set / enter / exit / timestep%s on the original or the copy, i.e. copies taken outside and "
                "INSIDE contexts and contexts of original and copy that overlap without nesting; (time, timestep) of both "
                "sides compared with per-side reference records after every operation" % ("" if tier == "quick" else " / next"))
    res = B.result()
    res["distinct_nontrivial"] = distinct_cases + ntm
    return res
