"""Model classes, operation alphabet, snapshot and scenario runner of the bounded layer C17.

Self-contained on purpose (imports only the standard library and param): the classes must be
importable module-level classes for pickle, and the *text of this file* is embedded verbatim into
every replay script, where it runs as `__main__` (pickle then resolves `__main__.Main`), so layer
and replay share one oracle.
"""
import copy
import pickle

import param


# ------------------------------------------------------------------------------------------------
# model classes
# ------------------------------------------------------------------------------------------------
class Sub(param.Parameterized):
    x = param.Number(default=0)
    y = param.Number(default=0)

    def __init__(self, **kw):
        self.calls = []
        super().__init__(**kw)

    @param.depends('x', watch=True)
    def on_x(self):
        self.calls.append(('Sub.on_x', self.x))


class Plain(param.Parameterized):
    """no dependency on a sub-object parameter"""
    v = param.Number(default=0, bounds=(-100, 100))
    lst = param.List(default=[1, 2])
    dct = param.Dict(default={'d': [0]})
    a = param.ClassSelector(class_=Sub, default=None, allow_None=True)
    s = param.Selector(objects=[1, 2, 3])
    k = param.Number(default=1, constant=True)

    def __init__(self, **kw):
        self.calls = []
        super().__init__(**kw)

    @param.depends('v', watch=True)
    def on_v(self):
        self.calls.append(('on_v', self.v))

    @param.depends('lst', 's', watch=True)
    def on_lst_s(self):
        self.calls.append(('on_lst_s', list(self.lst), self.s))

    def user_cb(self, *events):
        self.calls.append(('user_cb', [(e.name, e.new) for e in events]))


class Main(Plain):
    """adds a watch=True dependency on a parameter of the attached sub-object"""

    @param.depends('a.x', watch=True)
    def on_ax(self):
        self.calls.append(('on_ax', None if self.a is None else self.a.x))


# ---- ordinary attributes stored in __slots__ declared by plain (non-Parameterized) classes in the MRO ----
class SlotMixin:
    """plain mixin keeping its attributes in slots"""
    __slots__ = ('tag', 'hist')


class SlotMixin2(SlotMixin):
    """plain subclass of the mixin adding a slot of its own"""
    __slots__ = ('more',)


class SlotFirst(SlotMixin, Plain):
    """mixin BEFORE the Parameterized base; the Parameterized subclass declares a slot itself"""
    __slots__ = ('own',)


class SlotLast(Plain, SlotMixin):
    """mixin AFTER the Parameterized base; no slots of its own (instance __dict__ only)"""


class SlotDeep(SlotMixin2, Plain):
    """slots declared by a plain base and by that base's plain base"""
    __slots__ = ()


class SlotSub(SlotFirst):
    """subclass of a slotted class: the mixin sits deeper in the MRO"""

    w = param.Number(default=3)


def slot_names(cls):
    """names of the slots declared by any class of the MRO (declaration order along the MRO)"""
    names = []
    for k in cls.__mro__:
        s = k.__dict__.get('__slots__', ())
        for n in ((s,) if isinstance(s, str) else s):
            if n not in ('__dict__', '__weakref__') and n not in names:
                names.append(n)
    return names


def fn_watch(*events):
    """module-level (picklable) user watcher; logs on the object the event belongs to"""
    for e in events:
        e.obj.calls.append(('fn_watch', e.name, e.new))


CLASSES = {'Plain': Plain, 'Main': Main, 'SlotFirst': SlotFirst, 'SlotLast': SlotLast, 'SlotDeep': SlotDeep,
           'SlotSub': SlotSub}
SLOT_CLASSES = ('SlotFirst', 'SlotLast', 'SlotDeep', 'SlotSub')


# ------------------------------------------------------------------------------------------------
# operations.  Each returns an outcome string; `SKIP` marks a history that is not applicable
# ------------------------------------------------------------------------------------------------
SKIP = 'SKIP'


def _try(f):
    try:
        f()
        return 'ok'
    except Exception as e:          # the outcome (exception class) is part of the compared behaviour
        return type(e).__name__


def _set(o, name, val):
    return _try(lambda: setattr(o, name, val))


def pre_set(o):
    return _set(o, 'v', 5)


def pre_mut(o):
    o.lst.append(7)
    o.dct['d'].append(7)
    return 'ok'


def pre_pedit(o):
    o.param.v.bounds = (-5, 50)
    o.param.v.doc = 'edited'
    return 'ok'


def pre_pmut(o):
    o.param.s.objects.append(4)
    return 'ok'


def pre_attach(o):
    return _set(o, 'a', Sub(name='S', x=1))


def pre_subset(o):
    if o.a is None:
        return SKIP
    return _set(o.a, 'x', o.a.x + 2)


def pre_watch(o):
    o.param.watch(o.user_cb, ['v', 'lst'])
    return 'ok'


def pre_watchfn(o):
    o.param.watch(fn_watch, ['v'])
    return 'ok'


def pre_attr(o):
    o.extra = {'k': [1]}
    return 'ok'


def pre_slot(o):
    """fill every slot: mutable lists and strings alternate"""
    names = slot_names(type(o))
    if not names:
        return SKIP
    for i, n in enumerate(names):
        setattr(o, n, [n, i] if i % 2 == 0 else 'val-' + n)
    return 'ok'


def pre_slotpart(o):
    """fill only the last slot; the others stay unset (and must stay unset on a copy)"""
    names = slot_names(type(o))
    if not names:
        return SKIP
    setattr(o, names[-1], [names[-1]])
    return 'ok'


PRE_OPS = {'set': pre_set, 'mut': pre_mut, 'pedit': pre_pedit, 'pmut': pre_pmut, 'attach': pre_attach,
           'subset': pre_subset, 'watch': pre_watch, 'watchfn': pre_watchfn, 'attr': pre_attr}


def post_set(o):
    # 60 is inside the class bounds (-100, 100) and outside the edited instance bounds (-5, 50);
    # 4 is a legal Selector value only where the instance's objects list has been extended
    return _set(o, 'v', 60) + ',' + _set(o, 's', 4) + ',' + _set(o, 'lst', [9])


def post_mut(o):
    o.lst.append(8)
    o.dct['d'].append(8)
    return 'ok'


def post_pedit(o):
    o.param.v.bounds = (-1, 1)
    o.param.v.doc = 'edited-after'
    return 'ok'


def post_pmut(o):
    o.param.s.objects.append(5)
    return 'ok'


def post_attach(o):
    return _set(o, 'a', Sub(name='S2', x=10))


def post_subset(o):
    if o.a is None:
        return SKIP
    return _set(o.a, 'x', o.a.x + 2)


def post_attr(o):
    if hasattr(o, 'extra'):
        o.extra['k'].append(2)
    else:
        o.extra = {'k': [2]}
    return 'ok'


def post_const(o):
    return _set(o, 'k', 9)            # a constant of an initialised object: TypeError expected everywhere


def post_watch(o):
    o.param.watch(o.user_cb, ['v', 's'])
    return 'ok'


def post_slot(o):
    """grow the lists held in slots in place, rebind the strings, fill one unset slot"""
    names = slot_names(type(o))
    if not names:
        return SKIP
    filled = False
    for n in names:
        if not hasattr(o, n):
            if not filled:
                setattr(o, n, ['late', n])
                filled = True
        elif isinstance(getattr(o, n), list):
            getattr(o, n).append('grown')
        else:
            setattr(o, n, getattr(o, n) + '+')
    return 'ok'


POST_OPS = {'set': post_set, 'mut': post_mut, 'pedit': post_pedit, 'pmut': post_pmut, 'attach': post_attach,
            'subset': post_subset, 'attr': post_attr, 'const': post_const, 'watch': post_watch}

# the alphabets of the slotted model classes (the other operations are covered on Plain / Main)
SLOT_PRE_OPS = {'slot': pre_slot, 'slotpart': pre_slotpart, 'attr': pre_attr, 'set': pre_set, 'watch': pre_watch}
SLOT_POST_OPS = {'slot': post_slot, 'attr': post_attr, 'set': post_set, 'mut': post_mut}
_ALL_PRE = dict(PRE_OPS, **SLOT_PRE_OPS)
_ALL_POST = dict(POST_OPS, **SLOT_POST_OPS)

MECHS = ('deepcopy', 'pickle2', 'pickle3', 'pickle4', 'pickle5')


def build(cname, pre):
    """fresh object of the model class driven through the pre-history; None when not applicable"""
    o = CLASSES[cname](name='M')
    out = []
    for op in pre:
        r = _ALL_PRE[op](o)
        if r == SKIP:
            return None, None
        out.append((op, r))
    return o, out


def apply_post(o, post):
    out = []
    for op in post:
        r = _ALL_POST[op](o)
        if r == SKIP:
            return None
        out.append((op, r))
    return out


def make_copy(o, mech):
    if mech == 'deepcopy':
        return copy.deepcopy(o)
    return pickle.loads(pickle.dumps(o, int(mech[len('pickle'):])))


# ------------------------------------------------------------------------------------------------
# observation: values, per-instance Parameter attributes, ordinary attributes (incl. invocation logs)
# ------------------------------------------------------------------------------------------------
META = ('default', 'doc', 'bounds', 'inclusive_bounds', 'softbounds', 'step', 'constant', 'readonly',
        'allow_None', '_label', 'precedence', 'instantiate', 'per_instance', 'objects', 'class_', 'item_type',
        'check_on_set', 'allow_refs', 'nested_refs')
_MISSING = '<missing>'


def plain(x):
    if isinstance(x, param.Parameterized):
        return snap(x)
    if isinstance(x, (list, tuple)):
        return [type(x).__name__] + [plain(y) for y in x]
    if isinstance(x, dict):
        return {repr(k): plain(v) for k, v in x.items()}
    if isinstance(x, type):
        return x.__name__
    if x is None or isinstance(x, (bool, int, float, str)):
        return x
    return repr(type(x))


_CLASS_META = {}


def _meta(p):
    return {s: plain(getattr(p, s, _MISSING)) for s in META}


def _class_meta(cls, n):
    k = (cls, n)
    if k not in _CLASS_META:           # class-level Parameters never change in this layer (checked
        _CLASS_META[k] = _meta(cls.param.objects('existing')[n])   # by class_state_clean())
    return _CLASS_META[k]


def snap(o):
    """Values, Parameter attributes and ordinary attributes as plain data.

    Does not perturb the object: objects('existing') never instantiates per-instance Parameters.
    A Parameter's attributes are listed only where they differ from the class-level Parameter (an
    unedited per-instance copy is not observably different from having none)."""
    pobjs = o.param.objects('existing')
    cls = type(o)
    meta = {}
    for n, p in pobjs.items():
        if p is not cls.param.objects('existing')[n]:
            m = _meta(p)
            cm = _class_meta(cls, n)
            if m != cm:
                meta[n] = {s: v for s, v in m.items() if v != cm[s]}
    return {
        'class': cls.__name__,
        'values': {n: plain(getattr(o, n)) for n in sorted(pobjs)},
        'meta': meta,
        'attrs': {k: plain(v) for k, v in sorted(o.__dict__.items()) if k != '_param__private'},
        'slots': {n: (plain(getattr(o, n)) if hasattr(o, n) else '<unset>') for n in slot_names(cls)},
    }


def diff(a, b, path=''):
    """first difference between two snapshots as a dotted path (None when equal)"""
    if type(a) is not type(b):
        return path or '.'
    if isinstance(a, dict):
        for k in sorted(set(a) | set(b)):
            if k not in a or k not in b:
                return (path + '.' + k).lstrip('.')
            d = diff(a[k], b[k], path + '.' + k)
            if d:
                return d.lstrip('.')
        return None
    if isinstance(a, list):
        if len(a) != len(b):
            return path.lstrip('.') or '.'
        for i, (x, y) in enumerate(zip(a, b)):
            d = diff(x, y, path)
            if d:
                return d.lstrip('.')
        return None
    return None if a == b else (path.lstrip('.') or '.')


def _mutables(o):
    """id -> description of the mutable objects that make up the instance state"""
    found = {}

    def walk(x, where):
        if isinstance(x, param.Parameterized):
            if id(x) in found:
                return
            found[id(x)] = where + ':' + type(x).__name__
            priv = x._param__private
            for n, v in priv.values.items():
                walk(v, where + '.' + n)
            for n, p in priv.params.items():
                found[id(p)] = where + '.param.' + n
                for slot in ('_objects', 'bounds', 'default'):
                    walk(getattr(p, slot, None), where + '.param.' + n + '.' + slot)
            for k, v in x.__dict__.items():
                if k != '_param__private':
                    walk(v, where + '.' + k)
            for k in slot_names(type(x)):
                if hasattr(x, k):
                    walk(getattr(x, k), where + '.' + k)
        elif isinstance(x, (list, dict, set)):
            if id(x) in found:
                return
            found[id(x)] = where + ':' + type(x).__name__
            for i, y in enumerate(x.values() if isinstance(x, dict) else x):
                walk(y, where + '[]')
    walk(o, 'obj')
    return found


def shared_mutables(o, c):
    a, b = _mutables(o), _mutables(c)
    return sorted(a[i] for i in a if i in b)


# ------------------------------------------------------------------------------------------------
# one scenario
# ------------------------------------------------------------------------------------------------
def reference(cname, pre, post):
    """what an object that is never copied looks like before / after `post` (None: not applicable)"""
    ref0, _ = build(cname, pre)
    if ref0 is None:
        return None
    e_pre = snap(ref0)
    ref_out = apply_post(ref0, post)
    if ref_out is None:
        return None
    return e_pre, ref_out, snap(ref0)


def run_scenario(cname, pre, mech, post, side, ref=None):
    """Build the object through `pre`, copy it with `mech`, apply `post` to `side`: 'orig', 'copy' or
    'both' (first to the copy, checking both objects, then to the original, checking both again).

    Returns a list of (clause, diffpath, side, detail); [] when the statement holds; None when the
    history is not applicable.  The expectation comes from the statement: the copy equals the
    original at copy time, the side that was driven behaves like an uncopied object driven through
    the same history (reference = a fresh object, never copied), the other side stays as it was.
    """
    if ref is None:
        ref = reference(cname, pre, post)      # (the layer passes a cached one)
    if ref is None:
        return None
    e_pre, ref_out, e_post = ref
    o, _ = build(cname, pre)
    res = []
    try:
        c = make_copy(o, mech)
    except Exception as e:
        return [('C17/copy/succeeds', type(e).__name__, '-', '%s of %s after %r raised %s: %s'
                 % (mech, cname, list(pre), type(e).__name__, e))]
    d = diff(e_pre, snap(o))
    if d:
        res.append(('C17/copy/original-undisturbed', d, '-', 'copying changed the original at %s' % d))
    sc = snap(c)
    d = diff(e_pre, sc)
    if d:
        res.append(('C17/copy/equal-at-copy', d, '-', 'the copy differs from the original at %s: original %r copy %r'
                    % (d, _at(e_pre, d), _at(sc, d))))
    sh = shared_mutables(o, c)
    if sh:
        res.append(('C17/copy/no-shared-mutable', sh[0].split(':')[0], '-',
                    'mutable objects shared by identity: %r' % sh[:5]))
    if res:
        return res
    first_done = False
    for sd_ in (('copy', 'orig') if side == 'both' else (side,)):
        driven, other = (o, c) if sd_ == 'orig' else (c, o)
        oname = 'copy' if sd_ == 'orig' else 'original'
        # the other side is untouched, or (second phase of 'both') has been driven already
        e_other = e_post if first_done else e_pre
        try:
            out = apply_post(driven, post)
        except Exception as e:
            return [('C17/after/faithful', 'exception:' + type(e).__name__, sd_,
                     'history %r on the %s raised %s: %s' % (list(post), sd_, type(e).__name__, e))]
        if out != ref_out:
            res.append(('C17/after/faithful', 'outcomes', sd_, 'outcomes of %r on the %s are %r, on an uncopied '
                        'object %r' % (list(post), sd_, out, ref_out)))
        s1 = snap(driven)
        d = diff(e_post, s1)
        if d:
            res.append(('C17/after/faithful', d, sd_, 'after %r on the %s: %s is %r, an uncopied object has %r'
                        % (list(post), sd_, d, _at(s1, d), _at(e_post, d))))
        s2 = snap(other)
        d = diff(e_other, s2)
        if d:
            res.append(('C17/after/independent', d, sd_, 'after %r on the %s the %s changed at %s: %r -> %r'
                        % (list(post), sd_, oname, d, _at(e_other, d), _at(s2, d))))
        if res:
            return res
        first_done = True
    return res


def _at(s, path):
    if path in ('.', ''):
        return s
    cur = s
    for k in path.split('.'):
        if isinstance(cur, dict) and k in cur:
            cur = cur[k]
        else:
            return cur
    return cur


def class_state_clean():
    """the model classes themselves must not have been changed by any scenario"""
    return (list(Plain.param.s.objects) == [1, 2, 3] and Plain.param.v.bounds == (-100, 100)
            and Plain.param.lst.default == [1, 2] and Plain.param.dct.default == {'d': [0]}
            and list(Main.param.s.objects) == [1, 2, 3] and Main.param.v.bounds == (-100, 100))
