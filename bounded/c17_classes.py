"""Model classes, operation alphabet, snapshot and scenario runner of the bounded layer C17.

Self-contained on purpose (imports only the standard library and param): the classes must be
importable module-level classes for pickle, and the *text of this file* is embedded verbatim into
every replay script, where it runs as `__main__` (pickle then resolves `__main__.Main`), so layer
and replay share one oracle.
"""
import copy
import functools
import pickle

import param


# ------------------------------------------------------------------------------------------------
# model classes
# ------------------------------------------------------------------------------------------------
class Sub(param.Parameterized):
    x = param.Number(default=0)
    y = param.Number(default=0)

    def __init__(self, **kw):
        self.calls = []
        super().__init__(**kw)

    @param.depends('x', watch=True)
    def on_x(self):
        self.calls.append(('Sub.on_x', self.x))

    # bound methods of the sub-object registered as watcher callbacks on the PARENT's parameters (family Wat)
    def cb_add1(self, *events):
        _effect(self, 'add1', 'othersub', events)

    def cb_mul2(self, *events):
        _effect(self, 'mul2', 'othersub', events)


# hook called from inside the watcher callbacks of the model classes (copies taken in the middle of a dispatch);
# None outside the `cb*` copy contexts
_HOOK = None


def _hook(o, where):
    if _HOOK is not None:
        _HOOK(o, where)


class Plain(param.Parameterized):
    """no dependency on a sub-object parameter"""
    v = param.Number(default=0, bounds=(-100, 100))
    lst = param.List(default=[1, 2])
    dct = param.Dict(default={'d': [0]})
    a = param.ClassSelector(class_=Sub, default=None, allow_None=True)
    s = param.Selector(objects=[1, 2, 3])
    k = param.Number(default=1, constant=True)

    def __init__(self, **kw):
        self.calls = []
        super().__init__(**kw)

    @param.depends('v', watch=True)
    def on_v(self):
        self.calls.append(('on_v', self.v))
        _hook(self, 'on_v')

    @param.depends('lst', 's', watch=True)
    def on_lst_s(self):
        self.calls.append(('on_lst_s', list(self.lst), self.s))

    def user_cb(self, *events):
        self.calls.append(('user_cb', [(e.name, e.new) for e in events]))
        _hook(self, 'user_cb')


class Main(Plain):
    """adds a watch=True dependency on a parameter of the attached sub-object"""

    @param.depends('a.x', watch=True)
    def on_ax(self):
        self.calls.append(('on_ax', None if self.a is None else self.a.x))


class Multi(Plain):
    """dependencies on several parameters at once, a queued dependency; user watchers on several parameters"""
    p = param.Number(default=0)
    q = param.Number(default=0)
    r = param.Number(default=0)
    w = param.Number(default=0)

    @param.depends('p', 'q', watch=True)
    def on_pq(self):
        self.calls.append(('on_pq', self.p, self.q))
        _hook(self, 'on_pq')

    @param.depends('p', 'q', 'r', watch=True)
    def on_pqr(self):
        self.calls.append(('on_pqr', self.p, self.q, self.r))

    @param.depends('p', watch=True)
    def on_p(self):
        self.calls.append(('on_p', self.p))

    @param.depends('w', watch='queued')
    def on_w(self):
        self.calls.append(('on_w', self.w))
        _hook(self, 'on_w')


# ---- family "watcher callbacks of every callable shape x watcher precedence" (class Wat) ---------------------------
def _effect(target, eff, tag, events):
    """What every watcher callback of the family does: an order-sensitive step on its own target's state
    (add1: t -> t + 1, mul2: t -> 2 t; the depends methods of Wat: t -> -t, t -> t + 10) and one entry in the
    invocation log of the object the events belong to (so the dispatch order of all callbacks is observable)."""
    names = [e.name for e in events]
    step = (lambda t: t + 1) if eff == 'add1' else (lambda t: t * 2)
    if isinstance(target, Rec):
        target.total = step(target.total)
        target.log.append((tag + '.' + eff, names, target.total))
        now = target.total
    elif isinstance(target, Sub):
        target.y = step(target.y)
        target.calls.append((tag + '.' + eff, names, target.y))
        now = target.y
    else:
        target.acc = step(target.acc)
        now = target.acc
    if events:
        events[0].obj.calls.append((tag + '.' + eff, names, now))


def fn_eff(eff, tag, *events):
    """module-level (picklable) function used through functools.partial / from a lambda; acts on the object
    the events belong to"""
    _effect(events[0].obj, eff, tag, events)


class Rec:
    """plain (non-Parameterized) object: its bound methods (named like methods of Wat on purpose) and the object
    itself (callable) serve as watcher callbacks; with an `owner` the call acts on the owner"""

    def __init__(self, eff='add1', owner=None):
        self.eff = eff
        self.owner = owner
        self.total = 3
        self.log = []

    def cb_add1(self, *events):
        _effect(self, 'add1', 'other', events)

    def cb_mul2(self, *events):
        _effect(self, 'mul2', 'other', events)

    def __call__(self, *events):
        if self.owner is None:
            _effect(self, self.eff, 'cobj', events)
        else:
            self.log.append(('cobjown.' + self.eff, [e.name for e in events]))
            _effect(self.owner, self.eff, 'cobjown', events)


class Wat(Plain):
    """user watchers of every callable shape and with explicit precedences, next to depends(watch=True) methods
    (precedence -1) on the same parameters; all callbacks have order-sensitive effects on `acc`"""
    p = param.Number(default=1)
    q = param.Number(default=1)
    acc = param.Number(default=3)

    @param.depends('p', watch=True)
    def dep_p(self):
        self.acc = -self.acc
        self.calls.append(('dep_p', self.p, self.acc))

    @param.depends('q', watch=True)
    def dep_q(self):
        self.acc = self.acc + 10
        self.calls.append(('dep_q', self.q, self.acc))

    @param.depends('p', 'q', watch=True)
    def dep_pq(self):
        self.calls.append(('dep_pq', self.p, self.q, self.acc))

    def cb_add1(self, *events):
        _effect(self, 'add1', 'meth', events)

    def cb_mul2(self, *events):
        _effect(self, 'mul2', 'meth', events)

    def cb_eff(self, eff, *events):
        _effect(self, eff, 'pbound', events)


class Hand(Wat):
    """keeps the HANDLES returned by param.watch in ordinary attributes (the list `handles`, the first one also as
    `_handle`) and uses them later on -- param.unwatch, unwatch + watch again -- after it has been copied"""


class Cb(Plain):
    """copies taken from inside watcher callbacks of every kind: `derive` changes another watched parameter (y) from
    inside a callback on x, `checkpoint` is the callback from inside which the copy is taken (watching x or y),
    `on_y` / `on_z` log what is announced; all registered with param.watch (queued or not, explicit precedence) by
    the context (see `_cb_register`)"""
    x = param.Number(default=0)
    y = param.Number(default=0)
    z = param.Number(default=0)

    def derive(self, *events):
        self.calls.append(('derive', [e.name for e in events]))
        self.y = self.y + 10

    def checkpoint(self, *events):
        self.calls.append(('checkpoint', [e.name for e in events]))
        _hook(self, 'checkpoint')

    def on_y(self, *events):
        self.calls.append(('on_y', [(e.name, e.old, e.new) for e in events]))

    def on_z(self, *events):
        self.calls.append(('on_z', [(e.name, e.old, e.new) for e in events]))


# ordinary attributes to be set by Attr.__init__ BEFORE Parameterized.__init__ runs: [(name, value kind)]
_EARLY = []


class Attr(Plain):
    """carrier of ordinary (non-Parameter) instance attributes of arbitrary names; the attributes listed in
    `_EARLY` are set before Parameterized.__init__ (i.e. before the private namespace exists)"""

    def __init__(self, **kw):
        for n, kind in _EARLY:
            setattr(self, n, make_value(kind, None))
        super().__init__(**kw)


class Box:
    """plain mutable object used as an attribute value"""

    def __init__(self, *items):
        self.items = list(items)


# ---- ordinary attributes stored in __slots__ declared by plain (non-Parameterized) classes in the MRO ----
class SlotMixin:
    """plain mixin keeping its attributes in slots"""
    __slots__ = ('tag', 'hist')


class SlotMixin2(SlotMixin):
    """plain subclass of the mixin adding a slot of its own"""
    __slots__ = ('more',)


class SlotFirst(SlotMixin, Plain):
    """mixin BEFORE the Parameterized base; the Parameterized subclass declares a slot itself"""
    __slots__ = ('own',)


class SlotLast(Plain, SlotMixin):
    """mixin AFTER the Parameterized base; no slots of its own (instance __dict__ only)"""


class SlotDeep(SlotMixin2, Plain):
    """slots declared by a plain base and by that base's plain base"""
    __slots__ = ()


class SlotSub(SlotFirst):
    """subclass of a slotted class: the mixin sits deeper in the MRO"""

    w = param.Number(default=3)


def slot_names(cls):
    """names of the slots declared by any class of the MRO (declaration order along the MRO)"""
    names = []
    for k in cls.__mro__:
        s = k.__dict__.get('__slots__', ())
        for n in ((s,) if isinstance(s, str) else s):
            if n not in ('__dict__', '__weakref__') and n not in names:
                names.append(n)
    return names


def fn_watch(*events):
    """module-level (picklable) user watcher; logs on the object the event belongs to"""
    for e in events:
        e.obj.calls.append(('fn_watch', e.name, e.new))


CLASSES = {'Plain': Plain, 'Main': Main, 'Multi': Multi, 'Wat': Wat, 'Attr': Attr, 'SlotFirst': SlotFirst, 'SlotLast': SlotLast, 'SlotDeep': SlotDeep,
           'SlotSub': SlotSub, 'Hand': Hand, 'Cb': Cb}
SLOT_CLASSES = ('SlotFirst', 'SlotLast', 'SlotDeep', 'SlotSub')


# ------------------------------------------------------------------------------------------------
# operations.  Each returns an outcome string; `SKIP` marks a history that is not applicable
# ------------------------------------------------------------------------------------------------
SKIP = 'SKIP'


def _try(f):
    try:
        f()
        return 'ok'
    except Exception as e:          # the outcome (exception class) is part of the compared behaviour
        return type(e).__name__


def _set(o, name, val):
    return _try(lambda: setattr(o, name, val))


def pre_set(o):
    return _set(o, 'v', 5)


def pre_mut(o):
    o.lst.append(7)
    o.dct['d'].append(7)
    return 'ok'


def pre_pedit(o):
    o.param.v.bounds = (-5, 50)
    o.param.v.doc = 'edited'
    return 'ok'


def pre_pmut(o):
    o.param.s.objects.append(4)
    return 'ok'


def pre_attach(o):
    return _set(o, 'a', Sub(name='S', x=1))


def pre_subset(o):
    if o.a is None:
        return SKIP
    return _set(o.a, 'x', o.a.x + 2)


def pre_watch(o):
    o.param.watch(o.user_cb, ['v', 'lst'])
    return 'ok'


def pre_watchfn(o):
    o.param.watch(fn_watch, ['v'])
    return 'ok'


def pre_attr(o, arg=None):
    """attr -- the ordinary attribute `extra` with mutable content;  attr:<name>=<kind> -- one ordinary attribute of
    the given name holding a fresh value of the given kind (ATTR_NAMES x VALUE_KINDS below)"""
    if arg is not None:
        n, kind = arg.rsplit('=', 1)
        setattr(o, n, make_value(kind, o))
        return 'ok'
    o.extra = {'k': [1]}
    return 'ok'


def pre_slot(o):
    """fill every slot: mutable lists and strings alternate"""
    names = slot_names(type(o))
    if not names:
        return SKIP
    for i, n in enumerate(names):
        setattr(o, n, [n, i] if i % 2 == 0 else 'val-' + n)
    return 'ok'


def pre_slotpart(o):
    """fill only the last slot; the others stay unset (and must stay unset on a copy)"""
    names = slot_names(type(o))
    if not names:
        return SKIP
    setattr(o, names[-1], [names[-1]])
    return 'ok'


PRE_OPS = {'set': pre_set, 'mut': pre_mut, 'pedit': pre_pedit, 'pmut': pre_pmut, 'attach': pre_attach,
           'subset': pre_subset, 'watch': pre_watch, 'watchfn': pre_watchfn, 'attr': pre_attr}


def post_set(o):
    # 60 is inside the class bounds (-100, 100) and outside the edited instance bounds (-5, 50);
    # 4 is a legal Selector value only where the instance's objects list has been extended
    return _set(o, 'v', 60) + ',' + _set(o, 's', 4) + ',' + _set(o, 'lst', [9])


def post_mut(o):
    o.lst.append(8)
    o.dct['d'].append(8)
    return 'ok'


def post_pedit(o):
    o.param.v.bounds = (-1, 1)
    o.param.v.doc = 'edited-after'
    return 'ok'


def post_pmut(o):
    o.param.s.objects.append(5)
    return 'ok'


def post_attach(o):
    return _set(o, 'a', Sub(name='S2', x=10))


def post_subset(o):
    if o.a is None:
        return SKIP
    return _set(o.a, 'x', o.a.x + 2)


def post_attr(o):
    if hasattr(o, 'extra'):
        o.extra['k'].append(2)
    else:
        o.extra = {'k': [2]}
    return 'ok'


def post_const(o):
    return _set(o, 'k', 9)            # a constant of an initialised object: TypeError expected everywhere


def post_watch(o):
    o.param.watch(o.user_cb, ['v', 's'])
    return 'ok'


def post_slot(o):
    """grow the lists held in slots in place, rebind the strings, fill one unset slot"""
    names = slot_names(type(o))
    if not names:
        return SKIP
    filled = False
    for n in names:
        if not hasattr(o, n):
            if not filled:
                setattr(o, n, ['late', n])
                filled = True
        elif isinstance(getattr(o, n), list):
            getattr(o, n).append('grown')
        else:
            setattr(o, n, getattr(o, n) + '+')
    return 'ok'


POST_OPS = {'set': post_set, 'mut': post_mut, 'pedit': post_pedit, 'pmut': post_pmut, 'attach': post_attach,
            'subset': post_subset, 'attr': post_attr, 'const': post_const, 'watch': post_watch}


# ---- family "ordinary attributes": attribute names x values --------------------------------------------------
# Every name other than `_param__private` (the private namespace itself) and `param` (the accessor property, not
# assignable) is an ordinary attribute and must survive -- also the names under which earlier versions of param
# kept their bookkeeping in the instance __dict__.
ATTR_NAMES = (
    # bookkeeping names of earlier param versions (ordinary names today)
    'initialized', '_param_watchers', '_dynamic_watchers', '_instance__params', '_parameters_state',
    '_instance__params_state', '_param_watchers_state',
    # private / underscore-prefixed
    '_cache', '_x', '_', '__', '_v', '_name', '_lst', '__x', '__tag__', '_Attr__secret', '_Plain__secret',
    # look like param's bookkeeping but are not identical to it
    '_param', '_param_', '_params', '_param_x', '_param__privat', '_param__private_', '_param__private2',
    '_param_watcher', '_param_watchers_', '_dynamic_watcher', '_dynamic_watchers_', '_instance__param',
    '_instance__params_', '_parameters_state_', '_parameters', 'initialized_', '_initialized', 'param_', 'Param',
    '_param__values', '_param__watchers',
    # names of the slots of the private namespace / of the Parameters accessor state
    'parameters_state', 'dynamic_watchers', 'params', 'async_refs', 'refs', 'ref_watchers', 'syncing', 'watchers',
    'values', 'explicit_no_refs', '_BATCH_WATCH', '_TRIGGER', '_events', '_watchers', 'BATCH_WATCH', 'events',
    'self', 'self_', 'cls', '_cls', 'self_or_cls',
    # parameter names of other classes, near-misses of own parameter names, odd but legal names
    'x', 'y', 'p', 'w', 'v_', 'name_', 'Name', 'X', 'a1', 'lambda', 'z' * 40, '0',
)

IMMUTABLE_KINDS = ('int', 'zero', 'none', 'false', 'true', 'float', 'str', 'estr', 'tuple', 'etuple', 'bytes',
                   'frozenset', 'type', 'func')
MUTABLE_KINDS = ('list', 'elist', 'nested', 'dict', 'edict', 'set', 'bytearray', 'tuplelist', 'box', 'sub', 'pobj')
# values that refer back into the object itself (internal aliasing must be preserved by a copy)
GRAPH_KINDS = ('self', 'alias', 'bound', 'watcher')
VALUE_KINDS = IMMUTABLE_KINDS + MUTABLE_KINDS + GRAPH_KINDS


def make_value(kind, o):
    """a fresh value of the given kind; the GRAPH kinds need the (initialised) object `o`"""
    if kind in GRAPH_KINDS and o is None:
        kind = 'nested'                    # attributes set before Parameterized.__init__: no object graph yet
    if kind == 'self':
        return o
    if kind == 'alias':
        return o.lst                       # the very list that is the value of parameter `lst`
    if kind == 'bound':
        return o.user_cb
    if kind == 'watcher':
        return o.param.watch(fn_watch, ['v'])      # the handle of a user watcher kept as an attribute
    return {
        'int': lambda: 7, 'zero': lambda: 0, 'none': lambda: None, 'false': lambda: False, 'true': lambda: True,
        'float': lambda: 2.5, 'str': lambda: 'text', 'estr': lambda: '', 'tuple': lambda: (1, 'a', (2,)),
        'etuple': lambda: (), 'bytes': lambda: b'ab', 'frozenset': lambda: frozenset((1, 2)), 'type': lambda: Sub,
        'func': lambda: fn_watch,
        'list': lambda: [1, 2], 'elist': lambda: [], 'nested': lambda: {'k': [1, {'j': [2]}]},
        'dict': lambda: {'k': 1}, 'edict': lambda: {}, 'set': lambda: {1, 2}, 'bytearray': lambda: bytearray(b'ab'),
        'tuplelist': lambda: ([1], 'a'), 'box': lambda: Box(1, [2]), 'sub': lambda: Sub(name='A', x=1),
        'pobj': lambda: param.Number(default=3, bounds=(0, 5), doc='free-standing Parameter object'),
    }[kind]()


def _kind_at(i, shift):
    return VALUE_KINDS[(i + shift) % len(VALUE_KINDS)]


def pre_attrs(o, arg):
    """attrs:<shift> -- every name of ATTR_NAMES at once, name i carrying value kind (i + shift) mod #kinds
    (all (name, kind) pairs are covered by the #kinds shifts)"""
    for i, n in enumerate(ATTR_NAMES):
        setattr(o, n, make_value(_kind_at(i, int(arg)), o))
    return 'ok'


def _early_list(pre):
    """the attributes that the `early:` / `earlys:` operations of a pre-history put in front of __init__"""
    out = []
    for op in pre:
        if op.startswith('early:'):
            n, kind = op[len('early:'):].rsplit('=', 1)
            out.append((n, kind))
        elif op.startswith('earlys:'):
            out.extend((n, _kind_at(i, int(op[len('earlys:'):]))) for i, n in enumerate(ATTR_NAMES))
    return out


def pre_early(o, arg):
    return 'ok' if isinstance(o, Attr) else SKIP       # done by build() through Attr.__init__


def _ordinary(o):
    return [k for k in sorted(o.__dict__) if k not in ('_param__private', 'calls')]


def _mutate(v, seen):
    """grow every mutable object reachable from an attribute value in place"""
    if id(v) in seen:
        return
    seen.add(id(v))
    if isinstance(v, list):
        for y in list(v):
            _mutate(y, seen)
        v.append('m')
    elif isinstance(v, dict):
        for y in list(v.values()):
            _mutate(y, seen)
        v['m'] = ['m']
    elif isinstance(v, set):
        v.add('m')
    elif isinstance(v, bytearray):
        v.append(109)
    elif isinstance(v, Box):
        v.items.append('m')
    elif isinstance(v, Sub):
        v.x = v.x + 1
    elif isinstance(v, param.Parameter):
        v.doc = (v.doc or '') + 'm'
    elif isinstance(v, tuple) and not hasattr(v, '_fields'):
        for y in v:
            _mutate(y, seen)


def post_amut(o):
    """in-place mutation of every mutable ordinary attribute value"""
    seen = {id(o)}
    for k in _ordinary(o):
        _mutate(o.__dict__[k], seen)
    return 'ok'


def post_aset(o):
    """rebind every ordinary attribute"""
    for k in _ordinary(o):
        setattr(o, k, ['new', k])
    return 'ok'


def post_adel(o):
    """delete every ordinary attribute"""
    for k in _ordinary(o):
        delattr(o, k)
    return 'ok'


ATTR_PRE_OPS = {'attr': pre_attr, 'attrs': pre_attrs, 'early': pre_early, 'earlys': pre_early,
                'set': pre_set, 'watch': pre_watch, 'pedit': pre_pedit}
ATTR_POST_OPS = {'amut': post_amut, 'aset': post_aset, 'adel': post_adel, 'set': post_set, 'mut': post_mut}


# ---- family "several parameters at once" (class Multi) ----------------------------------------------------------
def op_upd2(o):
    return _try(lambda: o.param.update(p=o.p + 1, q=o.q + 1))


def op_upd3(o):
    return _try(lambda: o.param.update(p=o.p + 1, q=o.q + 1, r=o.r + 1))


def op_updvp(o):
    return _try(lambda: o.param.update(v=o.v + 1, p=o.p + 1))


def op_batch2(o):
    def f():
        with param.parameterized.batch_call_watchers(o):
            o.p = o.p + 1
            o.q = o.q + 1
    return _try(f)


def op_trig2(o):
    return _try(lambda: o.param.trigger('p', 'q'))


def op_setp(o):
    return _set(o, 'p', o.p + 1)


def op_seteach(o):
    """the parameters of the multi-parameter dependencies one after the other (each registration must work)"""
    return _set(o, 'p', o.p + 1) + ',' + _set(o, 'q', o.q + 1) + ',' + _set(o, 'r', o.r + 1)


def op_setw(o):
    return _set(o, 'w', o.w + 1)


def op_same(o):
    """assign the current values again: nothing changes, no watcher may run"""
    return _set(o, 'v', o.v) + ',' + _set(o, 'p', o.p)


def op_watchm(o):
    o.param.watch(o.user_cb, ['p', 'q'])
    return 'ok'


def op_watchfn2(o):
    o.param.watch(fn_watch, ['p', 'q', 'r'])
    return 'ok'


MULTI_PRE_OPS = {'upd2': op_upd2, 'setp': op_setp, 'setw': op_setw, 'watchm': op_watchm, 'watchfn2': op_watchfn2}
MULTI_POST_OPS = {'upd2': op_upd2, 'upd3': op_upd3, 'updvp': op_updvp, 'batch2': op_batch2, 'trig2': op_trig2,
                  'setp': op_setp, 'seteach': op_seteach, 'same': op_same, 'setw': op_setw, 'watchm': op_watchm}
# copies taken in the middle of a dispatch (class Multi, contexts CTXS below)
CTX_PRE_OPS = {'set': pre_set, 'watch': pre_watch, 'watchm': op_watchm, 'upd2': op_upd2}
# (no operation here changes two parameters of one multi-parameter dependency: that is the Multi family's business)
CTX_POST_OPS = {'set': post_set, 'same': op_same, 'updvp': op_updvp, 'setw': op_setw, 'setp': op_setp}

# ---- family "callable shapes x precedence" (class Wat) ----------------------------------------------------------
# operation  w:<shape>.<effect>@<precedence>:<parameters>   registers a value watcher with param.watch on the instance
#   shape    meth      bound method of the instance                      (o.cb_add1)
#            pbound    functools.partial around a bound method of it     (partial(o.cb_eff, 'add1'))
#            pfunc     functools.partial around a module-level function  (partial(fn_eff, 'add1', 'pfunc'))
#            lam       lambda closing over the instance (not picklable: copy.deepcopy only)
#            other     bound method of ANOTHER (plain) object kept in o.recs; the method is named like one of o's
#            othersub  bound method of the attached Parameterized sub-object o.a (attached first if there is none)
#            cobj      callable object kept in o.recs
#            cobjown   callable object holding a reference to the instance and acting on it
#   effect   add1 | mul2 (order-sensitive);  precedence 0 | 1 | 2;  parameters p | q | pq (one watcher of both)
W_SHAPES = ('meth', 'pbound', 'pfunc', 'lam', 'other', 'othersub', 'cobj', 'cobjown')
W_EFFECTS = ('add1', 'mul2')
W_PRECS = (0, 1, 2)
W_PARAMS = ('p', 'q', 'pq')
UNPICKLABLE_SHAPES = ('lam',)


def make_callback(o, shape, eff):
    if shape == 'meth':
        return getattr(o, 'cb_' + eff)
    if shape == 'pbound':
        return functools.partial(o.cb_eff, eff)
    if shape == 'pfunc':
        return functools.partial(fn_eff, eff, 'pfunc')
    if shape == 'lam':
        return lambda *events: fn_eff(eff, 'lam', *events) if o is not None else None
    if shape in ('other', 'cobj', 'cobjown'):
        rec = Rec(eff, o if shape == 'cobjown' else None)
        if 'recs' not in o.__dict__:
            o.recs = []
        o.recs.append(rec)
        return getattr(rec, 'cb_' + eff) if shape == 'other' else rec
    if shape == 'othersub':
        if o.a is None:
            o.a = Sub(name='S', x=1)
        return getattr(o.a, 'cb_' + eff)
    raise ValueError(shape)


def w_op(shape, eff='add1', prec=0, params='p'):
    return 'w:%s.%s@%d:%s' % (shape, eff, prec, params)


def parse_w(arg):
    head, params = arg.split(':')
    se, prec = head.split('@')
    shape, eff = se.split('.')
    return shape, eff, int(prec), params


def op_w(o, arg):
    shape, eff, prec, params = parse_w(arg)
    if not isinstance(o, Wat):
        return SKIP
    cb = make_callback(o, shape, eff)
    return _try(lambda: o.param.watch(cb, list(params), precedence=prec))


def op_setq(o):
    return _set(o, 'q', o.q + 1)


def op_updqp(o):
    """one update naming q before p (the dispatch order is decided by precedence, not by the order of the events)"""
    return _try(lambda: o.param.update(q=o.q + 1, p=o.p + 1))


def op_trigp(o):
    return _try(lambda: o.param.trigger('p'))


WAT_PRE_OPS = {'w': op_w, 'set': pre_set, 'attach': pre_attach}
WAT_POST_FIXED = {'setp': op_setp, 'setq': op_setq, 'upd2': op_upd2, 'updqp': op_updqp, 'batch2': op_batch2,
                  'trigp': op_trigp}
# watchers registered AFTER the copy (their precedence competes with that of the copied watchers)
WAT_POST_W = (w_op('meth', 'add1', 1, 'p'), w_op('pbound', 'mul2', 0, 'pq'))
WAT_POST = tuple(WAT_POST_FIXED) + WAT_POST_W

# ---- family "watcher handles kept by the object and used after the copy" (class Hand) --------------------------------
# operation  h:<shape>.<effect>@<precedence>:<parameters>   like `w:` but the object KEEPS the handle that param.watch
#            returns (appended to the ordinary attribute `handles`; the first one is also bound to `_handle`);
#            hq:...  the same with queued=True
#   post     unw:<k>   param.unwatch with the k-th handle the object holds (the callback must stop, once and for all)
#            rew:<k>   unwatch the k-th handle and register the same callback again (same parameters, precedence,
#                      queued), keeping the new handle in the same place
#            unwa      unwatch `_handle` (the single attribute), then every handle of `handles` that is still registered
#   Nothing of this raises when it fails (param.unwatch only logs a warning): the effect is observed through the
#   invocation logs of the assignments that follow.
def _keep(o, h):
    if 'handles' not in o.__dict__:
        o.handles = []
        o._handle = h
    o.handles.append(h)


def op_h(o, arg, queued=False):
    shape, eff, prec, params = parse_w(arg)
    if not isinstance(o, Hand):
        return SKIP
    cb = make_callback(o, shape, eff)
    return _try(lambda: _keep(o, o.param.watch(cb, list(params), precedence=prec, queued=queued)))


def op_hq(o, arg):
    return op_h(o, arg, True)


def h_op(shape, eff='add1', prec=0, params='p', queued=False):
    return ('hq:' if queued else 'h:') + w_op(shape, eff, prec, params)[2:]


def op_unw(o, arg):
    hs = o.__dict__.get('handles', [])
    if int(arg) >= len(hs):
        return SKIP
    return _try(lambda: o.param.unwatch(hs[int(arg)]))


def op_rew(o, arg):
    hs = o.__dict__.get('handles', [])
    k = int(arg)
    if k >= len(hs):
        return SKIP

    def f():
        h = hs[k]
        o.param.unwatch(h)
        hs[k] = o.param.watch(h.fn, list(h.parameter_names), precedence=h.precedence, queued=h.queued)
    return _try(f)


def op_unwa(o):
    hs = o.__dict__.get('handles', [])
    if not hs:
        return SKIP

    def f():
        o.param.unwatch(o._handle)
        for h in hs[1:]:
            o.param.unwatch(h)
    return _try(f)


HAND_PRE_OPS = {'h': op_h, 'hq': op_hq, 'set': pre_set, 'attach': pre_attach}
HAND_POST_OPS = {'unw': op_unw, 'rew': op_rew, 'unwa': op_unwa, 'setp': op_setp, 'setq': op_setq, 'upd2': op_upd2,
                 'trigp': op_trigp}
HAND_POST = ('unw:0', 'unw:1', 'rew:0', 'unwa', 'setp', 'setq', 'upd2', 'trigp')


# ---- family "copies taken from inside watcher callbacks of every kind" (class Cb) -----------------------------------
# context   cb.<fire>.<order>.<D>.<C>.<Y>
#   fire    set (o.x = ..) | upd (param.update(x=.., z=..)) | trig (param.trigger('x')) | batch (assignment of x inside
#           batch_call_watchers)
#   D       deriving watcher on x (its callback assigns y, another watched parameter):  q|n (queued or not) + precedence
#   C       copying watcher (the copy is taken from inside its callback):  q|n + precedence + watched parameter x|y
#   order   dc | cd  registration order of D and C (decides ties of precedence)
#   Y       q|n  whether the logging watcher of y is queued
def cb_ctx(fire, order, dq, dp, cq, cp, ct, yq):
    return 'cb.%s.%s.%s%d.%s%d%s.%s' % (fire, order, dq, dp, cq, cp, ct, yq)


def _cb_register(o, ctx):
    fire, order, D, C, Y = ctx.split('.')[1:]
    reg = {'d': lambda: o.param.watch(o.derive, ['x'], queued=D[0] == 'q', precedence=int(D[1])),
           'c': lambda: o.param.watch(o.checkpoint, [C[2]], queued=C[0] == 'q', precedence=int(C[1]))}
    for k in order:
        reg[k]()
    o.param.watch(o.on_y, ['y'], queued=Y == 'q')
    o.param.watch(o.on_z, ['z'])
    return fire


def _cb_fire(o, fire):
    if fire == 'set':
        o.x = o.x + 1
    elif fire == 'upd':
        o.param.update(x=o.x + 1, z=o.z + 1)
    elif fire == 'trig':
        o.param.trigger('x')
    else:
        with param.parameterized.batch_call_watchers(o):
            o.x = o.x + 1


def op_setx(o):
    return _set(o, 'x', o.x + 1)


def op_sety(o):
    return _set(o, 'y', o.y + 1)


def op_setz(o):
    return _set(o, 'z', o.z + 1)


def op_updxz(o):
    return _try(lambda: o.param.update(x=o.x + 1, z=o.z + 1))


def op_samexyz(o):
    """assign the current values again: nothing changes, nothing may be announced"""
    return _set(o, 'x', o.x) + ',' + _set(o, 'y', o.y) + ',' + _set(o, 'z', o.z)


def op_trigz(o):
    return _try(lambda: o.param.trigger('z'))


CB_PRE_OPS = {'set': pre_set, 'watch': pre_watch}
CB_POST_OPS = {'setz': op_setz, 'setx': op_setx, 'sety': op_sety, 'updxz': op_updxz, 'samexyz': op_samexyz,
               'trigz': op_trigz}

# the alphabets of the slotted model classes (the other operations are covered on Plain / Main)
SLOT_PRE_OPS = {'slot': pre_slot, 'slotpart': pre_slotpart, 'attr': pre_attr, 'set': pre_set, 'watch': pre_watch}
SLOT_POST_OPS = {'slot': post_slot, 'attr': post_attr, 'set': post_set, 'mut': post_mut}
_ALL_PRE = dict(PRE_OPS, **SLOT_PRE_OPS)
_ALL_POST = dict(POST_OPS, **SLOT_POST_OPS)
for _t in (ATTR_PRE_OPS, MULTI_PRE_OPS, CTX_PRE_OPS, WAT_PRE_OPS, HAND_PRE_OPS, CB_PRE_OPS):
    for _k, _f in _t.items():
        assert _ALL_PRE.setdefault(_k, _f) is _f, _k
for _t in (ATTR_POST_OPS, MULTI_POST_OPS, CTX_POST_OPS, WAT_POST_FIXED, {'w': op_w}, HAND_POST_OPS, CB_POST_OPS):
    for _k, _f in _t.items():
        assert _ALL_POST.setdefault(_k, _f) is _f, _k


def _call(table, op, o):
    """operations are named `op` or `op:argument`"""
    if ':' in op:
        base, arg = op.split(':', 1)
        return table[base](o, arg)
    return table[op](o)

MECHS = ('deepcopy', 'pickle2', 'pickle3', 'pickle4', 'pickle5')


def build(cname, pre):
    """fresh object of the model class driven through the pre-history; None when not applicable"""
    early = _early_list(pre)
    _EARLY[:] = early
    try:
        o = CLASSES[cname.partition('@')[0]](name='M')
    finally:
        _EARLY[:] = []
    out = []
    for op in pre:
        r = _call(_ALL_PRE, op, o)
        if r == SKIP:
            return None, None
        out.append((op, r))
    return o, out


def apply_post(o, post):
    out = []
    for op in post:
        r = _call(_ALL_POST, op, o)
        if r == SKIP:
            return None
        out.append((op, r))
    return out


def make_copy(o, mech):
    if mech == 'deepcopy':
        return copy.deepcopy(o)
    return pickle.loads(pickle.dumps(o, int(mech[len('pickle'):])))


# ------------------------------------------------------------------------------------------------
# observation: values, per-instance Parameter attributes, ordinary attributes (incl. invocation logs)
# ------------------------------------------------------------------------------------------------
META = ('default', 'doc', 'bounds', 'inclusive_bounds', 'softbounds', 'step', 'constant', 'readonly',
        'allow_None', '_label', 'precedence', 'instantiate', 'per_instance', 'objects', 'class_', 'item_type',
        'check_on_set', 'allow_refs', 'nested_refs')
_MISSING = '<missing>'


_SNAP_STACK = []        # ids of the Parameterized objects whose snapshot is being taken (reference cycles)


def plain(x):
    if isinstance(x, param.Parameterized):
        if id(x) in _SNAP_STACK:           # a reference back to an enclosing object: position, not identity
            return '<enclosing object %d level(s) up>' % (len(_SNAP_STACK) - _SNAP_STACK.index(id(x)))
        return snap(x)
    if isinstance(x, (list, tuple)):
        return [type(x).__name__] + [plain(y) for y in x]
    if isinstance(x, dict):
        return {repr(k): plain(v) for k, v in x.items()}
    if isinstance(x, type):
        return x.__name__
    if x is None or isinstance(x, (bool, int, float, str)):
        return x
    if isinstance(x, (set, frozenset)):
        return [type(x).__name__] + sorted(repr(plain(y)) for y in x)
    if isinstance(x, (bytes, bytearray)):
        return [type(x).__name__, repr(bytes(x))]
    if isinstance(x, Box):
        return {'<Box>': plain(x.items)}
    if isinstance(x, Rec):
        return {'<Rec>': x.eff, 'total': x.total, 'log': plain(x.log), 'owner': plain(x.owner)}
    if isinstance(x, param.Parameter):
        return {'<Parameter>': type(x).__name__, 'meta': _meta(x)}
    if hasattr(x, '__self__') and hasattr(x, '__func__'):      # bound method: which object is it bound to?
        return {'<bound method>': x.__func__.__name__, 'of': plain(x.__self__)}
    if callable(x) and hasattr(x, '__qualname__'):
        return '<function %s>' % x.__qualname__
    return repr(type(x))


_CLASS_META = {}


def _meta(p):
    return {s: plain(getattr(p, s, _MISSING)) for s in META}


def _class_meta(cls, n):
    k = (cls, n)
    if k not in _CLASS_META:           # class-level Parameters never change in this layer (checked
        _CLASS_META[k] = _meta(cls.param.objects('existing')[n])   # by class_state_clean())
    return _CLASS_META[k]


def snap(o):
    """Values, Parameter attributes and ordinary attributes as plain data.

    Does not perturb the object: objects('existing') never instantiates per-instance Parameters.
    A Parameter's attributes are listed only where they differ from the class-level Parameter (an
    unedited per-instance copy is not observably different from having none)."""
    _SNAP_STACK.append(id(o))
    try:
        pobjs = o.param.objects('existing')
        cls = type(o)
        meta = {}
        for n, p in pobjs.items():
            if p is not cls.param.objects('existing')[n]:
                m = _meta(p)
                cm = _class_meta(cls, n)
                if m != cm:
                    meta[n] = {s: v for s, v in m.items() if v != cm[s]}
        return {
            'class': cls.__name__,
            'values': {n: plain(getattr(o, n)) for n in sorted(pobjs)},
            'meta': meta,
            'attrs': {k: plain(v) for k, v in sorted(o.__dict__.items()) if k != '_param__private'},
            'slots': {n: (plain(getattr(o, n)) if hasattr(o, n) else '<unset>') for n in slot_names(cls)},
        }
    finally:
        _SNAP_STACK.pop()


def diff(a, b, path=''):
    """first difference between two snapshots as a dotted path (None when equal)"""
    if type(a) is not type(b):
        return path or '.'
    if isinstance(a, dict):
        for k in sorted(set(a) | set(b)):
            if k not in a or k not in b:
                return (path + '.' + k).lstrip('.')
            d = diff(a[k], b[k], path + '.' + k)
            if d:
                return d.lstrip('.')
        return None
    if isinstance(a, list):
        if len(a) != len(b):
            return path.lstrip('.') or '.'
        for i, (x, y) in enumerate(zip(a, b)):
            d = diff(x, y, path)
            if d:
                return d.lstrip('.')
        return None
    return None if a == b else (path.lstrip('.') or '.')


def _is_subseq(a, b):
    it = iter(b)
    return all(any(x == y for y in it) for x in a)


def _dpath(d, exp, got):
    """a difference in an invocation log is qualified: [missing] (calls that an uncopied object makes are not made),
    [extra] (all expected calls plus further ones) or [differs]"""
    if d and d.endswith('attrs.calls'):
        e, g = _at(exp, d), _at(got, d)
        if isinstance(e, list) and isinstance(g, list):
            if len(g) < len(e) and _is_subseq(g, e):
                return d + '[missing]'
            if len(g) > len(e) and _is_subseq(e, g):
                return d + '[extra]'
            return d + '[differs]'
    return d


def _mutables(o):
    """id -> description of the mutable objects that make up the instance state"""
    found = {}

    def walk(x, where):
        if isinstance(x, param.Parameterized):
            if id(x) in found:
                return
            found[id(x)] = where + ':' + type(x).__name__
            priv = x._param__private
            for n, v in priv.values.items():
                walk(v, where + '.' + n)
            for n, p in priv.params.items():
                found[id(p)] = where + '.param.' + n
                for slot in ('_objects', 'bounds', 'default'):
                    walk(getattr(p, slot, None), where + '.param.' + n + '.' + slot)
            for k, v in x.__dict__.items():
                if k != '_param__private':
                    walk(v, where + '.' + k)
            for k in slot_names(type(x)):
                if hasattr(x, k):
                    walk(getattr(x, k), where + '.' + k)
        elif isinstance(x, (list, dict, set)):
            if id(x) in found:
                return
            found[id(x)] = where + ':' + type(x).__name__
            for i, y in enumerate(x.values() if isinstance(x, dict) else x):
                walk(y, where + '[]')
        elif isinstance(x, (bytearray, param.Parameter)):
            found[id(x)] = where + ':' + type(x).__name__
        elif isinstance(x, Box):
            if id(x) in found:
                return
            found[id(x)] = where + ':Box'
            walk(x.items, where + '.items')
        elif isinstance(x, Rec):
            if id(x) in found:
                return
            found[id(x)] = where + ':Rec'
            walk(x.log, where + '.log')
            walk(x.owner, where + '.owner')
        elif isinstance(x, tuple) and depth[0] < 20:    # immutable itself, may hold mutable objects
            depth[0] += 1
            for y in x:
                walk(y, where + '()')
            depth[0] -= 1
        elif hasattr(x, '__self__') and hasattr(x, '__func__') and isinstance(x.__self__, param.Parameterized):
            walk(x.__self__, where + '.__self__')
    depth = [0]
    walk(o, 'obj')
    return found


def shared_mutables(o, c):
    a, b = _mutables(o), _mutables(c)
    return sorted(a[i] for i in a if i in b)


# ------------------------------------------------------------------------------------------------
# one scenario
# ------------------------------------------------------------------------------------------------
def reference(cname, pre, post):
    """what an object that is never copied looks like before / after `post` (None: not applicable)"""
    if '@' in cname:
        return ctx_reference(cname, pre, post)
    ref0, _ = build(cname, pre)
    if ref0 is None:
        return None
    e_pre = snap(ref0)
    ref_out = apply_post(ref0, post)
    if ref_out is None:
        return None
    return e_pre, ref_out, snap(ref0)


def run_scenario(cname, pre, mech, post, side, ref=None):
    """Build the object through `pre`, copy it with `mech`, apply `post` to `side`: 'orig', 'copy' or
    'both' (first to the copy, checking both objects, then to the original, checking both again).

    Returns a list of (clause, diffpath, side, detail); [] when the statement holds; None when the
    history is not applicable.  The expectation comes from the statement: the copy equals the
    original at copy time, the side that was driven behaves like an uncopied object driven through
    the same history (reference = a fresh object, never copied), the other side stays as it was.
    """
    if ref is None:
        ref = reference(cname, pre, post)      # (the layer passes a cached one)
    if ref is None:
        return None
    if '@' in cname:
        return run_ctx_scenario(cname, pre, mech, post, ref)
    e_pre, ref_out, e_post = ref
    o, _ = build(cname, pre)
    res = []
    try:
        c = make_copy(o, mech)
    except Exception as e:
        return [('C17/copy/succeeds', type(e).__name__, '-', '%s of %s after %r raised %s: %s'
                 % (mech, cname, list(pre), type(e).__name__, e))]
    d = diff(e_pre, snap(o))
    if d:
        res.append(('C17/copy/original-undisturbed', d, '-', 'copying changed the original at %s' % d))
    try:
        sc = snap(c)
        sh = shared_mutables(o, c)
    except Exception as e:
        return res + [('C17/copy/equal-at-copy', 'unusable:' + type(e).__name__, '-', 'the copy cannot even be '
                       'inspected (values / Parameters / attributes): %s: %s' % (type(e).__name__, e))]
    d = diff(e_pre, sc)
    if d:
        res.append(('C17/copy/equal-at-copy', d, '-', 'the copy differs from the original at %s: original %r copy %r'
                    % (d, _at(e_pre, d), _at(sc, d))))
    if sh:
        res.append(('C17/copy/no-shared-mutable', sh[0].split(':')[0], '-',
                    'mutable objects shared by identity: %r' % sh[:5]))
    if res:
        return res
    first_done = False
    for sd_ in (('copy', 'orig') if side == 'both' else (side,)):
        driven, other = (o, c) if sd_ == 'orig' else (c, o)
        oname = 'copy' if sd_ == 'orig' else 'original'
        # the other side is untouched, or (second phase of 'both') has been driven already
        e_other = e_post if first_done else e_pre
        try:
            out = apply_post(driven, post)
        except Exception as e:
            return [('C17/after/faithful', 'exception:' + type(e).__name__, sd_,
                     'history %r on the %s raised %s: %s' % (list(post), sd_, type(e).__name__, e))]
        if out != ref_out:
            res.append(('C17/after/faithful', 'outcomes', sd_, 'outcomes of %r on the %s are %r, on an uncopied '
                        'object %r' % (list(post), sd_, out, ref_out)))
        s1 = snap(driven)
        d = diff(e_post, s1)
        if d:
            res.append(('C17/after/faithful', _dpath(d, e_post, s1), sd_, 'after %r on the %s: %s is %r, an uncopied '
                        'object has %r' % (list(post), sd_, d, _at(s1, d), _at(e_post, d))))
        s2 = snap(other)
        d = diff(e_other, s2)
        if d:
            res.append(('C17/after/independent', _dpath(d, e_other, s2), sd_, 'after %r on the %s the %s changed at '
                        '%s: %r -> %r' % (list(post), sd_, oname, d, _at(e_other, d), _at(s2, d))))
        if res:
            return res
        first_done = True
    return res


# ------------------------------------------------------------------------------------------------
# copies taken in the middle of a dispatch: inside a batch (nothing / something queued), inside discard_events,
# inside a watcher callback (plain set, update of several parameters, queued dependency, trigger, user watcher)
# ------------------------------------------------------------------------------------------------
CTXS = ('batch', 'batchq', 'batchnest', 'discard', 'cbset', 'cbupd', 'cbqueued', 'cbtrig', 'cbuser')
_CB = {'cbset': ('on_v', lambda o: setattr(o, 'v', 7)),
       'cbupd': ('on_pq', lambda o: o.param.update(v=7, p=7, q=7)),
       'cbqueued': ('on_w', lambda o: setattr(o, 'w', 7)),
       'cbtrig': ('on_v', lambda o: o.param.trigger('v')),
       'cbuser': ('user_cb', lambda o: setattr(o, 'v', 7))}


def in_context(o, ctx, at_copy):
    """Drive `o` into the context, call at_copy(o) exactly once at the copy point, leave the context.
    False when the copy point is not reached (`cbuser` without a user watcher)."""
    global _HOOK
    P = param.parameterized
    done = []

    def point(x):
        done.append(1)
        at_copy(x)
    if ctx == 'batch':
        with P.batch_call_watchers(o):
            point(o)
    elif ctx == 'batchq':
        with P.batch_call_watchers(o):
            o.v = 7
            o.p = 7
            point(o)
    elif ctx == 'batchnest':
        with P.batch_call_watchers(o):
            o.v = 7
            with P.batch_call_watchers(o):
                o.p = 7
                point(o)
    elif ctx == 'discard':
        with P.discard_events(o):
            o.v = 7
            point(o)
    else:
        if ctx.startswith('cb.'):
            kind = _cb_register(o, ctx)
            where, fire = 'checkpoint', (lambda x: _cb_fire(x, kind))
        else:
            where, fire = _CB[ctx]

        def hook(x, w):
            if x is o and w == where and not done:
                point(x)
        _HOOK = hook
        try:
            fire(o)
        finally:
            _HOOK = None
    return bool(done)


def _calls(s):
    return s['attrs']['calls']


def _with_calls(s, calls):
    s = dict(s)
    s['attrs'] = dict(s['attrs'], calls=calls)
    return s


def ctx_reference(cname, pre, post):
    """the never-copied object: snapshot at the copy point, at the end of the context, after `post`"""
    ctx = cname.partition('@')[2]
    r, _ = build(cname, pre)
    if r is None:
        return None
    marks, raw = [], []
    if not in_context(r, ctx, lambda x: (marks.append(snap(x)), raw.append(copy.deepcopy(x.calls)))):
        return None
    e_end = snap(r)
    ref_out = apply_post(r, post)
    if ref_out is None:
        return None
    if ctx.startswith('cb.'):
        return marks[0], e_end, ref_out, snap(r), idle_reference(cname, pre, post, marks[0], raw[0])
    return marks[0], e_end, ref_out, snap(r)


def idle_reference(cname, pre, post, e_at, log_at):
    """Family Cb: the callbacks still to be run at the copy point change parameter values, so 'the calls pending at
    the copy point are not made on the copy' cannot be read off the never-copied object that finished its dispatch.
    The expectation is a never-copied, IDLE object in the state of the copy point: a fresh object taken through
    the pre-history, given the values x, y, z of the copy point by plain assignments before any watcher of them
    exists, then the same watchers (same registration order), and the invocation log of the copy point.
    Returns (outcomes of `post`, snapshot after `post`); None if the construction does not give the copy-point state
    (then only the other reading is available)."""
    ctx = cname.partition('@')[2]
    r, _ = build(cname, pre)
    if r is None:
        return None
    for n in ('x', 'y', 'z'):
        setattr(r, n, e_at['values'][n])
    _cb_register(r, ctx)
    r.calls[:] = log_at
    if diff(e_at, snap(r)):
        return None
    out = apply_post(r, post)
    if out is None:
        return None
    return out, snap(r)


def run_ctx_scenario(cname, pre, mech, post, ref):
    """The copy is taken at the copy point of the context (see CTXS).  Expectations (lenient): at the copy point the
    copy equals the original; what the original still delivers when the context ends reaches the original only
    and the original behaves like an object that was never copied; the copy, driven through `post` afterwards
    (outside any context), behaves like the never-copied object driven through `post` after the context -- where
    the calls that were still pending at the copy point (made by the original between the copy point and the
    end of the context) may or may not be made on the copy."""
    ctx = cname.partition('@')[2]
    idle = None
    if len(ref) == 5:
        idle, ref = ref[4], ref[:4]
    e_at, e_end, ref_out, e_post = ref
    L0, L1, L2 = _calls(e_at), _calls(e_end), _calls(e_post)
    pending, later = L1[len(L0):], L2[len(L1):]
    o, _ = build(cname, pre)
    got = {}

    def at_copy(x):
        got['o_at'] = snap(x)
        try:
            got['c'] = make_copy(x, mech)
        except Exception as e:
            got['err'] = e
            return
        try:
            got['c_at'] = snap(got['c'])
        except Exception as e:
            got['unusable'] = e
    try:
        in_context(o, ctx, at_copy)
    except Exception as e:
        got.setdefault('err', e)
    if 'err' in got or 'c' not in got:
        e = got.get('err')
        return [('C17/copy/succeeds', type(e).__name__, '-', '%s of %s inside context %s after %r raised %s: %s'
                 % (mech, cname, ctx, list(pre), type(e).__name__, e))]
    c = got['c']
    if 'unusable' in got:
        e = got['unusable']
        return [('C17/copy/equal-at-copy', 'unusable:' + type(e).__name__, '-', 'the copy cannot even be inspected '
                 '(values / Parameters / attributes): %s: %s' % (type(e).__name__, e))]
    res = []
    d = diff(e_at, got['c_at'])
    if d:
        res.append(('C17/copy/equal-at-copy', _dpath(d, e_at, got['c_at']), '-', 'the copy differs from the original '
                    'at %s: original %r copy %r' % (d, _at(e_at, d), _at(got['c_at'], d))))
    so = snap(o)
    d = diff(e_at, got['o_at']) or diff(e_end, so)
    if d:
        res.append(('C17/copy/original-undisturbed', _dpath(d, e_end, so), '-', 'copying inside the context changed '
                    'what the original does until the end of the context, at %s: %r, uncopied %r'
                    % (d, _at(so, d), _at(e_end, d))))
    sc = snap(c)
    d = diff(got['c_at'], sc)
    if d:
        res.append(('C17/after/independent', _dpath(d, got['c_at'], sc), 'ctx-exit', 'leaving the context on the '
                    'original changed the copy at %s: %r -> %r' % (d, _at(got['c_at'], d), _at(sc, d))))
    sh = shared_mutables(o, c)
    if sh:
        res.append(('C17/copy/no-shared-mutable', sh[0].split(':')[0], '-',
                    'mutable objects shared by identity: %r' % sh[:5]))
    if res:
        return res
    # ---- post-history on the copy
    try:
        out = apply_post(c, post)
    except Exception as e:
        return [('C17/after/faithful', 'exception:' + type(e).__name__, 'copy',
                 'history %r on the copy raised %s: %s' % (list(post), type(e).__name__, e))]
    if out != ref_out and not (idle is not None and out == idle[0]):
        res.append(('C17/after/faithful', 'outcomes', 'copy', 'outcomes of %r on the copy are %r, on an uncopied '
                    'object %r' % (list(post), out, ref_out)))
    sc = snap(c)
    exp_dropped = _with_calls(e_post, L0 + later)          # pending calls not made on the copy
    exp_delivered = e_post                                   # pending calls made on the copy before `post`
    if idle is not None:
        exp_dropped = idle[1]                                # (family Cb: an idle object in the copy-point state)
    elif ctx.startswith('cb.'):
        exp_dropped = sc                                     # (no idle reference could be built: nothing to compare)
    d = diff(exp_dropped, sc)
    if d and diff(exp_delivered, sc):
        res.append(('C17/after/faithful', _dpath(d, exp_dropped, sc), 'copy', 'after %r on the copy taken inside '
                    '%s: %s is %r, an uncopied object has %r (or, with the calls pending at the copy point, %r)'
                    % (list(post), ctx, d, _at(sc, d), _at(exp_dropped, d), _at(exp_delivered, d))))
    s2 = snap(o)
    d = diff(e_end, s2)
    if d:
        res.append(('C17/after/independent', _dpath(d, e_end, s2), 'copy', 'after %r on the copy the original '
                    'changed at %s: %r -> %r' % (list(post), d, _at(e_end, d), _at(s2, d))))
    # ---- post-history on the original (the copy must stay as it is now, whatever it is)
    try:
        out = apply_post(o, post)
    except Exception as e:
        return res + [('C17/after/faithful', 'exception:' + type(e).__name__, 'orig',
                       'history %r on the original raised %s: %s' % (list(post), type(e).__name__, e))]
    if out != ref_out:
        res.append(('C17/after/faithful', 'outcomes', 'orig', 'outcomes of %r on the original are %r, on an '
                    'uncopied object %r' % (list(post), out, ref_out)))
    s1 = snap(o)
    d = diff(e_post, s1)
    if d:
        res.append(('C17/after/faithful', _dpath(d, e_post, s1), 'orig', 'after %r on the original: %s is %r, an '
                    'uncopied object has %r' % (list(post), d, _at(s1, d), _at(e_post, d))))
    s2 = snap(c)
    d = diff(sc, s2)
    if d:
        res.append(('C17/after/independent', _dpath(d, sc, s2), 'orig', 'after %r on the original the copy changed '
                    'at %s: %r -> %r' % (list(post), d, _at(sc, d), _at(s2, d))))
    return res


def _at(s, path):
    if path in ('.', ''):
        return s
    cur = s
    for k in path.split('.'):
        if isinstance(cur, dict) and k in cur:
            cur = cur[k]
        else:
            return cur
    return cur


def class_state_clean():
    """the model classes themselves must not have been changed by any scenario"""
    return (list(Plain.param.s.objects) == [1, 2, 3] and Plain.param.v.bounds == (-100, 100)
            and Plain.param.lst.default == [1, 2] and Plain.param.dct.default == {'d': [0]}
            and list(Main.param.s.objects) == [1, 2, 3] and Main.param.v.bounds == (-100, 100))
