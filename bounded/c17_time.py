"""Family TM of the bounded layer of C17: copies and pickles of ``param.Time`` objects -- a library Parameterized
whose context-manager interface saves and restores (time, timestep, until) -- taken OUTSIDE and INSIDE ``with``
blocks, followed by histories that interleave operations on the original and on the copy (contexts of the two
that overlap without nesting included).

What is driven
--------------
``t = param.Time()``; a pre-history on ``t``; a copy ``c`` by ``copy.deepcopy`` or a pickle round-trip (every
protocol); a post-history of operations each applied to ONE side (``o.`` original / ``c.`` copy):

    set   obj(v)                      set the time (v is a value used nowhere else in the history)
    E     obj.__enter__(); obj(v)     enter a context, then move the time (what a ``with obj:`` block does)
    X     obj.__exit__(None,None,None)   leave the innermost context (only when the model says the side is in one)
    S     obj.timestep = v            assignment to a parameter that the context saves too
    N     next(obj)                   iterator interface (thorough tier)

After the history every context still open on either side is left (innermost first).

Oracle (reference model from the statement, plain Python)
---------------------------------------------------------
A side is the record (time, timestep, stack of saved (time, timestep) pairs, iterator flag).  The copy starts as
a ``copy.deepcopy`` of the original's RECORD (equal parameter values and equal ordinary attributes -- the saved
states are ordinary attributes, so a copy taken inside a context is inside the same contexts) and from then on
every operation changes the record of its own side only ("shares no mutable state ... later assignments,
in-place mutations ... on either side are invisible to the other").  After EVERY operation ``obj()`` and
``obj.timestep`` of BOTH sides are compared with the records; no operation may raise.
"""
import os
from concurrent.futures import ProcessPoolExecutor

from bounded._api import REPLAY_HEADER

CORE_SRC = r'''
import copy, pickle, logging, warnings
import param

MECHS = ("deepcopy",) + tuple("pickle%d" % p for p in range(pickle.HIGHEST_PROTOCOL + 1))


def make_copy(obj, mech):
    if mech == "deepcopy":
        return copy.deepcopy(obj)
    return pickle.loads(pickle.dumps(obj, protocol=int(mech[6:])))


class Rec:
    """reference record of one Time object"""
    def __init__(self):
        self.time, self.step, self.stack, self.exh = 0, 1.0, [], None

    def apply(self, op, v):
        if op == "set":
            self.time = v
        elif op == "E":
            self.stack.append((self.time, self.step))
            self.time = v
        elif op == "X":
            self.time, self.step = self.stack.pop()
        elif op == "S":
            self.step = v
        elif op == "N":
            if self.exh is None:
                self.exh = False
            else:
                self.time += int(self.step)
        else:
            raise ValueError(op)

    def obs(self):
        return (self.time, self.step)


def do(obj, op, v):
    if op == "set":
        obj(v)
    elif op == "E":
        obj.__enter__()
        obj(v)
    elif op == "X":
        obj.__exit__(None, None, None)
    elif op == "S":
        obj.timestep = v
    elif op == "N":
        next(obj)


def obs(obj):
    return (obj(), obj.timestep)


def value_at(j, op):
    """the value used by the j-th operation of a history: distinct from every other value of the history"""
    return (3 + j) if op == "S" else 10 * (j + 1) + 7


def run_case(pre, mech, post):
    """pre: tuple of ops on the original; post: tuple of (side, op).  Returns the list of findings
    (kind, at, side, detail): kind in raises / independent / faithful / copy."""
    warnings.simplefilter("ignore")
    sides = {"o": param.Time()}
    recs = {"o": Rec()}
    j = 0
    for op in pre:
        v = value_at(j, op)
        recs["o"].apply(op, v)
        do(sides["o"], op, v)
        j += 1
    try:
        sides["c"] = make_copy(sides["o"], mech)
    except Exception as e:
        return [("copy", "copy", "o", "%s raised %s: %s" % (mech, type(e).__name__, e))]
    recs["c"] = copy.deepcopy(recs["o"])
    findings = []

    def compare(at, driven):
        for s in ("o", "c"):
            try:
                got = obs(sides[s])
            except Exception as e:
                got = "raised %s" % type(e).__name__
            if got != recs[s].obs():
                kind = "faithful" if (s == driven or driven is None) else "independent"
                findings.append((kind, at, s, "after %s: (time, timestep) of the %s is %r, the history gives %r" % (
                    at, "original" if s == "o" else "copy", got, recs[s].obs())))

    compare("copy", None)
    if findings:
        return findings
    steps = list(post)
    k = 0
    while True:
        if k < len(steps):
            s, op = steps[k]
        else:
            # leave every context still open, the side with more open contexts first (innermost first)
            open_ = [(len(recs[x].stack), x) for x in ("c", "o") if recs[x].stack]
            if not open_:
                break
            s, op = max(open_)[1], "X"
        k += 1
        v = value_at(j, op)
        j += 1
        at = "%s.%s%s" % (s, op, "" if k <= len(steps) else "(closing)")
        recs[s].apply(op, v)
        try:
            do(sides[s], op, v)
        except Exception as e:
            findings.append(("raises", at, s, "%s on the %s raised %s: %s" % (op, "original" if s == "o" else "copy",
                                                                            type(e).__name__, e)))
            return findings
        compare(at, s)
        if findings:
            return findings
    return findings
'''

exec(compile(CORE_SRC, "<c17_time core>", "exec"))

CLAUSE = {"copy": "C17/time/copy-succeeds", "raises": "C17/time/operation-after-copy-raises",
          "independent": "C17/time/other-side-unaffected", "faithful": "C17/time/own-saved-state"}

PRE_QUICK = [(), ("set",), ("E",), ("set", "E"), ("E", "E"), ("E", "X"), ("S", "E"), ("E", "S")]
PRE_MORE = [("E", "E", "X"), ("N",), ("E", "N"), ("N", "E", "N"), ("set", "E", "S", "E")]


def posts(pre, depth, alphabet):
    """every post-history of ``depth`` operations whose X operations are applicable in the model"""
    base = sum(1 for o in pre if o == "E") - sum(1 for o in pre if o == "X")

    def rec(hist, depth_o, depth_c):
        if len(hist) == depth:
            yield tuple(hist)
            return
        for s in ("o", "c"):
            for op in alphabet:
                d = depth_o if s == "o" else depth_c
                if op == "X" and d == 0:
                    continue
                nd = d + (op == "E") - (op == "X")
                yield from rec(hist + [(s, op)], nd if s == "o" else depth_o, nd if s == "c" else depth_c)
    yield from rec([], base, base)


def plan(tier):
    """list of (pre, mech, post-depth, alphabet)"""
    out = []
    if tier == "quick":
        for pre in PRE_QUICK:
            for mech in MECHS:
                out.append((pre, mech, 3 if mech in ("deepcopy", "pickle2", MECHS[-1]) else 2, ("set", "E", "X", "S")))
            for mech in ("deepcopy", MECHS[-1]):
                if len(pre) <= 1:
                    out.append((pre, mech, 4, ("set", "E", "X")))
    else:
        for pre in PRE_QUICK + PRE_MORE:
            for mech in MECHS:
                out.append((pre, mech, 3, ("set", "E", "X", "S", "N")))
            if len(pre) <= 2:
                for mech in ("deepcopy", "pickle2", MECHS[-1]):
                    out.append((pre, mech, 4, ("set", "E", "X", "S")))
            if len(pre) <= 1:
                out.append((pre, "deepcopy", 5, ("set", "E", "X")))
    return out


def _worker(task):
    pre, mech, depth, alphabet = task
    logging_off()
    n = 0
    cands = {}
    for d in range(0 if depth <= 3 else depth, depth + 1):
        for post in posts(pre, d, alphabet):
            n += 1
            try:
                fs = run_case(pre, mech, post)
            except Exception as e:      # noqa: BLE001
                fs = [("raises", "harness", "o", "harness raised %s: %s" % (type(e).__name__, e))]
            for kind, at, side, detail in fs[:1]:
                cut = post
                key = (kind, "deepcopy" if mech == "deepcopy" else "pickle", at.split(".")[-1], side)
                rank = (len(pre) + len(post), len(pre), MECHS.index(mech), pre, post)
                ent = cands.get(key)
                if ent is None:
                    cands[key] = [rank, pre, mech, cut, at, side, detail, 1, {mech}]
                else:
                    ent[7] += 1
                    ent[8].add(mech)
                    if rank < ent[0]:
                        ent[:7] = [rank, pre, mech, cut, at, side, detail]
    return n, cands


def logging_off():
    import logging, warnings
    import param
    warnings.simplefilter("ignore")
    param.parameterized.get_logger().setLevel(logging.CRITICAL + 1)


_REPLAY_TAIL = r'''
pre, mech, post = {pre!r}, {mech!r}, {post!r}
KIND = {kind!r}
print('t = param.Time(); on t:', ', '.join(pre) or '-', '; c =', mech, 'of t; then', ', '.join('%s.%s' % p for p in post) or '-',
      '; then every open context is left')
print('(set: obj(v); E: obj.__enter__(); obj(v); X: obj.__exit__(None, None, None); S: obj.timestep = v; N: next(obj))')
fs = run_case(pre, mech, post)
for f in fs:
    print('  ', f)
mine = [f for f in fs if f[0] == KIND]
if mine:
    print('REPRODUCED: ' + mine[0][3]); sys.exit(1)
print('NOT-REPRODUCED'); sys.exit(0)
'''


def extend(B, tier, seed, nworkers=None):
    tasks = plan(tier)
    nworkers = nworkers or min(16, os.cpu_count() or 1)
    try:
        ex = ProcessPoolExecutor(nworkers)
    except (OSError, AssertionError, ValueError):
        ex = None
    if ex is not None:
        with ex:
            results = list(ex.map(_worker, tasks))
    else:
        results = [_worker(t) for t in tasks]
    ncases = 0
    cands = {}
    for (pre, mech, depth, alphabet), (n, cnd) in zip(tasks, results):
        ncases += n
        for c in CLAUSE.values():
            B.checked(c, n)
        for key, ent in cnd.items():
            cur = cands.get(key)
            if cur is None:
                cands[key] = ent
            else:
                cur[7] += ent[7]
                cur[8] |= ent[8]
                if ent[0] < cur[0]:
                    cur[:7] = ent[:7]
    B.evaluations += ncases
    for i in range(ncases):
        B._distinct.add(("TM", i))
    per = {}
    dropped = 0
    for key in sorted(cands, key=lambda k: (cands[k][0], k)):
        rank, pre, mech, post, at, side, detail, n, mechs = cands[key]
        kind = key[0]
        per[kind] = per.get(kind, 0) + 1
        if per[kind] > 4:
            dropped += 1
            continue
        clause = CLAUSE[kind]
        witness = "cls=param.Time pre=%s mech=%s post=%s at=%s side=%s" % (
            ",".join(pre) or "-", mech, ",".join("%s.%s" % p for p in post) or "-", at,
            "original" if side == "o" else "copy")
        B.violation(clause=clause, witness=witness,
                    detail="%s | %d failing histories in this class; mechanisms %s" % (detail, n, sorted(mechs)),
                    replay=REPLAY_HEADER.format(prop="C17", name="replay_c17_tm.py", clause=clause, witness=witness)
                    + CORE_SRC + _REPLAY_TAIL.format(pre=pre, mech=mech, post=post, kind=kind))
        B._seen[(clause, witness)]["count"] = n
    if dropped:
        B.note("family TM: %d further failing classes not listed (cap 4 per clause)" % dropped)
    B.note("family TM (param.Time: copies outside / inside contexts, overlapping contexts of original and copy): %d "
           "histories = %d (pre-history, mechanism) tasks x every post-history up to the task's depth over {o,c} x "
           "{set, E, X, S%s}; open contexts are closed at the end" % (ncases, len(tasks), "" if tier == "quick" else ", N"))
    return ncases
