"""Bounded stand-in layer for C18 -- a Selector's objects list, names and range stay consistent
under mutation.

What is driven
--------------
The *real* ``param.Selector`` / ``param.ListSelector`` of /repo (``ListProxy`` mutators, the
``objects`` setter, ``get_range``, ``_validate``) through **every** style-consistent mutation
sequence up to the bound, starting from 3 unique hashable objects declared as a list or as a
dict.  After every step the observable state

    list(objects), objects.items()/keys()/values(), objects[k], names, get_range(),
    the return value, the two ``objects`` watcher logs, accept/reject of probe assignments

is compared with an *abstract view* ``(objs : sequence, names : ordered assoc list)`` maintained
by the independent model ``View`` below, which is written from the property statement and plain
``list`` / ``dict`` semantics -- never from ListProxy's code.

Scope (lenient readings, DESIGN.md 7/C18)
------------------------------------------
* style-consistent operations only: on list-declared objects ``[i]=o, append, insert, extend,
  pop(i), pop(), remove, clear, objects=[...]``; on dict-declared objects ``[key]=o, update,
  pop(key), pop(i), pop(), remove, clear, objects={...}``.  The operations ListProxy itself
  declares deprecated on dict-declared objects (``append/insert/extend/[i]=``) and key
  operations on list-declared objects are not enumerated.  A wholesale replacement re-declares
  the style.
* objects stay unique (an operation never adds an object that is currently present), are
  hashable, and the *identical* object is passed to ``remove``.
* ``check_on_set`` is left at its default (True for non-empty objects) so that a value assignment
  never edits the objects itself; only operations whose precondition holds are enumerated
  (no pop from an empty list, no pop of a missing key).
* "notified once per mutation": exactly one call of each ``objects`` watcher for a mutation that
  changes the view; at most one for a mutation that leaves the view unchanged
  (``extend([])``, ``update({})``, ``clear()`` of empty objects, re-assigning the same object).
* stale handles (``proxy=stale`` / ``stale-auto``): a handle ``H = p.objects`` is taken at the start (and
  re-taken by the explicit operation ``H=objects``); every operation of a history then goes either through
  a fresh ``p.objects`` or through ``H`` (written ``H.<op>``), so that ``H`` was obtained BEFORE other
  mutations -- through fresh handles, wholesale replacement ``p.objects = ...`` or (``stale-auto``: the
  Selector is declared ``check_on_set=False``, list-declared, and ``value=u<i>`` assigns a non-member, which
  adds it to the objects) -- were made.  Claimed is only what a FRESH ``p.objects`` / ``names`` /
  ``get_range()`` / probe assignments show afterwards: they reflect ALL mutations in the order made; what the
  stale handle itself shows is not claimed.  An operation goes through ``H`` only when its meaning does not
  depend on which of the two lists (the handle's own content = its snapshot plus what went through it, by
  plain list semantics; the current objects) it is read against: adding operations always (``insert(i)`` with
  ``i`` valid in both), operations that replace / remove an existing object only when that object sits at
  the same index in both.  With ``check_on_set=False`` no probe assignments are made (they would add
  objects) and no watcher count is claimed for the auto-adding assignment.
* auto-generated names of list-declared objects are not compared (only the objects and their
  order in ``get_range()`` / ``items()``).
"""
import logging
import os
import warnings
from concurrent.futures import ProcessPoolExecutor

from bounded._api import Bounded, REPLAY_HEADER

PROP = "C18"
NWORKERS = min(16, os.cpu_count() or 1)

# ---------------------------------------------------------------------------------------
# object families: index -> real object.  Index 0..2 are the declared objects, 3.. are fresh
# objects an operation may add, NEVER is an object that is never a member.
# ---------------------------------------------------------------------------------------
NUNIV = 12
NEVER = NUNIV          # index of the never-member probe


class Item:
    """Hashable option object with a ``name`` (identity equality)."""
    def __init__(self, name):
        self.name = name

    def __repr__(self):
        return "Item(%r)" % self.name


FAMILY_SRC = {
    "int": "U = [1, 2, 3, 4, 5, 6, 7, 8, 9, 10, 11, 12, 99]\n",
    "str": "U = ['a', 'b', 'c', 'd', 'e', 'f', 'g', 'h', 'i', 'j', 'k', 'l', 'zz']\n",
    "obj": ("class Item:\n"
            "    def __init__(self, name): self.name = name\n"
            "    def __repr__(self): return 'Item(%r)' % self.name\n"
            "U = [Item('i%d' % i) for i in range(13)]\n"),
}


def make_universe(family):
    if family == "int":
        return [1, 2, 3, 4, 5, 6, 7, 8, 9, 10, 11, 12, 99]
    if family == "str":
        return ['a', 'b', 'c', 'd', 'e', 'f', 'g', 'h', 'i', 'j', 'k', 'l', 'zz']
    if family == "obj":
        return [Item('i%d' % i) for i in range(13)]
    raise ValueError(family)


INIT_KEYS = ("k0", "k1", "k2")

# fixed right-hand sides of the wholesale replacements (indices into the universe)
REPL_LIST = (2, 0, 6)
REPL_DICT = (("k2", 2), ("k0", 0), ("k6", 6))


# ---------------------------------------------------------------------------------------
# the abstract view (oracle).  Objects are universe indices.
# ---------------------------------------------------------------------------------------
class View:
    __slots__ = ("style", "objs", "names", "nkey", "own", "auto", "akind")

    def __init__(self, style, stale=False, auto=False, akind=None):
        self.style = style
        self.objs = [0, 1, 2]
        self.names = [(k, i) for i, k in enumerate(INIT_KEYS)] if style == "dict" else []
        self.nkey = 0
        # stale-handle mode: the content of the handle H itself (plain list semantics: its snapshot plus
        # what went through it).  NOT part of the view; only decides which operations are enumerated.
        self.own = [0, 1, 2] if stale else None
        self.auto = auto
        # proxy=auto: check_on_set=False and value assignments naming unknown objects are part of the
        # alphabet ("Selector": a single value, "ListSelector": lists -- unknown once / twice / mixed)
        self.akind = akind

    def copy(self):
        v = View.__new__(View)
        v.style, v.objs, v.names, v.nkey = self.style, list(self.objs), list(self.names), self.nkey
        v.own, v.auto = (None if self.own is None else list(self.own)), self.auto
        v.akind = self.akind
        return v

    def snapshot(self):
        return (self.style, tuple(self.objs), tuple(self.names))

    # -- helpers --------------------------------------------------------------------
    def _key_of(self, o):
        for k, v in self.names:
            if v == o:
                return k
        return None

    def _drop_obj(self, o):
        self.objs.remove(o)
        self.names = [(k, v) for (k, v) in self.names if v != o]

    def _setkey(self, k, o):
        keys = [kk for kk, _ in self.names]
        if k in keys:
            old = dict(self.names)[k]
            self.objs[self.objs.index(old)] = o
            self.names = [(kk, (o if kk == k else vv)) for kk, vv in self.names]
        else:
            self.objs.append(o)
            self.names.append((k, o))

    # -- the mutators: return (has_result, result) -------------------------------------
    def apply(self, op):
        kind = op[0]
        if kind == "S":                       # through the stale handle: same effect on the view ...
            self._apply_own(op[1])            # ... and, by list semantics, on the handle's own content
            return self.apply(op[1])
        if kind == "take":
            self.own = list(self.objs)
            return (False, None)
        if kind == "autoadd":
            self.objs.append(op[1])
            return (False, None)
        if kind == "autolist":                # assigned value names these objects, in this order:
            for o in op[1]:                   # each one not yet known becomes known ONCE, at the end
                if o not in self.objs:
                    self.objs.append(o)
            return (False, None)
        if kind == "setidx":
            _, i, o = op
            self.objs[i] = o
            return (False, None)
        if kind == "append":
            self.objs.append(op[1])
            return (False, None)
        if kind == "insert":
            self.objs.insert(op[1], op[2])
            return (False, None)
        if kind == "extend":
            self.objs.extend(op[1])
            return (False, None)
        if kind in ("popidx", "pop"):
            i = op[1] if kind == "popidx" else -1
            o = self.objs[i]
            self._drop_obj(o)
            return (True, o)
        if kind == "popkey":
            o = dict(self.names)[op[1]]
            self._drop_obj(o)
            return (True, o)
        if kind == "remove":
            self._drop_obj(op[1])
            return (False, None)
        if kind == "clear":
            self.objs, self.names = [], []
            return (False, None)
        if kind == "setkey":
            self._setkey(op[1], op[2])
            return (False, None)
        if kind == "update":
            for k, o in op[2]:
                self._setkey(k, o)
            return (False, None)
        if kind == "replace_list":
            self.style, self.objs, self.names = "list", list(op[1]), []
            return (False, None)
        if kind == "replace_dict":
            self.style, self.names = "dict", list(op[1])
            self.objs = [o for _, o in op[1]]
            return (False, None)
        raise ValueError(op)

    def _apply_own(self, op):
        kind, own = op[0], self.own
        if kind == "setidx":
            own[op[1]] = op[2]
        elif kind == "append":
            own.append(op[1])
        elif kind == "insert":
            own.insert(op[1], op[2])
        elif kind == "extend":
            own.extend(op[1])
        elif kind in ("popidx", "pop"):
            own.pop(op[1] if kind == "popidx" else -1)
        elif kind == "popkey":
            own.remove(dict(self.names)[op[1]])
        elif kind == "remove":
            own.remove(op[1])
        elif kind == "clear":
            del own[:]
        elif kind in ("setkey", "update"):
            cur = dict(self.names)                 # (apply() updates the names afterwards)
            for k, o in ([(op[1], op[2])] if kind == "setkey" else op[2]):
                if k in cur:
                    own[own.index(cur[k])] = o
                else:
                    own.append(o)
                cur[k] = o

    def _same_place(self, o):
        """object ``o`` sits at the same index in the handle's own content and in the current objects"""
        return o in self.own and o in self.objs and self.own.index(o) == self.objs.index(o)

    def via_stale_ok(self, op):
        """may ``op`` go through the stale handle?  (its meaning must not depend on which list it is read against)"""
        kind, own, objs = op[0], self.own, self.objs
        if kind in ("append", "extend", "clear"):
            return True
        if kind == "insert":
            return 0 <= op[1] <= min(len(own), len(objs))
        if kind in ("setidx", "popidx", "pop"):
            i = -1 if kind == "pop" else op[1]
            if not (-len(own) <= i < len(own) and -len(objs) <= i < len(objs)):
                return False
            return i % len(own) == i % len(objs) and own[i] == objs[i]
        if kind == "remove":
            return self._same_place(op[1])
        if kind == "popkey":
            return self._same_place(dict(self.names)[op[1]])
        if kind in ("setkey", "update"):
            cur = dict(self.names)
            pairs = [(op[1], op[2])] if kind == "setkey" else list(op[2])
            shadow_own, shadow_objs = list(own), list(objs)
            for k, o in pairs:
                if k in cur:
                    old = cur[k]
                    if not (old in shadow_own and old in shadow_objs
                            and shadow_own.index(old) == shadow_objs.index(old)):
                        return False
                    shadow_own[shadow_own.index(old)] = o
                    shadow_objs[shadow_objs.index(old)] = o
                else:
                    shadow_own.append(o)
                    shadow_objs.append(o)
                cur[k] = o
            return True
        return False                              # wholesale replacement is an assignment, not a handle operation

    # -- which operations are enumerated in this state ---------------------------------
    def ops(self, extra=False):
        """``extra``: also the additional call forms of ``update`` (keyword items) -- enumerated only as the
        LAST operation of a history and (dedicated tasks) as the FIRST one, to keep the product small."""
        if self.own is not None:
            return self._ops_stale()
        return self._ops_plain() + (self.extra_ops() if extra else [])

    def extra_ops(self):
        """``objects.update`` called with keyword items: several of them, replacing an existing key, and
        together with a non-empty mapping / pair list ("<form>+kw": first pair positionally, the others as
        keywords).  Dict-declared objects only."""
        if self.style != "dict":
            return []
        c0, c1 = [u for u in range(NUNIV) if u not in self.objs][:2]
        keys = [k for k, _ in self.names]
        fk, fk2 = "n%d" % self.nkey, "n%d" % (self.nkey + 1)
        out = [("update", "kw", ((fk, c0), (fk2, c1)))]
        if keys:
            out.append(("update", "kw", ((keys[0], c0), (fk, c1))))
            out.append(("update", "dict+kw", ((keys[0], c0), (fk, c1))))
        out.append(("update", "dict+kw", ((fk, c0), (fk2, c1))))
        out.append(("update", "pairs+kw", ((fk, c0), (fk2, c1))))
        if keys:
            out.append(("update", "pairs+kw", ((fk, c0), (keys[-1], c1))))
        return out

    def _ops_stale(self):
        plain = self._ops_plain()
        out = []
        # through a fresh handle: one representative per mutator (they only serve to make H stale) ...
        kept = set()
        for op in plain:
            k = op[0]
            if k == "extend" and len(op[1]) != 2:
                continue
            if k in ("replace_list", "replace_dict"):
                if not op[1]:
                    continue
            elif k == "update":
                if op[1] != "dict" or len(op[2]) != 1:
                    continue
            elif k in kept:
                continue
            kept.add(k)
            out.append(op)
        if self.auto and self.style == "list":        # (the name an auto-added object gets in a named Selector is not settled)
            out.append(("autoadd", [u for u in range(NUNIV) if u not in self.objs][0]))
        out.append(("take",))
        # ... through the stale handle: every mutator, every variant, where applicable
        for op in plain:
            if self.via_stale_ok(op):
                out.append(("S", op))
        return out

    def _ops_plain(self):
        n = len(self.objs)
        cands = [u for u in range(NUNIV) if u not in self.objs][:2]
        c0, c1 = cands
        out = []

        def idxs(cs):
            seen, res = set(), []
            for i in cs:
                if -n <= i < n and (i % n) not in seen:
                    seen.add(i % n)
                    res.append(i)
            return res

        if self.style == "list":
            for i in idxs((0, -1)):
                out.append(("setidx", i, c0))
            out.append(("append", c0))
            out.append(("append", c1))
            for i in sorted({0, min(1, n), n}):
                out.append(("insert", i, c0))
            out.append(("extend", ()))
            out.append(("extend", (c0,)))
            out.append(("extend", (c0, c1)))
        else:
            keys = [k for k, _ in self.names]
            fk, fk2 = "n%d" % self.nkey, "n%d" % (self.nkey + 1)
            if keys:
                out.append(("setkey", keys[0], c0))
                if len(keys) > 1:
                    out.append(("setkey", keys[-1], c0))
                out.append(("setkey", keys[0], self.names[0][1]))      # same object: no-op
            out.append(("setkey", fk, c0))
            out.append(("update", "dict", ()))
            out.append(("update", "dict", ((fk, c0),)))
            if keys:
                out.append(("update", "dict", ((keys[0], c0), (fk2, c1))))
            out.append(("update", "pairs", ((fk, c0), (fk2, c1))))
            out.append(("update", "kw", ((fk, c0),)))
            if keys:
                out.append(("popkey", keys[0]))
                if len(keys) > 1:
                    out.append(("popkey", keys[-1]))
        if n:
            for i in idxs((0, 1, -1)):
                out.append(("popidx", i))
            out.append(("pop",))
            out.append(("remove", self.objs[0]))
            if n > 1:
                out.append(("remove", self.objs[-1]))
        out.append(("clear",))
        if self.style == "list":
            out.append(("replace_list", ()))
            out.append(("replace_list", REPL_LIST))
            out.append(("replace_dict", REPL_DICT))
        else:
            out.append(("replace_dict", ()))
            out.append(("replace_dict", REPL_DICT))
            out.append(("replace_list", REPL_LIST))
        if self.akind is not None and self.style == "list":
            out.extend(self.auto_ops())
        return out

    def auto_ops(self):
        """value assignments on a check_on_set=False Selector (list-declared: the name an auto-added object
        gets in a named Selector is not settled).  FIRST in the list: the ones naming unknown objects."""
        c0, c1 = [u for u in range(NUNIV) if u not in self.objs][:2]
        known = list(self.objs)
        if self.akind == "Selector":
            out = [("autolist", (c0,))]
            if known:
                out.append(("autolist", (known[0],)))
            return out
        out = [("autolist", (c0,)), ("autolist", (c0, c0)), ("autolist", (c0, c1)), ("autolist", (c0, c1, c0))]
        if known:
            out += [("autolist", (known[0], c0)), ("autolist", (c0, known[-1])),
                    ("autolist", (c0, known[0], c0)), ("autolist", (known[-1], known[0]))]
        out.append(("autolist", ()))
        return out

    def after(self, op):
        """bookkeeping that is not part of the view: fresh-key counter."""
        if op[0] == "S":
            op = op[1]
        if op[0] in ("setkey",) and op[1].startswith("n"):
            self.nkey = max(self.nkey, int(op[1][1:]) + 1)
        if op[0] == "update":
            for k, _ in op[2]:
                if k.startswith("n"):
                    self.nkey = max(self.nkey, int(k[1:]) + 1)


METHOD = {"setidx": "ListProxy.__setitem__", "setkey": "ListProxy.__setitem__",
          "append": "ListProxy.append", "insert": "ListProxy.insert", "extend": "ListProxy.extend",
          "popidx": "ListProxy.pop", "pop": "ListProxy.pop", "popkey": "ListProxy.pop",
          "remove": "ListProxy.remove", "clear": "ListProxy.clear", "update": "ListProxy.update",
          "replace_list": "Selector.objects.setter", "replace_dict": "Selector.objects.setter",
          "init": "Selector.__init__", "take": "Selector.objects.getter", "autoadd": "Selector._validate",
          "autolist": "Selector._validate"}


def base_op(op):
    return op[1] if op[0] == "S" else op


def opkind(op):
    """operation kind as used in clause / witness classes: '<kind>' or '<kind>@stale'"""
    return op[1][0] + "@stale" if op[0] == "S" else op[0]


def is_stale_cfg(cfg):
    return cfg[3] in ("stale", "stale-auto")


def new_view(cfg):
    return View(cfg[1], stale=is_stale_cfg(cfg), auto=cfg[3] == "stale-auto",
                akind=cfg[0] if cfg[3] == "auto" else None)


OPNAME = {"popidx": "pop(int)", "pop": "pop()", "popkey": "pop(key)", "setidx": "[int]=", "setkey": "[key]=",
          "replace_list": "objects=list", "replace_dict": "objects=dict", "init": "declare",
          "autolist": "value="}


def op_text(op):
    """canonical short text of an operation (universe indices as u<i>)."""
    k = op[0]
    u = lambda i: "u%d" % i
    if k == "S":
        return "H." + op_text(op[1])
    if k == "take":
        return "H=objects"
    if k == "autoadd":
        return "value=%s" % u(op[1])
    if k == "autolist":
        return "value=<%s>" % ",".join(u(o) for o in op[1])
    if k == "setidx":
        return "[%d]=%s" % (op[1], u(op[2]))
    if k == "append":
        return "append(%s)" % u(op[1])
    if k == "insert":
        return "insert(%d,%s)" % (op[1], u(op[2]))
    if k == "extend":
        return "extend([%s])" % ",".join(u(o) for o in op[1])
    if k == "popidx":
        return "pop(%d)" % op[1]
    if k == "pop":
        return "pop()"
    if k == "popkey":
        return "pop('%s')" % op[1]
    if k == "remove":
        return "remove(%s)" % u(op[1])
    if k == "clear":
        return "clear()"
    if k == "setkey":
        return "['%s']=%s" % (op[1], u(op[2]))
    if k == "update":
        return "update:%s(%s)" % (op[1], ",".join("%s:%s" % (kk, u(o)) for kk, o in op[2]))
    if k == "replace_list":
        return "objects=[%s]" % ",".join(u(o) for o in op[1])
    if k == "replace_dict":
        return "objects={%s}" % ",".join("%s:%s" % (kk, u(o)) for kk, o in op[1])
    raise ValueError(op)


def op_source(op, target):
    """python source of the operation on ``target`` ('P.objects' or 'H'); U[...] objects."""
    k = op[0]
    u = lambda i: "U[%d]" % i
    if k == "S":
        return op_source(op[1], "H")
    if k == "take":
        return "H = P.objects"
    if k == "autoadd":
        return "s.x = [%s] if IS_LIST else %s" % (u(op[1]), u(op[1]))
    if k == "autolist":
        return "(S if CLASS_LEVEL else s).x = [%s] if IS_LIST else %s" % (", ".join(u(o) for o in op[1]), u(op[1][0]) if op[1] else "None")
    if k == "setidx":
        return "%s[%d] = %s" % (target, op[1], u(op[2]))
    if k == "append":
        return "%s.append(%s)" % (target, u(op[1]))
    if k == "insert":
        return "%s.insert(%d, %s)" % (target, op[1], u(op[2]))
    if k == "extend":
        return "%s.extend([%s])" % (target, ", ".join(u(o) for o in op[1]))
    if k == "popidx":
        return "r = %s.pop(%d)" % (target, op[1])
    if k == "pop":
        return "r = %s.pop()" % target
    if k == "popkey":
        return "r = %s.pop(%r)" % (target, op[1])
    if k == "remove":
        return "%s.remove(%s)" % (target, u(op[1]))
    if k == "clear":
        return "%s.clear()" % target
    if k == "setkey":
        return "%s[%r] = %s" % (target, op[1], u(op[2]))
    if k == "update":
        form, pairs = op[1], op[2]
        if form == "dict":
            return "%s.update({%s})" % (target, ", ".join("%r: %s" % (kk, u(o)) for kk, o in pairs))
        if form == "pairs":
            return "%s.update([%s])" % (target, ", ".join("(%r, %s)" % (kk, u(o)) for kk, o in pairs))
        kws = ", ".join("%s=%s" % (kk, u(o)) for kk, o in (pairs if form == "kw" else pairs[1:]))
        if form == "dict+kw":
            return "%s.update({%r: %s}, %s)" % (target, pairs[0][0], u(pairs[0][1]), kws)
        if form == "pairs+kw":
            return "%s.update([(%r, %s)], %s)" % (target, pairs[0][0], u(pairs[0][1]), kws)
        return "%s.update({}, %s)" % (target, kws)
    if k == "replace_list":
        return "P.objects = [%s]" % ", ".join(u(o) for o in op[1])
    if k == "replace_dict":
        return "P.objects = {%s}" % ", ".join("%r: %s" % (kk, u(o)) for kk, o in op[1])
    raise ValueError(op)


# ---------------------------------------------------------------------------------------
# driving the real code
# ---------------------------------------------------------------------------------------
def _quiet():
    import param
    warnings.simplefilter("ignore")
    param.parameterized.get_logger().setLevel(logging.CRITICAL + 1)
    param.parameterized.warnings_as_exceptions = False


class Real:
    """One fresh Parameterized class + instance with the Selector under test."""

    def __init__(self, cfg, U):
        import param
        kind, decl, level, proxy, family, mode = cfg
        self.cfg, self.U = cfg, U
        ptype = param.Selector if kind == "Selector" else param.ListSelector
        if decl == "list":
            init = [U[0], U[1], U[2]]
        else:
            init = {INIT_KEYS[0]: U[0], INIT_KEYS[1]: U[1], INIT_KEYS[2]: U[2]}

        kw = {"check_on_set": False} if proxy in ("stale-auto", "auto") else {}
        self.auto = proxy == "auto"

        class S(param.Parameterized):
            x = ptype(objects=init, **kw)

        self.cls = S
        self.inst = S()
        self.log_changed, self.log_all = [], []
        if level == "inst":
            self.P = self.inst.param.x
            self.inst.param.watch(self.log_changed.append, "x", what="objects")
            self.inst.param.watch(self.log_all.append, "x", what="objects", onlychanged=False)
        else:
            self.P = S.param.x
            S.param.watch(self.log_changed.append, "x", what="objects")
            S.param.watch(self.log_all.append, "x", what="objects", onlychanged=False)
        self.held = self.P.objects if proxy == "held" else None
        self.stale = self.P.objects if proxy in ("stale", "stale-auto") else None     # the handle obtained EARLIER
        self.is_list = kind == "ListSelector"

    def target(self):
        return self.held if self.held is not None else self.P.objects

    def do(self, op):
        U, k = self.U, op[0]
        if k == "take":
            self.stale = self.P.objects
            return None
        if k == "autoadd":
            self.inst.x = [U[op[1]]] if self.is_list else U[op[1]]
            return None
        if k == "autolist":
            # class-level Parameter: the class attribute is assigned (an instance assignment is validated by,
            # and admits to, the instance's own copy of the Parameter)
            tgt = self.cls if self.cfg[2] == "class" else self.inst
            tgt.x = [U[o] for o in op[1]] if self.is_list else U[op[1][0]]
            return None
        if k == "S":
            return self._do(op[1], self.stale)
        return self._do(op, None)

    def _do(self, op, handle):
        U, k = self.U, op[0]
        if k == "replace_list":
            self.P.objects = [U[o] for o in op[1]]
            if self.held is not None:
                self.held = self.P.objects
            return None
        if k == "replace_dict":
            self.P.objects = {kk: U[o] for kk, o in op[1]}
            if self.held is not None:
                self.held = self.P.objects
            return None
        t = handle if handle is not None else self.target()
        if k == "setidx":
            t[op[1]] = U[op[2]]
        elif k == "append":
            t.append(U[op[1]])
        elif k == "insert":
            t.insert(op[1], U[op[2]])
        elif k == "extend":
            t.extend([U[o] for o in op[1]])
        elif k == "popidx":
            return t.pop(op[1])
        elif k == "pop":
            return t.pop()
        elif k == "popkey":
            return t.pop(op[1])
        elif k == "remove":
            t.remove(U[op[1]])
        elif k == "clear":
            t.clear()
        elif k == "setkey":
            t[op[1]] = U[op[2]]
        elif k == "update":
            form, pairs = op[1], op[2]
            if form == "dict":
                t.update({kk: U[o] for kk, o in pairs})
            elif form == "pairs":
                t.update([(kk, U[o]) for kk, o in pairs])
            elif form == "dict+kw":
                t.update({pairs[0][0]: U[pairs[0][1]]}, **{kk: U[o] for kk, o in pairs[1:]})
            elif form == "pairs+kw":
                t.update([(pairs[0][0], U[pairs[0][1]])], **{kk: U[o] for kk, o in pairs[1:]})
            else:
                t.update({}, **{kk: U[o] for kk, o in pairs})
        else:
            raise ValueError(op)
        return None

    def new_round(self):
        """class-level Parameter: probe on an instance created *after* the mutation (an existing
        instance owns an independent per-instance copy of the Parameter once it has been set)."""
        if self.cfg[2] == "class":
            self.inst = self.cls()

    def accepts(self, value):
        # proxy=auto (check_on_set=False): a probe must not itself admit its value -- membership checking
        # is switched on for the duration of the probe ("membership ... checked against the current objects")
        if self.auto:
            self.P.check_on_set = True
        try:
            self.inst.x = value
        except Exception:
            return False
        finally:
            if self.auto:
                self.P.check_on_set = False
        return True


def same_seq(got, exp_objs):
    """got is a list of real objects, exp_objs real objects: same objects in the same order."""
    return len(got) == len(exp_objs) and all(g is e or g == e for g, e in zip(got, exp_objs))


def observe(real, view, probes):
    """Evaluate the observation clauses on the real objects; returns a list of (aspect, detail).
    The derived observations are judged only when the two stores agree with the view."""
    U, P = real.U, real.P
    bad = []
    exp_objs = [U[i] for i in view.objs]
    exp_items = [(k, U[i]) for k, i in view.names]
    named = bool(view.names)

    def items_ok(got):
        return len(got) == len(exp_items) and all(
            gk == ek and (gv is ev or gv == ev) for (gk, gv), (ek, ev) in zip(got, exp_items))

    def stage(aspect, fn):
        try:
            fn()
        except Exception as e:                     # noqa  -- an observation must not raise
            bad.append((aspect, "[raises:%s] observation raised %s: %s" % (type(e).__name__, type(e).__name__, e)))

    # -- the two stores: list view and name mapping ---------------------------------
    def st_view():
        got_list = list(P.objects)
        if not same_seq(got_list, exp_objs):
            bad.append(("view", "[objs] list(objects)=%r expected %r" % (got_list, exp_objs)))
        got_names = list(dict(P.names).items())
        if named:
            if not items_ok(got_names):
                bad.append(("view", "[names] names=%r expected %r" % (got_names, exp_items)))
        elif got_names and not same_seq([v for _, v in got_names], exp_objs):
            # not declared by name: the mapping is empty (or at least describes the same objects)
            bad.append(("view", "[names] names=%r but objects are not named; objs %r" % (got_names, exp_objs)))

    def st_proxy():
        hl = list(real.held)
        if not same_seq(hl, exp_objs):
            bad.append(("proxy", "[held] held proxy list=%r expected %r" % (hl, exp_objs)))

    stage("view", st_view)
    if real.held is not None:
        stage("proxy", st_proxy)
    if bad:
        return bad

    # -- derived observations --------------------------------------------------------
    def st_items():
        proxy = P.objects
        its, ks, vs = list(proxy.items()), list(proxy.keys()), list(proxy.values())
        if named:
            if not items_ok(its) or ks != [k for k, _ in exp_items] or not same_seq(vs, exp_objs):
                bad.append(("items", "[items] items()=%r keys()=%r values()=%r expected %r" % (its, ks, vs, exp_items)))
        elif not same_seq([v for _, v in its], exp_objs) or not same_seq(vs, exp_objs) or len(ks) != len(exp_objs):
            bad.append(("items", "[items] items()=%r values()=%r expected objects %r" % (its, vs, exp_objs)))

    def st_getitem():
        proxy = P.objects
        for k, v in (exp_items if named else list(enumerate(exp_objs))):
            try:
                g = proxy[k]
            except Exception as e:                 # noqa
                g = e
            if not (g is v or g == v):
                bad.append(("getitem", "[getitem] objects[%r]=%r expected %r" % (k, g, v)))
                break

    def st_range():
        rl = list(P.get_range().items())
        if named:
            if not items_ok(rl):
                bad.append(("get_range", "[range] get_range()=%r expected %r" % (rl, exp_items)))
        elif not same_seq([v for _, v in rl], exp_objs):
            bad.append(("get_range", "[range] get_range()=%r expected objects %r" % (rl, exp_objs)))

    # -- accept / reject of probe assignments ----------------------------------------
    def st_accepts():
        real.new_round()
        for u in probes:
            want = u in view.objs
            got = real.accepts([U[u]] if real.is_list else U[u])
            if got != want:
                bad.append(("accepts", "[%s] assignment of %s (member=%s) %s" % (
                    "nonmember-accepted" if got else "member-rejected",
                    "[u%d]" % u if real.is_list else "u%d" % u, want, "accepted" if got else "rejected")))
                return
        if real.is_list and len(view.objs) >= 2:
            if not real.accepts([U[view.objs[-1]], U[view.objs[0]]]):
                bad.append(("accepts", "[member-rejected] assignment of two members [last, first] rejected"))
            elif real.accepts([U[view.objs[0]], U[NEVER]]):
                bad.append(("accepts", "[nonmember-accepted] assignment of [member, non-member] accepted"))

    stage("items", st_items)
    stage("getitem", st_getitem)
    stage("get_range", st_range)
    if probes:
        stage("accepts", st_accepts)
    return bad


def run_history(cfg, ops, U=None):
    """Run one history on a fresh class.  Returns (events, counts) where events is a list of
    (step, opkind, style_at_op, aspect, detail) -- at most the findings of one failing step
    (the run stops at the first step whose *view* diverged)."""
    kind, decl, level, proxy, family, mode = cfg
    U = U if U is not None else make_universe(family)
    counts = {}

    def ck(name, n=1):
        counts[name] = counts.get(name, 0) + n

    view = new_view(cfg)
    findings = []
    try:
        real = Real(cfg, U)
    except Exception as e:                         # noqa
        return [(-1, "init", decl, "raises", "[%s] constructing the class raised %r" % (type(e).__name__, e))], counts
    seen = {0, 1, 2, NEVER}
    probes_now = sorted(seen) if (mode == "interleaved" or (not ops and mode != "noprobe")) else None
    bad = observe(real, view, probes_now)
    ck("C18/Selector.__init__/view")
    if bad:
        return [(-1, "init", decl, a, d) for a, d in bad], counts
    for step, op in enumerate(ops):
        before = view.snapshot()
        style = view.style
        n1, n2 = len(real.log_changed), len(real.log_all)
        for o in _objs_of(op):
            seen.add(o)
        has_res, exp = view.apply(op)
        view.after(op)
        meth = METHOD[base_op(op)[0]]
        okind = opkind(op)
        try:
            res = real.do(op)
        except Exception as e:                     # noqa
            ck("C18/%s/raises" % meth)
            findings.append((step, okind, style, "raises", "[%s] %s raised %s: %s" % (type(e).__name__, op_text(op), type(e).__name__, e)))
            return findings, counts
        ck("C18/%s/raises" % meth)
        if has_res:
            ck("C18/%s/result" % meth)
            e_obj = U[exp]
            if not (res is e_obj or (res is not None and res == e_obj)):
                findings.append((step, okind, style, "result", "[%s] %s returned %r, removed object is %r" % ("None" if res is None else "other", op_text(op), res, e_obj)))
        effective = view.snapshot() != before
        d1, d2 = len(real.log_changed) - n1, len(real.log_all) - n2
        ck("C18/%s/watchers" % meth)
        if op[0] in ("autoadd", "autolist"):
            pass                                   # (whether an auto-adding assignment notifies is not settled)
        elif effective:
            if d1 != 1 or d2 != 1:
                findings.append((step, okind, style, "watchers",
                                 "[%s] %s notified the changes-only watcher %d time(s) and the every-set watcher %d time(s); expected once" % (_cnt(d1, d2), op_text(op), d1, d2)))
        elif d1 > 1 or d2 > 1:
            findings.append((step, okind, style, "watchers",
                             "[%s] %s (no change of the view) notified %d/%d times" % (_cnt(d1, d2), op_text(op), d1, d2)))
        last = step == len(ops) - 1
        probes_now = sorted(seen) if (mode == "interleaved" or (last and mode != "noprobe")) else None
        bad = observe(real, view, probes_now)
        for a in ("view", "items", "get_range", "getitem", "accepts"):
            ck("C18/%s/%s" % (meth, a))
        if real.held is not None:
            ck("C18/%s/proxy" % meth)
        if any(a in ("view", "proxy") for a, _ in bad):
            # the changes-only watcher compares old and new view: not judged on a diverged view
            findings = [f for f in findings if not (f[0] == step and f[3] == "watchers")]
        for a, d in bad:
            findings.append((step, okind, style, a, "%s after %s: %s" % (d.split(" ", 1)[0], op_text(op), d.split(" ", 1)[1])))
        if any(f[3] in ("view", "proxy", "raises") for f in findings) or bad:
            return findings, counts
    return findings, counts


def _cnt(d1, d2):
    f = lambda d: "0" if d == 0 else ("1" if d == 1 else "many")
    return "changed-only:%s,every-set:%s" % (f(d1), f(d2))


def _objs_of(op):
    op = base_op(op)
    k = op[0]
    if k == "autoadd":
        return [op[1]]
    if k == "autolist":
        return list(op[1])
    if k in ("setidx", "insert", "setkey"):
        return [op[2]]
    if k in ("append", "remove"):
        return [op[1]]
    if k in ("extend", "replace_list"):
        return list(op[1])
    if k in ("update", "replace_dict"):
        return [o for _, o in (op[2] if k == "update" else op[1])]
    return []


# ---------------------------------------------------------------------------------------
# enumeration
# ---------------------------------------------------------------------------------------
def enum_histories(cfg, depth, first=None):
    """all style-consistent histories of exactly ``depth`` operations (DFS over the model).
    ``first`` restricts the first operation to that index (work splitting)."""
    def rec(view, d, acc):
        if d == 0:
            yield tuple(acc)
            return
        if isinstance(first, tuple) and d == depth:          # ("extra", i): the i-th additional call form first
            ops = view.extra_ops()[first[1]:first[1] + 1]
        else:
            ops = view.ops(extra=(d == 1))
            if first is not None and d == depth:
                ops = ops[first:first + 1]
        for op in ops:
            v2 = view.copy()
            v2.apply(op)
            v2.after(op)
            acc.append(op)
            yield from rec(v2, d - 1, acc)
            acc.pop()
    yield from rec(new_view(cfg), depth, [])


def sample_histories(cfg, depth, count, seed):
    """``count`` distinct pseudo-random histories of exactly ``depth`` operations (deterministic in seed)."""
    import random
    rnd = random.Random("%s|%d|%d" % ("/".join(cfg), depth, seed))
    seen, tries = set(), 0
    while len(seen) < count and tries < 20 * count:
        tries += 1
        view, acc = new_view(cfg), []
        for _ in range(depth):
            op = rnd.choice(view.ops())
            view.apply(op)
            view.after(op)
            acc.append(op)
        h = tuple(acc)
        if h not in seen:
            seen.add(h)
            yield h


CFG_RANK = {"Selector": 0, "ListSelector": 1, "inst": 0, "class": 1, "fresh": 0, "held": 1, "stale": 2, "stale-auto": 3, "auto": 4,
            "int": 0, "str": 1, "obj": 2, "final": 0, "interleaved": 1, "noprobe": 2, "list": 0, "dict": 1}


def cfg_rank(cfg):
    kind, decl, level, proxy, family, mode = cfg
    return (CFG_RANK[family], CFG_RANK[proxy], CFG_RANK[level], CFG_RANK[kind], CFG_RANK[mode])


def _worker(task):
    cfg, depth, first = task
    _quiet()
    kind, decl, level, proxy, family, mode = cfg
    U = make_universe(family)
    ncases, counts, cands = 0, {}, {}
    samples = []
    if isinstance(first, tuple) and first[0] == "sample":   # ("sample", count, seed): seeded histories instead of all
        source = sample_histories(cfg, depth, first[1], first[2])
        first = 10 ** 6
    else:
        source = enum_histories(cfg, depth, first)
        if isinstance(first, tuple):               # ("extra", i)
            first = 500 + first[1]
    for hist in source:
        ncases += 1
        findings, c = run_history(cfg, hist, U)
        for k, v in c.items():
            counts[k] = counts.get(k, 0) + v
        if len(samples) < 1:
            samples.append({"cfg": list(cfg), "history": [op_text(o) for o in hist], "findings": len(findings)})
        # group the findings of the failing step by clause
        by = {}
        for step, opk, style, aspect, detail in findings:
            by.setdefault((step, opk, style, aspect), []).append(detail)
        for (step, opk, style, aspect), details in by.items():
            h = hist[:step + 1]
            what = "+".join(sorted({d[1:d.index("]")] for d in details}))
            details = [d[d.index("]") + 2:] for d in details]
            key = (aspect, opk, style, what)
            rank = (len(h), cfg_rank(cfg), first if first is not None else -1, ncases)
            if key not in cands or rank < cands[key][0]:
                cands[key] = (rank, cfg, h, details)
    return ncases, counts, cands, samples


def clause_of(aspect, opk):
    return "C18/%s/%s" % (METHOD[opk.split("@")[0]], aspect)


def make_replay(cfg, hist, aspect, clause, witness):
    kind, decl, level, proxy, family, mode = cfg
    view = new_view(cfg)
    lines = []
    seen = {0, 1, 2, NEVER}
    tgt = "H" if proxy == "held" else "P.objects"
    exp_res = None
    effective = True
    for i, op in enumerate(hist):
        before = view.snapshot()
        for o in _objs_of(op):
            seen.add(o)
        has_res, exp = view.apply(op)
        view.after(op)
        last = i == len(hist) - 1
        if last:
            lines.append("n1, n2 = len(log_changed), len(log_all)")
            lines.append("r = None")
            exp_res = exp if has_res else None
            effective = view.snapshot() != before
        lines.append(op_source(op, tgt) + ("        # through the handle obtained earlier" if op[0] == "S" else ""))
        if op[0].startswith("replace") and proxy == "held":
            lines.append("H = P.objects")
        if mode == "interleaved" and not last:
            lines.append("probe([%s])" % ", ".join(str(u) for u in sorted(seen)))
    hdr = REPLAY_HEADER.format(prop=PROP, name="replay_c18.py", clause=clause, witness=witness).replace("sys.path.insert(0, '/repo')", "import os\nsys.path.insert(0, os.environ.get('PYVC_REPO', '/repo'))      # (PYVC_REPO: a scratch copy of the library under test)")
    init = ("[U[0], U[1], U[2]]" if decl == "list"
            else "{'k0': U[0], 'k1': U[1], 'k2': U[2]}")
    src = hdr + "import logging, warnings\nimport param\nwarnings.simplefilter('ignore')\n"
    src += "param.parameterized.get_logger().setLevel(logging.CRITICAL + 1)\n"
    src += FAMILY_SRC[family]
    head, src = src, ""
    src += "class S(param.Parameterized):\n    x = param.%s(objects=%s%s)\n" % (
        kind, init, ", check_on_set=False" if proxy in ("stale-auto", "auto") else "")
    src += "s = S()\nP = %s\n" % ("s.param.x" if level == "inst" else "S.param.x")
    src += "log_changed, log_all = [], []\n"
    who = "s" if level == "inst" else "S"
    src += "%s.param.watch(log_changed.append, 'x', what='objects')\n" % who
    src += "%s.param.watch(log_all.append, 'x', what='objects', onlychanged=False)\n" % who
    src += "IS_LIST = %r\nCLASS_LEVEL = %r\n" % (kind == "ListSelector", level == "class")
    src += "AUTO = %r      # check_on_set=False: membership checking is switched on only while probing\n" % (proxy == "auto")
    src += ("def accepts(v):\n    if AUTO: P.check_on_set = True\n"
            "    try:\n        s.x = [v] if IS_LIST else v\n    except Exception:\n"
            "        return False\n    finally:\n        if AUTO: P.check_on_set = False\n    return True\n"
            "def probe(idx):\n    global s\n    if CLASS_LEVEL: s = S()\n    return [accepts(U[i]) for i in idx]\n")
    if proxy == "held":
        src += "H = P.objects\n"
    if is_stale_cfg(cfg):
        src += "H = P.objects        # a handle obtained EARLIER than the mutations below\n"
    src += "# ---- history (u<i> in the witness is U[i])\n"
    if not hist:
        src += "r = None\nn1 = n2 = 0\n"
    src += "\n".join(lines) + "\n"
    src += "# ---- expectation from the abstract view (objs sequence + ordered names mapping)\n"
    src += "exp_objs = [%s]\n" % ", ".join("U[%d]" % i for i in view.objs)
    src += "exp_names = [%s]\n" % ", ".join("(%r, U[%d])" % (k, i) for k, i in view.names)
    src += "problems = []\n"
    src += "same = lambda a, b: len(a) == len(b) and all(x is y or x == y for x, y in zip(a, b))\n"
    if aspect == "result":
        src += "if not (r is U[%d] or (r is not None and r == U[%d])):\n" % (exp_res, exp_res)
        src += "    problems.append('returned %%r, the removed object is %%r' %% (r, U[%d]))\n" % exp_res
    elif aspect == "watchers":
        src += "d1, d2 = len(log_changed) - n1, len(log_all) - n2\n"
        if effective:
            src += "if d1 != 1 or d2 != 1:\n"
        else:
            src += "if d1 > 1 or d2 > 1:\n"
        src += "    problems.append('objects watchers notified %d / %d times for one mutation' % (d1, d2))\n"
    elif aspect in ("view", "proxy"):
        src += "if not same(list(P.objects), exp_objs):\n"
        src += "    problems.append('list(objects)=%r expected %r' % (list(P.objects), exp_objs))\n"
        src += "got_names = list(dict(P.names).items())\n"
        src += "if exp_names:\n"
        src += "    if not (same([k for k, _ in got_names], [k for k, _ in exp_names]) and same([v for _, v in got_names], [v for _, v in exp_names])):\n"
        src += "        problems.append('names=%r expected %r' % (got_names, exp_names))\n"
        src += "elif got_names and not same([v for _, v in got_names], exp_objs):\n"
        src += "    problems.append('names=%r although the objects are not named' % (got_names,))\n"
        if proxy == "held":
            src += "if not same(list(H), exp_objs):\n"
            src += "    problems.append('held proxy=%r expected %r' % (list(H), exp_objs))\n"
    elif aspect == "items":
        src += "its = list(P.objects.items()); ks = list(P.objects.keys()); vs = list(P.objects.values())\n"
        src += "if exp_names:\n"
        src += "    if not (same(ks, [k for k, _ in exp_names]) and same(vs, exp_objs) and same([k for k, _ in its], ks) and same([v for _, v in its], exp_objs)):\n"
        src += "        problems.append('items()=%r keys()=%r values()=%r expected %r' % (its, ks, vs, exp_names))\n"
        src += "elif not (same([v for _, v in its], exp_objs) and same(vs, exp_objs) and len(ks) == len(exp_objs)):\n"
        src += "    problems.append('items()=%r values()=%r expected objects %r' % (its, vs, exp_objs))\n"
    elif aspect == "getitem":
        src += "for k, v in (exp_names or list(enumerate(exp_objs))):\n"
        src += "    try:\n        g = P.objects[k]\n    except Exception as e:\n        g = e\n"
        src += "    if not (g is v or g == v):\n"
        src += "        problems.append('objects[%r]=%r expected %r' % (k, g, v))\n"
    elif aspect == "get_range":
        src += "rl = list(P.get_range().items())\n"
        src += "if exp_names:\n"
        src += "    if not (same([k for k, _ in rl], [k for k, _ in exp_names]) and same([v for _, v in rl], exp_objs)):\n"
        src += "        problems.append('get_range()=%r expected %r' % (rl, exp_names))\n"
        src += "elif not same([v for _, v in rl], exp_objs):\n"
        src += "    problems.append('get_range()=%r expected objects %r' % (rl, exp_objs))\n"
    elif aspect == "accepts":
        src += "if CLASS_LEVEL: s = S()\n"
        src += "for i in [%s]:\n" % ", ".join(str(u) for u in sorted(seen))
        src += "    want = any(U[i] is o for o in exp_objs)\n"
        src += "    if accepts(U[i]) != want:\n"
        src += "        problems.append('assignment of U[%d]=%r: member=%s but %s' % (i, U[i], want, 'rejected' if want else 'accepted'))\n"
        src += "if AUTO: P.check_on_set = True\n"
        src += "if IS_LIST and len(exp_objs) >= 2:\n"
        src += "    try:\n        s.x = [exp_objs[-1], exp_objs[0]]\n    except Exception:\n        problems.append('two members rejected')\n"
        src += "    try:\n        s.x = [exp_objs[0], U[%d]]\n        problems.append('[member, non-member] accepted')\n    except Exception:\n        pass\n" % NEVER
    body = "".join("    " + ln + "\n" for ln in src.splitlines())
    src = head + "try:\n" + body
    src += ("except Exception as e:      # no operation or observation in the statement's scope may raise\n"
            "    print('REPRODUCED: raised %s: %s' % (type(e).__name__, e)); sys.exit(1)\n")
    src += "if problems:\n    print('REPRODUCED: ' + '; '.join(problems)); sys.exit(1)\n"
    src += "print('NOT-REPRODUCED'); sys.exit(0)\n"
    return src


def plan(tier, seed):
    """list of (cfg, depth).  cfg = (kind, decl, level, proxy, family, mode).
    core  : {Selector, ListSelector} x {list, dict}, instance-level, fresh proxy, ints, probes every step
    near  : core with exactly one other dimension changed (class-level / held proxy / str / named objects /
            probes only at the end)
    wide  : the full product of the dimensions"""
    kinds, decls = ("Selector", "ListSelector"), ("list", "dict")
    core, near, wide = [], [], []
    for kind in kinds:
        for decl in decls:
            core.append((kind, decl, "inst", "fresh", "int", "interleaved"))
            near.append((kind, decl, "class", "fresh", "int", "interleaved"))
            near.append((kind, decl, "inst", "held", "int", "interleaved"))
            near.append((kind, decl, "inst", "fresh", "str", "interleaved"))
            near.append((kind, decl, "inst", "fresh", "obj", "interleaved"))
            near.append((kind, decl, "inst", "fresh", "int", "final"))
    for kind in kinds:
        for decl in decls:
            for level in ("inst", "class"):
                for proxy in ("fresh", "held"):
                    for family in ("int", "str", "obj"):
                        for mode in ("final", "interleaved"):
                            cfg = (kind, decl, level, proxy, family, mode)
                            if cfg not in core and cfg not in near:
                                wide.append(cfg)
    d = DEPTHS[tier]
    return [(c, d[0]) for c in core] + [(c, d[1]) for c in near] + [(c, d[2]) for c in wide]


def stale_plan(tier, seed):
    """list of (cfg, depth, sample): the stale-handle configurations.  sample None = all histories of that
    depth, else the number of seeded histories."""
    cfgs = [(kind, decl, "inst", "stale", "int", "interleaved") for kind in ("Selector", "ListSelector")
            for decl in ("list", "dict")]
    cfgs += [(kind, "list", "inst", "stale-auto", "int", "noprobe") for kind in ("Selector", "ListSelector")]
    cfgs += [("Selector", decl, "class", "stale", "obj", "final") for decl in ("list", "dict")]
    exh, smp = STALE_DEPTHS[tier]
    out = [(c, exh if c[2] == "inst" else exh - 1, None) for c in cfgs]
    out += [(c, depth, count) for c in cfgs if c[2] == "inst" for depth, count in smp]
    return out


def auto_plan(tier, seed):
    """list of (cfg, depth, first): check_on_set=False, list-declared, fresh handles; the alphabet is the plain
    one plus value assignments naming unknown objects (ListSelector: unknown once / the SAME unknown twice /
    two unknowns / known+unknown mixes / only known / empty list; Selector: unknown / known value).
    first None = all histories of that depth; else only those STARTING with that assignment."""
    out = []
    dall, dfirst, dvar = AUTO_DEPTHS[tier]
    for kind in ("Selector", "ListSelector"):
        cfg = (kind, "list", "inst", "auto", "int", "interleaved")
        ops0 = new_view(cfg).ops()
        out.append((cfg, dall, None))
        for f, op in enumerate(ops0):
            if op[0] == "autolist" and any(o > 2 for o in op[1]):      # names an unknown object
                out.append((cfg, dfirst, f))
        for var in ((kind, "list", "class", "auto", "int", "interleaved"), (kind, "list", "inst", "auto", "obj", "final"),
                    (kind, "list", "inst", "auto", "str", "interleaved")):
            for f, op in enumerate(new_view(var).ops()):
                if op[0] == "autolist" and any(o > 2 for o in op[1]):
                    out.append((var, dvar, f))
    return out


AUTO_DEPTHS = {"quick": (2, 3, 2), "thorough": (3, 4, 3)}
DEPTHS = {"quick": (3, 2, 1), "thorough": (4, 3, 2)}
STALE_DEPTHS = {"quick": (2, ((3, 600), (4, 200))), "thorough": (3, ((4, 9000),))}     # (depth <= 4: the universe has 12 objects)


def run(tier, seed):
    pl = plan(tier, seed)
    dcore, dnear, dwide = DEPTHS[tier]
    B = Bounded(
        PROP,
        rule=("one case = one history of style-consistent objects-mutations (every prefix is observed too), run on a "
              "fresh Parameterized class; operations are generated from the abstract view's state (indices 0/1/-1, "
              "first/last key, first/last object, up to two fresh objects, fresh keys, 3 wholesale replacements); "
              "after every step list(objects), names, items/keys/values, objects[k], get_range(), return value, "
              "two `objects` watcher logs and probe assignments of every object seen so far + a never-member are "
              "compared with the view.  distinct = distinct (configuration, history)."),
        bound=("all histories of exactly %d operations (all shorter ones as prefixes) on the 4 core configurations "
               "{Selector,ListSelector} x {list-declared,dict-declared} (instance-level Parameter, fresh proxy per "
               "operation, int objects, probe assignments after every step); all histories of %d operations on the 20 "
               "configurations that differ from a core one in one dimension (class-level Parameter / one held proxy / "
               "str objects / named objects / probes only at the end); all histories of %d operation(s) on the other "
               "72 configurations of kind x declaration x {instance,class}-level x {fresh,held} proxy x "
               "{int,str,named-object} objects x {probes after every step, probes only at the end}; 3 initial objects, "
               "alphabet of <= 21 operations per state; STALE HANDLES: 8 configurations ({Selector,ListSelector} x "
               "{list,dict}-declared with a handle H=objects taken at the start, 2 list-declared ones with "
               "check_on_set=False where value assignments auto-add, 2 class-level ones with named objects): every "
               "operation either through a fresh handle (one representative per mutator, the wholesale replacements, "
               "auto-adding assignment, re-taking H) or through H (every mutator variant whose meaning does not depend "
               "on the handle's own content): all histories of %d operations (%d at class level)%s; "
               "UPDATE CALL FORMS: on dict-declared objects 6 further forms of objects.update (two keyword items, a "
               "keyword replacing an existing key, mapping+keywords, pairs+keywords) as the LAST operation of every "
               "history above and as the FIRST operation of all 2-operation histories; "
               "CHECK_ON_SET=FALSE: {Selector,ListSelector} list-declared, fresh handles, alphabet = the plain one + "
               "value assignments naming unknown objects (ListSelector: <u>, <u,u>, <u,v>, <u,v,u>, <known,u>, "
               "<u,known>, <u,known,u>, <known,known>, <>; Selector: u, known), probes made with check_on_set switched "
               "on for the probe: all histories of %d operations, all histories of %d operations starting with such an "
               "assignment, and of %d operations for the class-level / named-object / str variants"
               % ((dcore, dnear, dwide, STALE_DEPTHS[tier][0], STALE_DEPTHS[tier][0] - 1,
                   "".join(" + %d seeded of %d operations" % (c, dd) for dd, c in STALE_DEPTHS[tier][1]))
                  + AUTO_DEPTHS[tier])))
    _quiet()
    tasks = []
    for cfg, depth in pl:
        nfirst = len(new_view(cfg).ops())
        for f in range(nfirst):
            tasks.append((cfg, depth, f))
    for cfg, depth in pl:                          # the additional call forms of update as FIRST operation
        if cfg[1] == "dict" and depth >= 2:
            for i in range(len(new_view(cfg).extra_ops())):
                tasks.append((cfg, 2, ("extra", i)))
    for cfg, depth, first in auto_plan(tier, seed):
        if first is None:
            for f in range(len(new_view(cfg).ops())):
                tasks.append((cfg, depth, f))
        else:
            tasks.append((cfg, depth, first))
    for cfg, depth, sample in stale_plan(tier, seed):
        if sample is None:
            for f in range(len(new_view(cfg).ops())):
                tasks.append((cfg, depth, f))
        else:
            B.exhaustive = False
            tasks.append((cfg, depth, ("sample", sample, seed)))
    # big tasks first
    tasks.sort(key=lambda t: (isinstance(t[2], tuple), -t[1], cfg_rank(t[0]), t[0], t[2]))
    cands = {}
    ndistinct = 0
    with ProcessPoolExecutor(NWORKERS) as ex:
        for (cfg, depth, f), (ncases, counts, cnd, samples) in zip(tasks, ex.map(_worker, tasks, chunksize=1)):
            B.evaluations += ncases
            ndistinct += ncases      # histories are pairwise different inside a configuration
            for k, v in counts.items():
                B.checked(k, v)
            for s in samples:
                if f == 7 or (isinstance(f, tuple) and depth == 3):
                    B.sample(s)
            for key, val in cnd.items():
                if key not in cands or val[0] < cands[key][0]:
                    cands[key] = val
    B._distinct = set(range(ndistinct))
    # an aspect that already fails on the freshly declared Selector is reported there only
    broken_at_init = {k[0] for k in cands if k[1] == "init"}
    cands = {k: v for k, v in cands.items() if k[1] == "init" or k[0] not in broken_at_init}
    for key in sorted(cands):
        aspect, opk, style, what = key
        rank, cfg, hist, details = cands[key]
        kind, decl, level, proxy, family, mode = cfg
        clause = clause_of(aspect, opk)
        witness = "decl=%s op=%s aspect=%s what=%s kind=%s level=%s proxy=%s objs=%s probes=%s hist=%s" % (
            style, OPNAME.get(opk.split("@")[0], opk.split("@")[0]) + ("@stale" if "@" in opk else ""), aspect, what, kind, level, proxy, family, mode, ";".join(op_text(o) for o in hist) or "-")
        B.violation(clause=clause, witness=witness, detail=" | ".join(details),
                    replay=make_replay(cfg, hist, aspect, clause, witness))
    # ---- family MX: list-style in-place edits (also on DICT-declared objects, where they leave the names out of step
    #      with the list) followed by assignments on every route: membership is checked against the CURRENT objects
    from bounded import c18_mixed
    c18_mixed.run_family(B, PROP, tier, seed, NWORKERS)
    B.bound += ("; FAMILY MX (bounded/c18_mixed.py): {Selector,ListSelector} x {dict,list}-declared x {class,instance}-level, "
                "all histories of %d list-style in-place edits ([i]=, [a:b]=, append, insert, extend, pop, remove, clear -- on "
                "dict-declared objects too) on the 8 core configurations (%d on the 32 one-dimension variants: held proxy / "
                "check_on_set=True / allow_None declared), after every edit the list view and one assignment per route "
                "(instance, constructor keyword, class, update, deserialize-then-update, untouched older instance) of every "
                "object seen + a never-member" % c18_mixed.DEPTHS[tier][:2])
    from bounded import c18_unck
    c18_unck.run_family(B, tier, seed, NWORKERS)
    B.bound += ("; FAMILY UD (bounded/c18_unck.py): DICT-declared {Selector,ListSelector} with check_on_set=False x "
                "{class,instance}-level x {0,1,2 'objects' watchers, value+objects watcher}, histories of dict-style "
                "mutations interleaved with value assignments of unknown / known objects on every route (instance "
                "attribute, param.update, batch, deserialize; class attribute, constructor keyword, new instance, "
                "class-level update): list view, labels, get_range(), accepted values, pop result, watcher calls")
    B.note("style-inconsistent operations (append/insert/extend/[i]= on dict-declared objects, key operations on "
           "list-declared objects: names / items() / get_range() after them; only the list view and the accepted values are "
           "claimed there, family MX), duplicate objects, the NAME an auto-added object of a check_on_set=False "
           "dict-declared Selector shows under (not settled; everything else about them: family UD), objects.update(**kw) without a positional argument (not in ListProxy's "
           "signature) and failing operations (pop from empty, missing key) are outside the statement's quantifier "
           "and are not enumerated")
    return B.result()
