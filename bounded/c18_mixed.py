"""Family MX (shared by the bounded layers of C01 and C18): membership of assigned values is checked
against the CURRENT objects -- on every assignment route -- after list-style in-place edits of
``objects``, in particular on Selectors / ListSelectors whose objects were declared as a DICT.

What is driven
--------------
A fresh ``class S(Parameterized): x = Selector|ListSelector(objects=<list or dict of 3 JSON-native
objects>, ...)``; a history of list-style in-place edits of ``<S or instance>.param.x.objects``

    objects[i] = new, objects[a:b] = [new], append(new), append(<an object removed earlier>),
    insert(i, new), extend([new, new2]), pop(i), pop(), remove(obj), clear()

(on dict-declared objects the first six leave the name mapping out of step with the list -- ListProxy
calls them deprecated there but performs them); after EVERY edit one assignment attempt per route

    instance attribute, constructor keyword, class attribute, param.update, JSON deserialize-then-
    update, and an instance that was created before the edits (no Parameter copy of its own)

for every object seen so far and a never-member (ListSelector: the singleton lists, two members in
reversed order, [member, never-member], [member, removed], [] ), plus None when allow_None was declared.

Oracle (from the statements of C01 / C18, plain ``list`` semantics -- never from ListProxy's code)
---------------------------------------------------------------------------------------------------
The current objects are the declared ones with the edits applied as on a plain Python list.  With
``check_on_set`` on (the default for non-empty objects / declared True) an assignment succeeds iff the
value (every item of a ListSelector value) is one of the current objects, or is None with
allow_None=True; otherwise it raises ValueError/TypeError; an accepted value is the value read back.
Objects are pairwise unequal ints / strs, so membership by ``==`` or by identity agree.

Only the *list view* and the accepted values are claimed after style-inconsistent edits: names, items(),
get_range() of a dict-declared Selector edited list-style are NOT compared (scope of C18).
"""
import json
import logging
import warnings
from concurrent.futures import ProcessPoolExecutor

from bounded._api import REPLAY_HEADER

U = [1, 'a', 2, 'b', 3, 'c', 4, 'd', 5, 'e', 6, 'zz']
NEVER = len(U) - 1
KEYS = ("k0", "k1", "k2")
ROUTES = ["instance", "kwarg", "class", "update", "deserialize", "oldinst"]
INST_ROUTES = ["instance", "update", "deserialize"]

METHOD = {"setidx": "ListProxy.__setitem__", "setslice": "ListProxy.__setitem__", "append": "ListProxy.append",
          "appendback": "ListProxy.append", "insert": "ListProxy.insert", "extend": "ListProxy.extend",
          "popidx": "ListProxy.pop", "pop": "ListProxy.pop", "remove": "ListProxy.remove",
          "clear": "ListProxy.clear", "init": "Selector.__init__"}
OPNAME = {"setidx": "[int]=", "setslice": "[slice]=", "append": "append", "appendback": "append", "insert": "insert",
          "extend": "extend", "popidx": "pop(int)", "pop": "pop()", "remove": "remove", "clear": "clear",
          "init": "init"}


# ---------------------------------------------------------------------------------------------
# the model: a plain list of universe indices
# ---------------------------------------------------------------------------------------------
class Model:
    def __init__(self):
        self.objs = [0, 1, 2]
        self.seen = {0, 1, 2}

    def fresh(self, k=1):
        n = max(self.seen) + 1
        return list(range(n, n + k)) if n + k <= NEVER else None

    def removed(self):
        return sorted(self.seen - set(self.objs))

    def ops(self):
        m, n = self.objs, len(self.objs)
        out = []
        f1, f2 = self.fresh(1), self.fresh(2)
        if f1:
            f = f1[0]
            for i in ([0] if n >= 1 else []) + ([1] if n >= 2 else []) + ([-1] if n >= 3 else []):
                out.append(("setidx", i, f))
            if n >= 1:
                out.append(("setslice", 0, 1, f))
            if n >= 2:
                out.append(("setslice", 0, 2, f))
            out.append(("append", f))
            out.append(("insert", 0, f))
            if n >= 1:
                out.append(("insert", 1, f))
        if f2:
            out.append(("extend", tuple(f2)))
        if self.removed():
            out.append(("appendback", self.removed()[0]))
        if n >= 1:
            out.append(("popidx", 0))
            out.append(("clear",))
        if n >= 2:
            out.append(("pop",))
            out.append(("remove", m[1]))
        return out

    def apply(self, op):
        k, m = op[0], self.objs
        if k == "setidx":
            m[op[1]] = op[2]
            self.seen.add(op[2])
        elif k == "setslice":
            m[op[1]:op[2]] = [op[3]]
            self.seen.add(op[3])
        elif k in ("append", "appendback"):
            m.append(op[1])
            self.seen.add(op[1])
        elif k == "insert":
            m.insert(op[1], op[2])
            self.seen.add(op[2])
        elif k == "extend":
            m.extend(op[1])
            self.seen.update(op[1])
        elif k == "popidx":
            m.pop(op[1])
        elif k == "pop":
            m.pop()
        elif k == "remove":
            m.remove(op[1])
        elif k == "clear":
            del m[:]
        else:
            raise ValueError(op)


def op_text(op):
    k = op[0]
    if k == "setidx":
        return "[%d]=u%d" % (op[1], op[2])
    if k == "setslice":
        return "[%d:%d]=[u%d]" % (op[1], op[2], op[3])
    if k in ("append", "appendback"):
        return "append(u%d)" % op[1]
    if k == "insert":
        return "insert(%d,u%d)" % (op[1], op[2])
    if k == "extend":
        return "extend([%s])" % ",".join("u%d" % o for o in op[1])
    if k == "popidx":
        return "pop(%d)" % op[1]
    if k == "pop":
        return "pop()"
    if k == "remove":
        return "remove(u%d)" % op[1]
    return "clear()"


def op_src(op, t):
    k = op[0]
    if k == "setidx":
        return "%s[%d] = U[%d]" % (t, op[1], op[2])
    if k == "setslice":
        return "%s[%d:%d] = [U[%d]]" % (t, op[1], op[2], op[3])
    if k in ("append", "appendback"):
        return "%s.append(U[%d])" % (t, op[1])
    if k == "insert":
        return "%s.insert(%d, U[%d])" % (t, op[1], op[2])
    if k == "extend":
        return "%s.extend([%s])" % (t, ", ".join("U[%d]" % o for o in op[1]))
    if k == "popidx":
        return "%s.pop(%d)" % (t, op[1])
    if k == "pop":
        return "%s.pop()" % t
    if k == "remove":
        return "%s.remove(U[%d])" % (t, op[1])
    return "%s.clear()" % t


def enum_histories(depth, first=None):
    """all histories of exactly ``depth`` edits (``first``: index of the first edit in the initial alphabet)."""
    def rec(m, hist):
        if len(hist) == depth:
            yield tuple(hist)
            return
        ops = m.ops()
        if not hist and first is not None:
            ops = ops[first:first + 1]
        for op in ops:
            m2 = Model()
            m2.objs, m2.seen = list(m.objs), set(m.seen)
            m2.apply(op)
            yield from rec(m2, hist + [op])
    yield from rec(Model(), [])


# ---------------------------------------------------------------------------------------------
# probes
# ---------------------------------------------------------------------------------------------
def probes_for(kind, m, aN):
    vals = sorted(m.seen) + [NEVER]
    if kind == "Selector":
        out = [("one", u) for u in vals]
    else:
        out = [("list", (u,)) for u in vals]
        if len(m.objs) >= 2:
            out.append(("list", (m.objs[-1], m.objs[0])))
        if m.objs:
            out.append(("list", (m.objs[0], NEVER)))
            if m.removed():
                out.append(("list", (m.objs[0], m.removed()[0])))
        out.append(("list", ()))
    if aN != "unset":
        out.append(("none",))
    return out


def role_of(u, m):
    if u in m.objs:
        return "member-declared" if u < 3 else "member-added"
    if u in m.seen:
        return "removed"
    return "never-member"


def probe_role(p, m):
    if p[0] == "none":
        return "none"
    if p[0] == "one":
        return role_of(p[1], m)
    bad = [u for u in p[1] if u not in m.objs]
    if not bad:
        return "list-of-members" if p[1] else "empty-list"
    return "list-with-" + role_of(bad[0], m)


def expected(p, m, aN):
    if p[0] == "none":
        return aN == "True"
    if p[0] == "one":
        return p[1] in m.objs
    return all(u in m.objs for u in p[1])


def probe_value(p):
    if p[0] == "none":
        return None
    if p[0] == "one":
        return U[p[1]]
    return [U[u] for u in p[1]]


def probe_text(p):
    if p[0] == "none":
        return "None"
    if p[0] == "one":
        return "u%d" % p[1]
    return "[%s]" % ",".join("u%d" % u for u in p[1])


def probe_src(p):
    if p[0] == "none":
        return "None"
    if p[0] == "one":
        return "U[%d]" % p[1]
    return "[%s]" % ", ".join("U[%d]" % u for u in p[1])


# ---------------------------------------------------------------------------------------------
# the real code
# ---------------------------------------------------------------------------------------------
def _quiet():
    import param
    warnings.simplefilter("ignore")
    param.parameterized.get_logger().setLevel(logging.CRITICAL + 1)
    param.parameterized.warnings_as_exceptions = False


def _decl_kw(cfg):
    kind, decl, level, proxy, cos, aN = cfg
    kw = {}
    if cos == "True":
        kw["check_on_set"] = True
    if aN != "unset":
        kw["allow_None"] = aN == "True"
    return kw


class Real:
    def __init__(self, cfg):
        import param
        kind, decl, level, proxy, cos, aN = cfg
        self.cfg = cfg
        ptype = getattr(param, kind)
        init = [U[0], U[1], U[2]] if decl == "list" else {KEYS[0]: U[0], KEYS[1]: U[1], KEYS[2]: U[2]}

        class S(param.Parameterized):
            x = ptype(objects=init, **_decl_kw(cfg))

        self.cls = S
        self.olds = []
        self.inst = S()
        self.P = self.inst.param.x if level == "inst" else S.param.x
        self.held = self.P.objects if proxy == "held" else None

    def target(self):
        return self.held if self.held is not None else self.P.objects

    def edit(self, op):
        t, k = self.target(), op[0]
        if k == "setidx":
            t[op[1]] = U[op[2]]
        elif k == "setslice":
            t[op[1]:op[2]] = [U[op[3]]]
        elif k in ("append", "appendback"):
            t.append(U[op[1]])
        elif k == "insert":
            t.insert(op[1], U[op[2]])
        elif k == "extend":
            t.extend([U[o] for o in op[1]])
        elif k == "popidx":
            t.pop(op[1])
        elif k == "pop":
            t.pop()
        elif k == "remove":
            t.remove(U[op[1]])
        else:
            t.clear()

    def before_edit(self, n):
        """class level: instances created BEFORE the edit that are never touched until their single attempt (an
        instance owns an independent copy of the Parameter once it has been assigned to)."""
        if self.cfg[2] == "class":
            self.olds = [self.cls() for _ in range(n)]

    def new_round(self):
        if self.cfg[2] == "class":
            self.inst = self.cls()

    def attempt(self, route, v):
        S, o = self.cls, self.inst
        try:
            if route == "instance":
                o.x = v
                got = o.x
            elif route == "oldinst":
                old = self.olds.pop()
                old.x = v
                got = old.x
            elif route == "kwarg":
                got = S(x=v).x
            elif route == "class":
                S.x = v
                got = S.__dict__["x"].default
            elif route == "update":
                o.param.update(x=v)
                got = o.x
            else:
                src = o if self.cfg[2] == "inst" else S
                d = src.param.deserialize_parameters(json.dumps({"x": v}))
                o.param.update(**d)
                got = o.x
                return "accept", got == v and type(got) is type(v)
        except BaseException as e:      # noqa: BLE001 -- the class of any escaping exception is the datum
            if isinstance(e, (KeyboardInterrupt, SystemExit, MemoryError)):
                raise
            return type(e).__name__, None
        return "accept", got is v


def routes_of(cfg):
    return INST_ROUTES if cfg[2] == "inst" else ROUTES


def run_history(cfg, hist, only=None):
    """Run one history with probes after every edit (``only`` = (step, route, probe): that single attempt
    after the edits up to ``step``).  Returns (failures, counts, nattempts)."""
    kind, decl, level, proxy, cos, aN = cfg
    counts, fails = {}, []

    def ck(c, n=1):
        counts[c] = counts.get(c, 0) + n

    m = Model()
    try:
        real = Real(cfg)
    except Exception as e:          # noqa
        return [dict(fk="raises", step=-1, op=("init",), route="-", probe=None, role="-", exp=None,
                     outcome=type(e).__name__, detail="declaring the class raised %r" % (e,))], counts, 0
    natt = 0
    for step, op in enumerate(hist):
        m.apply(op)
        ck("edit:" + op[0])
        try:
            real.before_edit(len(probes_for(kind, m, aN)))
            real.edit(op)
        except Exception as e:      # noqa
            fails.append(dict(fk="raises", step=step, op=op, route="-", probe=None, role="-", exp=None,
                              outcome=type(e).__name__, detail="%s raised %s: %s" % (op_text(op), type(e).__name__, e)))
            return fails, counts, natt
        try:
            got = list(real.P.objects)
        except Exception as e:      # noqa
            got = e
        ck("view:" + op[0])
        exp_objs = [U[i] for i in m.objs]
        if not (isinstance(got, list) and len(got) == len(exp_objs) and all(g is e or g == e for g, e in zip(got, exp_objs))):
            fails.append(dict(fk="view", step=step, op=op, route="-", probe=None, role="-", exp=None, outcome="-",
                              detail="list(objects)=%r expected %r" % (got, exp_objs)))
            return fails, counts, natt
        if only is not None and step != only[0]:
            continue
        real.new_round()
        for route in routes_of(cfg):
            for p in probes_for(kind, m, aN):
                if only is not None and (route, p) != (only[1], only[2]):
                    continue
                exp = expected(p, m, aN)
                outcome, inst_ok = real.attempt(route, probe_value(p))
                natt += 1
                ck("attempt:" + op[0])
                base = dict(step=step, op=op, route=route, probe=p, role=probe_role(p, m), exp=exp, outcome=outcome)
                if outcome != "accept" and outcome not in ("ValueError", "TypeError"):
                    fails.append(dict(base, fk="exc-class", detail="rejection raised %s" % outcome))
                if exp and outcome != "accept":
                    fails.append(dict(base, fk="rejected-valid", detail="a current object was rejected (%s)" % outcome))
                elif not exp and outcome == "accept":
                    fails.append(dict(base, fk="accepted-invalid", detail="a value that is not among the current objects was accepted"))
                if outcome == "accept" and exp:
                    ck("installed:" + op[0])
                    if not inst_ok:
                        fails.append(dict(base, fk="installed", detail="the value read back is not the value assigned"))
    return fails, counts, natt


CFG_RANK = {"Selector": 0, "ListSelector": 1, "dict": 0, "list": 1, "class": 0, "inst": 1, "fresh": 0, "held": 1,
            "default": 0, "True": 1, "unset": 0, "False": 2}


def cfg_rank(cfg):
    return tuple(CFG_RANK[x] for x in cfg)


def _worker(task):
    cfg, depth, first = task
    _quiet()
    ncases, natt, counts, cands = 0, 0, {}, {}
    sample = None
    for hist in enum_histories(depth, first):
        ncases += 1
        fails, c, n = run_history(cfg, hist)
        natt += n
        for k, v in c.items():
            counts[k] = counts.get(k, 0) + v
        if sample is None:
            sample = {"family": "MX", "cfg": list(cfg), "edits": [op_text(o) for o in hist], "attempts": n,
                      "failures": len(fails)}
        for f in fails:
            h = hist[:f["step"] + 1]
            key = (f["fk"], cfg[0], f["role"], f["outcome"] if f["fk"] in ("exc-class", "raises") else "",
                   f["op"][0] if f["fk"] in ("raises", "view") else "")
            rank = (len(h), cfg_rank(cfg), ROUTES.index(f["route"]) if f["route"] in ROUTES else -1,
                    ";".join(op_text(o) for o in h), probe_text(f["probe"]) if f["probe"] else "")
            ent = cands.get(key)
            if ent is None:
                cands[key] = [rank, cfg, h, f, 1, {f["route"]}, {cfg[1]}]
            else:
                ent[4] += 1
                ent[5].add(f["route"])
                ent[6].add(cfg[1])
                if rank < ent[0]:
                    ent[0], ent[1], ent[2], ent[3] = rank, cfg, h, f
    return ncases, natt, counts, cands, sample


# ---------------------------------------------------------------------------------------------
# replay
# ---------------------------------------------------------------------------------------------
_REPLAY = r'''import json, logging, warnings
import param
warnings.simplefilter('ignore')
param.parameterized.get_logger().setLevel(logging.CRITICAL + 1)
U = {U!r}

class S(param.Parameterized):
    x = param.{kind}(objects={init}{kw})

olds = []                   # instances created before an edit and not touched since (they own no Parameter copy)
inst = S()
LEVEL = {level!r}
P = inst.param.x if LEVEL == 'inst' else S.param.x
H = P.objects if {held!r} else None

def attempt(route, v):
    """one assignment of v through the route; returns 'accept' or the exception class name"""
    global got
    o = inst
    try:
        if route == 'instance': o.x = v; got = o.x
        elif route == 'oldinst': old = olds.pop(); old.x = v; got = old.x
        elif route == 'kwarg': got = S(x=v).x
        elif route == 'class': S.x = v; got = S.__dict__['x'].default
        elif route == 'update': o.param.update(x=v); got = o.x
        else:
            d = (o if LEVEL == 'inst' else S).param.deserialize_parameters(json.dumps({{'x': v}}))
            o.param.update(**d); got = o.x
            if got == v and type(got) is type(v): got = v
    except Exception as e:
        print('   ', route, repr(v), 'raised', type(e).__name__ + ':', str(e)[:100])
        return type(e).__name__
    return 'accept'

problems = []
try:
{body}
except Exception as e:      # an edit of the objects in the statement's scope must not raise
    print('REPRODUCED: raised %s: %s' % (type(e).__name__, e)); sys.exit(1)
if problems:
    print('REPRODUCED: ' + '; '.join(problems)); sys.exit(1)
print('NOT-REPRODUCED'); sys.exit(0)
'''


def make_replay(prop, cfg, hist, f, clause, witness, full):
    """``full``: replay every probe of the earlier steps too (used when the single attempt alone does not fail)."""
    kind, decl, level, proxy, cos, aN = cfg
    init = "[U[0], U[1], U[2]]" if decl == "list" else "{'k0': U[0], 'k1': U[1], 'k2': U[2]}"
    kw = "".join(", %s=%r" % (k, v) for k, v in sorted(_decl_kw(cfg).items()))
    t = "H" if proxy == "held" else "P.objects"
    lines = []
    m = Model()
    for step, op in enumerate(hist):
        m.apply(op)
        if level == "class" and (full or f["route"] == "oldinst"):
            lines.append("olds = [S() for _ in range(%d)]" % len(probes_for(kind, m, aN)))
        lines.append(op_src(op, t))
        last = step == len(hist) - 1
        if f["fk"] in ("raises", "view") and last:
            break
        if level == "class":
            lines.append("inst = S()")
        done = False
        for route in routes_of(cfg):
            for p in probes_for(kind, m, aN):
                if last and (route, p) == (f["route"], f["probe"]):
                    done = True
                    break
                if full:
                    lines.append("attempt(%r, %s)" % (route, probe_src(p)))
            if done:
                break
    exp_objs = "[%s]" % ", ".join("U[%d]" % i for i in m.objs)
    lines.append("current = %s      # the declared objects with the edits applied as on a plain list" % exp_objs)
    if f["fk"] in ("raises", "view"):
        lines.append("if list(P.objects) != current: problems.append('list(objects)=%r, the edits give %r' % (list(P.objects), current))")
    else:
        lines.append("v = %s" % probe_src(f["probe"]))
        if f["probe"][0] == "none":
            lines.append("want = %r      # allow_None as declared" % (aN == "True"))
        elif f["probe"][0] == "one":
            lines.append("want = v in current")
        else:
            lines.append("want = all(i in current for i in v)")
        lines.append("outcome = attempt(%r, v)" % f["route"])
        lines.append("print('current objects', current, '; assigning', repr(v), 'through route %s ->', outcome, '; statement demands', 'accept' if want else 'reject')" % f["route"])
        lines.append("if outcome == 'accept' and not want: problems.append('a value that is not among the current objects was accepted')")
        lines.append("elif outcome != 'accept' and want: problems.append('a value among the current objects was rejected (' + outcome + ')')")
        lines.append("elif outcome not in ('accept', 'ValueError', 'TypeError'): problems.append('rejection raised ' + outcome + ', neither ValueError nor TypeError')")
        lines.append("elif outcome == 'accept' and got is not v: problems.append('the value read back %r is not the assigned %r' % (got, v))")
    body = "".join("    " + ln + "\n" for ln in lines)
    hdr = REPLAY_HEADER.format(prop=prop, name="replay_%s_mx.py" % prop.lower(), clause=clause, witness=witness)
    return hdr + _REPLAY.format(U=U, kind=kind, init=init, kw=kw, level=level, held=proxy == "held", body=body.rstrip("\n"))


# ---------------------------------------------------------------------------------------------
# plan and entry point
# ---------------------------------------------------------------------------------------------
DEPTHS = {"quick": (2, 1, 0), "thorough": (3, 2, 1)}       # core / one dimension changed / full product


def plan(tier):
    kinds, decls, levels = ("Selector", "ListSelector"), ("dict", "list"), ("class", "inst")
    core = [(k, d, lv, "fresh", "default", "unset") for k in kinds for d in decls for lv in levels]
    near, wide = [], []
    for k in kinds:
        for d in decls:
            for lv in levels:
                for proxy in ("fresh", "held"):
                    for cos in ("default", "True"):
                        for aN in ("unset", "True", "False"):
                            cfg = (k, d, lv, proxy, cos, aN)
                            ndiff = (proxy != "fresh") + (cos != "default") + (aN != "unset")
                            if ndiff == 1:
                                near.append(cfg)
                            elif ndiff > 1:
                                wide.append(cfg)
    dc, dn, dw = DEPTHS[tier]
    out = [(c, dc) for c in core] + [(c, dn) for c in near]
    if dw:
        out += [(c, dw) for c in wide]
    return out


def clause_for(prop, cfg, f):
    fk, kind = f["fk"], cfg[0]
    if prop == "C01":
        return "C01/%s/%s" % (kind, {"rejected-valid": "accept<=>valid", "accepted-invalid": "accept<=>valid",
                                     "exc-class": "raises-only", "installed": "installed-is-assigned"}[fk])
    meth = METHOD[f["op"][0]]
    return "C18/%s/%s" % (meth, {"raises": "raises", "view": "view"}.get(fk, "accepts"))


def run_family(B, prop, tier, seed, nworkers=16):
    """Run family MX and record cases / clause evaluations / violations on the recorder ``B`` of ``prop``."""
    _quiet()
    tasks = []
    for cfg, depth in plan(tier):
        nfirst = len(Model().ops())
        for fi in range(nfirst):
            tasks.append((cfg, depth, fi))
    tasks.sort(key=lambda t: (-t[1], cfg_rank(t[0]), t[2]))
    cands = {}
    ncases = natt = 0
    try:
        ex = ProcessPoolExecutor(nworkers)
    except (OSError, AssertionError, ValueError):
        ex = None
    if ex is not None:
        with ex:
            results = list(ex.map(_worker, tasks, chunksize=2))
    else:
        results = [_worker(t) for t in tasks]
    for (cfg, depth, fi), (nc, na, counts, cnd, sample) in zip(tasks, results):
        ncases += nc
        natt += na
        kind = cfg[0]
        for k, v in counts.items():
            what, opk = k.split(":")
            if prop == "C01":
                if what == "attempt":
                    B.checked("C01/%s/accept<=>valid" % kind, v)
                    B.checked("C01/%s/raises-only" % kind, v)
                elif what == "installed":
                    B.checked("C01/%s/installed-is-assigned" % kind, v)
            else:
                if what == "attempt":
                    B.checked("C18/%s/accepts" % METHOD[opk], v)
                elif what == "view":
                    B.checked("C18/%s/view" % METHOD[opk], v)
                elif what == "edit":
                    B.checked("C18/%s/raises" % METHOD[opk], v)
        if sample is not None and fi == 0 and depth == DEPTHS[tier][0] and cfg[:3] == ("Selector", "dict", "class"):
            B.sample(sample)
        for key, ent in cnd.items():
            cur = cands.get(key)
            if cur is None:
                cands[key] = ent
            else:
                cur[4] += ent[4]
                cur[5] |= ent[5]
                cur[6] |= ent[6]
                if ent[0] < cur[0]:
                    cur[0], cur[1], cur[2], cur[3] = ent[0], ent[1], ent[2], ent[3]
    B.evaluations += natt if prop == "C01" else ncases
    for i in range(natt if prop == "C01" else ncases):
        B._distinct.add(-(i + 1))       # (pairwise different (configuration, history[, route, value]) tuples)
    per = {}
    dropped = 0
    for key in sorted(cands, key=lambda k: (cands[k][0], k)):
        rank, cfg, hist, f, n, routes, decls = cands[key]
        fk = f["fk"]
        if prop == "C01" and fk in ("raises", "view"):
            continue                # (edits / list view of the objects: clauses of C18)
        if prop == "C18" and fk == "installed":
            continue                # (identity of the installed value: clause of C01)
        ck = (fk, cfg[0])
        per[ck] = per.get(ck, 0) + 1
        if per[ck] > 4:
            dropped += 1
            continue
        # does the single attempt fail on a fresh class too?  then the replay is the minimal one
        full = False
        if fk not in ("raises", "view"):
            again, _, _ = run_history(cfg, hist, only=(f["step"], f["route"], f["probe"]))
            full = not any(a["fk"] == fk for a in again)
        clause = clause_for(prop, cfg, f)
        kind, decl, level, proxy, cos, aN = cfg
        htxt = ";".join(op_text(o) for o in hist) or "-"
        if prop == "C01":
            exp = {True: "accept", False: "reject", None: "undecided"}[f["exp"]]
            witness = ("type=%s kind=%s valueclass=edited-objects:%s value=%s cfg=objects=%s,check_on_set=%s,allow_None=%s "
                       "edits=%s level=%s proxy=%s route=%s expected=%s observed=%s" % (
                           kind, fk, f["role"], probe_text(f["probe"]), "{k0:u0,k1:u1,k2:u2}" if decl == "dict" else "[u0,u1,u2]",
                           cos, aN, htxt, level, proxy, f["route"], exp, f["outcome"]))
        else:
            what = {"accepted-invalid": "nonmember-accepted", "rejected-valid": "member-rejected",
                    "exc-class": "raises:" + f["outcome"], "raises": f["outcome"], "view": "objs"}[fk]
            witness = ("decl=%s style=list-edits op=%s aspect=%s what=%s kind=%s level=%s proxy=%s objs=json cos=%s allow_None=%s "
                       "hist=%s route=%s value=%s role=%s" % (
                           decl, OPNAME[f["op"][0]], clause.rsplit("/", 1)[1], what, kind, level, proxy, cos, aN, htxt,
                           f["route"], probe_text(f["probe"]) if f["probe"] else "-", f["role"]))
        detail = "%s | %d failing attempts in this class; routes=%s; declarations=%s%s" % (
            f["detail"], n, sorted(routes, key=lambda r: ROUTES.index(r) if r in ROUTES else -1), sorted(decls),
            "; fails only after the earlier probe assignments of the history (replayed in full)" if full else "")
        B.violation(clause=clause, witness=witness, detail=detail,
                    replay=make_replay(prop, cfg, hist, f, clause, witness, full))
        B._seen[(clause, witness)]["count"] = n
    if dropped:
        B.note("family MX: %d further failing value classes not listed (cap 4 per type and kind of failure)" % dropped)
    dc, dn, dw = DEPTHS[tier]
    B.note("family MX (membership against the CURRENT objects after list-style edits, incl. dict-declared objects): "
           "%d histories, %d assignment attempts over the routes %s; all histories of %d edits on the 8 core configurations "
           "{Selector,ListSelector} x {dict,list}-declared x {class,instance}-level Parameter, of %d edit(s) on the %d "
           "configurations differing in one of {held proxy, check_on_set=True declared, allow_None=True/False declared}%s; "
           "probes after every edit" % (ncases, natt, "/".join(ROUTES), dc, dn, 32,
                                        (", of %d edit(s) on the other 56" % dw) if dw else ""))
    return ncases, natt
