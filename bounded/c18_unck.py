"""Family UD of the bounded layer of C18: DICT-declared Selectors / ListSelectors with ``check_on_set=False``
whose ``objects`` are WATCHED, under histories that interleave dict-style mutations with value assignments
(on every route) of objects the Selector does not know yet.

What is driven
--------------
A fresh ``class S(Parameterized): x = Selector|ListSelector(objects={'k0': u0, 'k1': u1, 'k2': u2},
check_on_set=False)``; the Parameter looked at is the class's own (``level=class``) or the copy owned by an
instance (``level=inst``); 0, 1 or 2 watchers registered with ``what='objects'`` (``watch=none|obj1|obj2``) or
one ``value`` watcher next to one ``objects`` watcher (``watch=val+obj``).  Histories over

    objects[label] = new (existing / new label), objects.update({...}), objects.pop(label), objects.pop(i),
    objects.pop(), objects.remove(obj), objects.clear(), <Parameter>.objects = {...}                 (dict style)
    value assignments of an unknown object / a known one (ListSelector: [new], [new, new2], [known, new],
    [known], []) through the routes
        level=inst : instance attribute, param.update, instance attribute inside batch_call_watchers,
                     deserialize_parameters + param.update
        level=class: class attribute, constructor keyword, attribute of a new instance, class-level param.update

Oracle (reference model written from the statement, plain Python list of (label, object) pairs)
--------------------------------------------------------------------------------------------------
The model is the ordered list of the current objects, each with the label it was given (by the declaration or by
a dict-style mutation) or without one (an object that joined through a value assignment: ``check_on_set=False``
is documented as "the value is added to the objects"; WHICH name such an object shows under is not settled and
never compared).  After every step, through a fresh ``objects`` handle:

    view    list(objects) is the model's objects, in order
    names   objects[label] is the labelled object for every label of the model; keys()/items() list the
            model's labels in the model's order (entries for un-labelled objects may or may not be listed, but
            every listed entry maps to a current object)
    range   get_range() lists exactly the model's objects in order, every labelled one under its label
    accepts (after the last operation of a history) with membership checking switched on for the probe only, an
            assignment is accepted iff the value
            (every item of a ListSelector value) is among the model's objects
    result  pop returns the object it removed
    notify  every 'objects' watcher is called exactly once by a dict-style mutation that changes the view
            (no count is claimed for a value assignment)
    raises  no operation of a history raises
"""
import os
from concurrent.futures import ProcessPoolExecutor

from bounded._api import REPLAY_HEADER

KINDS = ("Selector", "ListSelector")
LEVELS = ("inst", "class")
WATCHES = ("obj1", "obj2", "val+obj", "none")
ROUTES = {"inst": ("attr", "update", "batch", "deser"), "class": ("cls", "kwarg", "newinst", "clsupdate")}

CORE_SRC = r'''
import json, logging, warnings
U = [1, 'a', 2, 'b', 3, 'c', 4, 'd', 5, 'e', 6, 'f', 7, 'zz']
NEVER = len(U) - 1
ROUTES = {"inst": ("attr", "update", "batch", "deser"), "class": ("cls", "kwarg", "newinst", "clsupdate")}
INSTANCE_SIDE = ("kwarg", "newinst")


class Model:
    """the reference: ordered (label or None, universe index) pairs -- plain list semantics"""
    def __init__(self):
        self.ent = [["k0", 0], ["k1", 1], ["k2", 2]]
        self.seen = {0, 1, 2}
        self.nkey = 0

    def clone(self):
        m = Model()
        m.ent, m.seen, m.nkey = [list(e) for e in self.ent], set(self.seen), self.nkey
        return m

    def objs(self):
        return [u for _, u in self.ent]

    def labels(self):
        return [(k, u) for k, u in self.ent if k is not None]

    def fresh(self, k):
        n = max(self.seen) + 1
        return list(range(n, n + k)) if n + k <= NEVER else None

    def ops(self, kind, level):
        out = []
        f1, f2 = self.fresh(1), self.fresh(2)
        lab, objs = self.labels(), self.objs()
        if f1:
            f = f1[0]
            if lab:
                out.append(("setkey", lab[0][0], f))
                if len(lab) > 1:
                    out.append(("setkey", lab[-1][0], f))
            out.append(("setkey", "n%d" % self.nkey, f))
        if f2:
            if lab:
                out.append(("update", ((lab[0][0], f2[0]), ("n%d" % self.nkey, f2[1]))))
            out.append(("replace", (("r%d" % self.nkey, f2[0]), ("r%d" % (self.nkey + 1), f2[1]))))
        if lab:
            out.append(("popkey", lab[0][0]))
            if len(lab) > 1:
                out.append(("popkey", lab[-1][0]))
        if objs:
            out.append(("popidx", 0))
            out.append(("pop",))
            out.append(("remove", objs[0]))
            if self.ent[-1][0] is None and len(objs) > 1:
                out.append(("remove", objs[-1]))
            out.append(("clear",))
        for ri, route in enumerate(ROUTES[level]):
            if kind == "Selector":
                if f1:
                    out.append(("val", route, (f1[0],)))
                if objs and ri == 0:
                    out.append(("val", route, (objs[-1],)))
            else:
                if f1:
                    out.append(("val", route, (f1[0],)))
                if f2 and ri % 2 == 0:
                    out.append(("val", route, (f2[0], f2[1])))
                if f1 and objs and ri % 2 == 1:
                    out.append(("val", route, (objs[0], f1[0])))
                if ri == 0:
                    if objs:
                        out.append(("val", route, (objs[-1],)))
                    out.append(("val", route, ()))
        return out

    def apply(self, op):
        """returns (removed universe index or None, view changed?)"""
        k = op[0]
        before = [list(e) for e in self.ent]
        ret = None
        if k == "setkey":
            self._setkey(op[1], op[2])
        elif k == "update":
            for lab, u in op[1]:
                self._setkey(lab, u)
        elif k == "replace":
            self.ent = [[lab, u] for lab, u in op[1]]
            self.seen.update(u for _, u in op[1])
            self.nkey += 2
        elif k == "popkey":
            i = [e[0] for e in self.ent].index(op[1])
            ret = self.ent.pop(i)[1]
        elif k == "popidx":
            ret = self.ent.pop(op[1])[1]
        elif k == "pop":
            ret = self.ent.pop()[1]
        elif k == "remove":
            self.ent.pop(self.objs().index(op[1]))
        elif k == "clear":
            self.ent = []
        elif k == "val":
            for u in op[2]:
                if u not in self.objs():
                    self.ent.append([None, u])
                    self.seen.add(u)
        else:
            raise ValueError(op)
        return ret, before != self.ent

    def _setkey(self, lab, u):
        self.seen.add(u)
        for e in self.ent:
            if e[0] == lab:
                e[1] = u
                return
        self.ent.append([lab, u])
        if lab.startswith("n"):
            self.nkey = max(self.nkey, int(lab[1:]) + 1)


def op_text(op):
    k = op[0]
    if k == "setkey":
        return "[%r]=u%d" % (op[1], op[2])
    if k == "update":
        return "update({%s})" % ",".join("%r:u%d" % p for p in op[1])
    if k == "replace":
        return "objects={%s}" % ",".join("%r:u%d" % p for p in op[1])
    if k == "popkey":
        return "pop(%r)" % op[1]
    if k == "popidx":
        return "pop(%d)" % op[1]
    if k == "pop":
        return "pop()"
    if k == "remove":
        return "remove(u%d)" % op[1]
    if k == "clear":
        return "clear()"
    return "value@%s=<%s>" % (op[1], ",".join("u%d" % u for u in op[2]))


OPNAME = {"setkey": "[key]=", "update": "update", "replace": "objects=", "popkey": "pop(key)", "popidx": "pop(int)",
          "pop": "pop()", "remove": "remove", "clear": "clear", "val": "value="}


def _quiet():
    import param
    warnings.simplefilter("ignore")
    param.parameterized.get_logger().setLevel(logging.CRITICAL + 1)
    param.parameterized.warnings_as_exceptions = False


class Real:
    def __init__(self, cfg):
        import param
        kind, level, watch = cfg
        self.cfg, self.param = cfg, param
        ptype = getattr(param, kind)

        class S(param.Parameterized):
            x = ptype(objects={"k0": U[0], "k1": U[1], "k2": U[2]}, check_on_set=False)

        self.cls = S
        self.inst = S()
        self.P = self.inst.param.x if level == "inst" else S.param.x
        self.logs = []
        owner = self.inst if level == "inst" else S
        nobj = {"none": 0, "obj1": 1, "obj2": 2, "val+obj": 1}[watch]
        if watch == "val+obj":
            owner.param.watch(lambda e: None, "x")
        for _ in range(nobj):
            log = []
            self.logs.append(log)
            owner.param.watch(log.append, "x", what="objects")

    def value(self, us):
        return U[us[0]] if self.cfg[0] == "Selector" else [U[u] for u in us]

    def assign(self, route, v):
        param, S, o = self.param, self.cls, self.inst
        if route == "attr":
            o.x = v
        elif route == "update":
            o.param.update(x=v)
        elif route == "batch":
            with param.parameterized.batch_call_watchers(o):
                o.x = v
        elif route == "deser":
            o.param.update(**o.param.deserialize_parameters(json.dumps({"x": v})))
        elif route == "cls":
            S.x = v
        elif route == "kwarg":
            S(x=v)
        elif route == "newinst":
            S().x = v
        elif route == "clsupdate":
            S.param.update(x=v)
        else:
            raise ValueError(route)

    def do(self, op):
        k, t = op[0], self.P.objects
        if k == "setkey":
            t[op[1]] = U[op[2]]
        elif k == "update":
            t.update({lab: U[u] for lab, u in op[1]})
        elif k == "replace":
            self.P.objects = {lab: U[u] for lab, u in op[1]}
        elif k == "popkey":
            return t.pop(op[1])
        elif k == "popidx":
            return t.pop(op[1])
        elif k == "pop":
            return t.pop()
        elif k == "remove":
            t.remove(U[op[1]])
        elif k == "clear":
            t.clear()
        else:
            self.assign(op[1], self.value(op[2]))
        return None

    def accepts(self, us):
        """one probe assignment with membership checking switched on for the probe only"""
        target = self.inst if self.cfg[1] == "inst" else self.cls()
        self.P.check_on_set = True
        try:
            target.x = self.value(us)
        except (ValueError, TypeError):
            return False
        finally:
            self.P.check_on_set = False
        return True


def same(got, exp):
    return isinstance(got, list) and len(got) == len(exp) and all(g is e or (type(g) is type(e) and g == e) for g, e in zip(got, exp))


def observe(real, m, probes=True):
    """list of (aspect, detail) differences between the real Parameter and the model"""
    out = []
    P = real.P
    objs = [U[u] for u in m.objs()]
    lab = [(k, U[u]) for k, u in m.labels()]
    view = list(P.objects)
    if not same(view, objs):
        out.append(("view", "list(objects)=%r, the history gives %r" % (view, objs)))
    # names
    bad = []
    for k, o in lab:
        try:
            g = P.objects[k]
        except Exception as e:
            bad.append("objects[%r] raised %s" % (k, type(e).__name__))
        else:
            if g is not o and g != o:
                bad.append("objects[%r]=%r, labelled object is %r" % (k, g, o))
    try:
        items = list(P.objects.items())
        keys = list(P.objects.keys())
    except Exception as e:
        bad.append("items()/keys() raised %s" % type(e).__name__)
        items, keys = None, None
    if items is not None:
        declared = {k for k, _ in lab}
        if [(k, v) for k, v in items if k in declared] != lab or [k for k in keys if k in declared] != [k for k, _ in lab]:
            bad.append("items()=%r, the labels given are %r" % (items, lab))
        stray = [(k, v) for k, v in items if k not in declared and not any(v is o or v == o for o in objs)]
        if stray:
            bad.append("items() lists %r, not among the current objects %r" % (stray, objs))
    if bad:
        out.append(("names", "; ".join(bad)))
    # range
    try:
        rng = list(P.get_range().items())
    except Exception as e:
        out.append(("range", "get_range() raised %s: %s" % (type(e).__name__, e)))
    else:
        labels_of = {}
        for k, u in m.labels():
            labels_of[u] = k
        ok = same([v for _, v in rng], objs)
        if ok:
            for (k, v), u in zip(rng, m.objs()):
                if u in labels_of and k != labels_of[u]:
                    ok = False
        if not ok:
            out.append(("range", "get_range()=%r, the history gives the objects %r with the labels %r" % (rng, objs, lab)))
    # accepts
    if not probes:
        return out
    bad = []
    probes = [(u,) for u in sorted(m.seen)] + [(NEVER,)]
    if real.cfg[0] == "ListSelector" and len(m.ent) >= 2:
        probes.append((m.ent[-1][1], m.ent[0][1]))
    for us in probes:
        want = all(u in m.objs() for u in us)
        try:
            got = real.accepts(us)
        except Exception as e:
            bad.append("probe <%s> raised %s" % (",".join("u%d" % u for u in us), type(e).__name__))
            continue
        if got != want:
            bad.append("<%s> %s, %s the current objects" % (",".join("u%d" % u for u in us), "accepted" if got else "rejected",
                                                            "among" if want else "not among"))
    if bad:
        out.append(("accepts", "; ".join(bad)))
    return out


def removes_of(m, op):
    """what the operation removes: 'labelled' / 'unlabelled' (an object that joined through a value assignment) / '-'"""
    try:
        ent = {"popidx": lambda: m.ent[op[1]], "pop": lambda: m.ent[-1], "popkey": lambda: [e for e in m.ent if e[0] == op[1]][0],
               "remove": lambda: [e for e in m.ent if e[1] == op[1]][0]}.get(op[0])
        if ent is None:
            return "-"
        return "unlabelled" if ent()[0] is None else "labelled"
    except (ValueError, IndexError):
        return "-"


def run_history(cfg, hist):
    """returns (failures [(step, aspect, detail, what the failing operation removes)], nsteps run); stops at the
    first failing step"""
    _quiet()
    m = Model()
    try:
        real = Real(cfg)
    except Exception as e:
        return [(-1, "raises", "declaring the class raised %r" % (e,), "-")], 0
    d0 = observe(real, m, probes=not hist)
    if d0:
        return [(-1, a, d, "-") for a, d in d0], 0
    for step, op in enumerate(hist):
        before = m.clone()
        removes = removes_of(m, op)
        try:
            exp_ret, changed = m.apply(op)
        except (ValueError, IndexError):
            return [], step       # (the operation's precondition does not hold on the lenient branch of the model)
        n0 = [len(log) for log in real.logs]
        try:
            ret = real.do(op)
        except Exception as e:
            return [(step, "raises", "%s raised %s: %s" % (op_text(op), type(e).__name__, e), removes)], step + 1
        if op[0] == "val" and op[1] in INSTANCE_SIDE and changed and same(list(real.P.objects), [U[u] for u in before.objs()]):
            # an assignment to an INSTANCE of the class (constructor keyword, attribute of a new instance) while the
            # Parameter looked at is the class's own: whether the unknown object joins the class's objects or only
            # those of the instance is not settled by the statement -- both outcomes are taken as legal
            m = before
        fails = []
        if exp_ret is not None and ret is not U[exp_ret] and ret != U[exp_ret]:
            fails.append((step, "result", "%s returned %r, removed object is %r" % (op_text(op), ret, U[exp_ret]), removes))
        if op[0] != "val":
            calls = [len(log) - n for log, n in zip(real.logs, n0)]
            if any(c > 1 or (changed and c != 1) for c in calls):
                fails.append((step, "notify", "%s: calls of the 'objects' watchers %r, expected %s each" % (
                    op_text(op), calls, "1" if changed else "at most 1"), removes))
        fails += [(step, a, d, removes) for a, d in observe(real, m, probes=step == len(hist) - 1)]
        if fails:
            return fails, step + 1
    return [], len(hist)
'''

exec(compile(CORE_SRC, "<c18_unck core>", "exec"))


# ---------------------------------------------------------------------------------------------
def enum_histories(cfg, depth, first, guided):
    """all histories of ``depth`` operations whose first one is ``first`` (an index into the initial alphabet);
    ``guided``: only histories of the shape <value assignment of an unknown object, dict-style mutation, any ...>
    (``"short"``: the third operation is a dict-style mutation too)."""
    kind, level, _ = cfg

    def rec(m, hist):
        if len(hist) == depth:
            yield tuple(hist)
            return
        ops = m.ops(kind, level)
        if not hist:
            ops = ops[first:first + 1]
        for op in ops:
            if guided:
                if len(hist) == 0 and not (op[0] == "val" and any(u not in m.objs() for u in op[2])):
                    continue
                if len(hist) == 1 and op[0] == "val":
                    continue
                if guided == "short" and len(hist) >= 2 and op[0] == "val":
                    continue
            m2 = m.clone()
            m2.apply(op)
            yield from rec(m2, hist + [op])
    yield from rec(Model(), [])


def cfg_rank(cfg):
    return (KINDS.index(cfg[0]), LEVELS.index(cfg[1]), WATCHES.index(cfg[2]))


def _worker(task):
    cfg, depth, first, guided = task
    ncases = nsteps = 0
    cands = {}
    for hist in enum_histories(cfg, depth, first, guided):
        ncases += 1
        fails, n = run_history(cfg, hist)
        nsteps += n
        for step, aspect, detail, removes in fails:
            h = hist[:step + 1]
            opk = h[-1][0] if h else "init"
            key = (aspect, cfg[0], opk, removes)
            rank = (len(h), cfg_rank(cfg), ";".join(op_text(o) for o in h))
            ent = cands.get(key)
            if ent is None:
                cands[key] = [rank, cfg, h, detail, 1, {cfg[2]}, {cfg[1]}]
            else:
                ent[4] += 1
                ent[5].add(cfg[2])
                ent[6].add(cfg[1])
                if rank < ent[0]:
                    ent[0], ent[1], ent[2], ent[3] = rank, cfg, h, detail
    return ncases, nsteps, cands


_REPLAY_TAIL = r'''
cfg = {cfg!r}
hist = {hist!r}
ASPECT = {aspect!r}
print('class S(param.Parameterized): x = param.%s(objects={{"k0": U[0], "k1": U[1], "k2": U[2]}}, check_on_set=False)' % cfg[0])
print('Parameter looked at: %s level; watchers: %s; history: %s' % (cfg[1], cfg[2], '; '.join(op_text(o) for o in hist)))
fails, _ = run_history(cfg, hist)
for step, aspect, detail, removes in fails:
    print('  step %d [%s] %s' % (step, aspect, detail))
mine = [f for f in fails if f[1] == ASPECT]
if mine:
    print('REPRODUCED: ' + mine[0][2]); sys.exit(1)
print('NOT-REPRODUCED'); sys.exit(0)
'''


def make_replay(cfg, hist, aspect, clause, witness):
    hdr = REPLAY_HEADER.format(prop="C18", name="replay_c18_ud.py", clause=clause, witness=witness)
    return hdr + CORE_SRC + _REPLAY_TAIL.format(cfg=tuple(cfg), hist=tuple(hist), aspect=aspect)




def run_family(B, tier, seed, nworkers=16):
    cfgs = [(k, lv, w) for k in KINDS for lv in LEVELS for w in WATCHES]
    tasks = []
    for cfg in cfgs:
        n0 = len(Model().ops(cfg[0], cfg[1]))
        for fi in range(n0):
            if tier == "quick":
                tasks.append((cfg, 2, fi, False))
                if cfg[2] in ("obj1", "val+obj"):
                    tasks.append((cfg, 3, fi, "short"))
            else:
                tasks.append((cfg, 3 if cfg[2] == "obj1" else 2, fi, False))
                tasks.append((cfg, 3, fi, "short" if cfg[2] == "obj1" else True))
                if cfg[2] == "obj2":
                    tasks.append((cfg, 4, fi, "short"))
    tasks.sort(key=lambda t: (-t[1], cfg_rank(t[0]), t[2]))
    try:
        ex = ProcessPoolExecutor(nworkers)
    except (OSError, AssertionError, ValueError):
        ex = None
    if ex is not None:
        with ex:
            results = list(ex.map(_worker, tasks, chunksize=4))
    else:
        results = [_worker(t) for t in tasks]
    cands = {}
    ncases = nsteps = 0
    for nc, ns, cnd in results:
        ncases += nc
        nsteps += ns
        for key, ent in cnd.items():
            cur = cands.get(key)
            if cur is None:
                cands[key] = ent
            else:
                cur[4] += ent[4]
                cur[5] |= ent[5]
                cur[6] |= ent[6]
                if ent[0] < cur[0]:
                    cur[0], cur[1], cur[2], cur[3] = ent[0], ent[1], ent[2], ent[3]
    B.evaluations += ncases
    for i in range(ncases):
        B._distinct.add(("UD", i))
    for a in ("view", "names", "range", "accepts", "notify", "raises"):
        B.checked("C18/unchecked-dict/" + a, nsteps)
    per = {}
    dropped = 0
    for key in sorted(cands, key=lambda k: (cands[k][0], k)):
        rank, cfg, hist, detail, n, watches, levels = cands[key]
        aspect, kind, opk, target = key
        ck = (aspect, kind)
        per[ck] = per.get(ck, 0) + 1
        if per[ck] > 3:
            dropped += 1
            continue
        clause = "C18/unchecked-dict/" + aspect
        witness = "decl=dict style=unchecked-watched op=%s aspect=%s removes=%s kind=%s level=%s watch=%s hist=%s" % (
            OPNAME.get(opk, opk), aspect, target, cfg[0], cfg[1], cfg[2], ";".join(op_text(o) for o in hist) or "-")
        B.violation(clause=clause, witness=witness,
                    detail="%s | %d failing histories in this class; watch=%s; level=%s" % (
                        detail, n, sorted(watches), sorted(levels)),
                    replay=make_replay(cfg, hist, aspect, clause, witness))
        B._seen[(clause, witness)]["count"] = n
    if dropped:
        B.note("family UD: %d further failing (aspect, kind, operation) classes not listed (cap 3 per aspect and kind)" % dropped)
    B.note("family UD (dict-declared, check_on_set=False, watched objects; value assignments on every route interleaved "
           "with dict-style mutations): %d histories, %d steps observed on %d configurations {Selector,ListSelector} x "
           "{instance,class}-level x watchers {obj1,obj2,val+obj,none}; %s" % (
               ncases, nsteps, len(cfgs),
               "every history of 2 operations; every history <value assignment of an unknown object; dict-style mutation; "
               "dict-style mutation> for the watchers obj1 and val+obj" if tier == "quick" else
               "every history of 2 (watchers obj1: 3) operations; every history <value assignment of an unknown object; "
               "dict-style mutation; any operation> (obj1: covered by the full depth 3); watchers obj2: every history "
               "<value assignment of an unknown object; three dict-style mutations>"))
    return ncases, nsteps
