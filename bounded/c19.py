"""Bounded stand-in layer for C19 -- time-dependent dynamic values are a pure function of time.

What is driven
--------------
Real ``param.Number`` / ``param.Dynamic`` parameters holding real ``numbergen`` generators, the
real global ``param.Dynamic.time_fn`` (a ``param.Time``) and ``Parameters._state_push/_state_pop/
inspect_value`` through **every** history of the operation alphabet

    J(t)    jump the time to t in {-2,-1,0,1,2,5}          (forward, backward, repeated)
    R(i,g)  read parameter g in {a,b,c} of instance i in {1,2}
    I(i)    inspect_value of every generated parameter of instance i
    E / X / XR   enter a (nested) ``with time_fn:`` block / leave it normally / leave it by raising
    P(i) / Q(i)  _state_push / _state_pop on instance i

up to the bound.  ``a`` and ``b`` hold two *time-dependent* numbergen generators with a given
name and seed, ``c`` holds a *stateful* (not time-dependent) numbergen generator, so that the
caching by time is itself observable.

Oracle (from the statement)
---------------------------
* G(gen, t): the value of a time-dependent generator (class, name, seed) at time t is a function
  of t only.  The reference table is obtained from the plainest possible history on a separate
  fresh object (read at 0, jump to t, read) and every read in every history, on every instance,
  in whatever order the times were visited, must return exactly that value.
* reading again at the same time returns the same value (checked for the stateful generator too,
  whose values are otherwise unconstrained);
* ``inspect_value`` returns the value last produced (it is not checked before the first read,
  where nothing has been produced yet) and never advances anything: later reads still agree;
* after leaving a ``with time_fn`` block -- normally or by an exception -- the time equals, in
  value and type, the time when the block was entered (LIFO for nested blocks);
* ``_state_pop`` after ``_state_push`` restores the cached value/time of every generator of the
  instance: checked on the real cache fields (saved at push time, compared after pop) and through
  ``inspect_value``.

Scope: only well-nested histories (no pop without push, no exit without enter); blocks still open
at the end of a history are closed normally (and checked).  Instance 2 is only used after
instance 1 (the instances are created identically, so this is a pure symmetry reduction).
"""
import logging
import os
import warnings
from concurrent.futures import ProcessPoolExecutor

from bounded._api import Bounded, REPLAY_HEADER

PROP = "C19"
NWORKERS = min(16, os.cpu_count() or 1)
TIMES = (-2, -1, 0, 1, 2, 5)
GENS = ("a", "b", "c")

# generator configurations: per parameter (parameter type, generator class, name, seed, time_dependent)
CFGS = {
    0: {"a": ("Number", "UniformRandom", "ga", 1, True),
        "b": ("Dynamic", "NormalRandom", "gb", 7, True),
        "c": ("Dynamic", "UniformRandom", "gc", 3, False)},
    1: {"a": ("Dynamic", "UniformRandom", "ga", 7, True),
        "b": ("Number", "NormalRandom", "gb", 1, True),
        "c": ("Number", "UniformRandomInt", "gc", 5, False)},
}


class Boom(Exception):
    """raised by the body of a ``with time_fn`` block (operation XR)."""


class Stop(Exception):
    """internal: a violation was recorded, abandon the case."""


# ---------------------------------------------------------------------------------------
# operations
# ---------------------------------------------------------------------------------------
def alphabet(reduced=False):
    if reduced:
        ops = [("J", t) for t in (-1, 0, 1)]
        ops += [("R", 1, "a"), ("R", 1, "c"), ("R", 2, "a")]
        ops += [("I", 1), ("E",), ("X",), ("XR",), ("P", 1), ("Q", 1)]
        return ops
    ops = [("J", t) for t in TIMES]
    ops += [("R", i, g) for i in (1, 2) for g in GENS]
    ops += [("I", 1), ("I", 2), ("E",), ("X",), ("XR",)]
    ops += [("P", 1), ("P", 2), ("Q", 1), ("Q", 2)]
    return ops


def op_text(op):
    k = op[0]
    if k == "J":
        return "J(%d)" % op[1]
    if k == "R":
        return "R(%d,%s)" % (op[1], op[2])
    if k in ("I", "P", "Q"):
        return "%s(%d)" % (k, op[1])
    return k


def enum_histories(length, ops, first=None):
    """well-nested, symmetry-reduced histories of exactly ``length`` operations."""
    def rec(acc, depth, pushes, used1, prevJ):
        if len(acc) == length:
            yield tuple(acc)
            return
        cand = ops
        if first is not None and len(acc) < len(first):
            f = first[len(acc)]
            cand = ops[f:f + 1]
        last = len(acc) == length - 1
        for op in cand:
            k = op[0]
            if k == "J":
                if prevJ or (last and depth == 0):
                    continue            # a jump nobody can observe
                acc.append(op)
                yield from rec(acc, depth, pushes, used1, True)
                acc.pop()
                continue
            if k in ("X", "XR"):
                if depth == 0:
                    continue
                acc.append(op)
                yield from rec(acc, depth - 1, pushes, used1, False)
                acc.pop()
                continue
            if k == "E":
                acc.append(op)
                yield from rec(acc, depth + 1, pushes, used1, False)
                acc.pop()
                continue
            i = op[1]
            if i == 2 and not used1:
                continue
            if k == "Q":
                if pushes[i - 1] == 0:
                    continue
                p2 = list(pushes)
                p2[i - 1] -= 1
            elif k == "P":
                p2 = list(pushes)
                p2[i - 1] += 1
            else:
                p2 = pushes
            acc.append(op)
            yield from rec(acc, depth, p2, True, False)
            acc.pop()
    yield from rec([], 0, [0, 0], False, False)


def worth_running(hist):
    """drop histories that cannot observe anything: I/P/Q on an instance that is never read, and
    histories with neither a read nor a time block."""
    read = {op[1] for op in hist if op[0] == "R"}
    for op in hist:
        if op[0] in ("I", "P", "Q") and op[1] not in read:
            return False
    return bool(read) or any(op[0] == "E" for op in hist)


# ---------------------------------------------------------------------------------------
# driving the real code
# ---------------------------------------------------------------------------------------
def _quiet():
    import param
    warnings.simplefilter("ignore")
    param.parameterized.get_logger().setLevel(logging.CRITICAL + 1)


def make_gen(spec):
    import numbergen
    ptype, gcls, name, seed, td = spec
    if td:
        return getattr(numbergen, gcls)(name=name, seed=seed, time_dependent=True)
    return getattr(numbergen, gcls)(name=name, seed=seed)


_CLASSES = {}


def plain_class(cfgid):
    """class whose parameters hold plain numbers; generators are assigned per instance."""
    import param
    if cfgid not in _CLASSES:
        spec = CFGS[cfgid]
        ns = {g: getattr(param, spec[g][0])(default=0.5) for g in GENS}
        _CLASSES[cfgid] = type("G", (param.Parameterized,), ns)
    return _CLASSES[cfgid]


def default_class(cfgid, needed):
    """fresh class whose parameters in ``needed`` have the generator as class default (every
    instance then owns a deep copy)."""
    import param
    spec = CFGS[cfgid]
    ns = {}
    for g in GENS:
        if g in needed:
            ns[g] = getattr(param, spec[g][0])(default=make_gen(spec[g]))
        else:
            ns[g] = getattr(param, spec[g][0])(default=0.5)
    return type("G", (param.Parameterized,), ns)


def reference_table():
    """G(gen, t) for the time-dependent generators of every configuration: fresh object, read at
    0, jump to t, read."""
    import param
    tm = param.Dynamic.time_fn
    ref, errors = {}, []
    for cfgid, spec in CFGS.items():
        for g in ("a", "b"):
            for t in TIMES:
                try:
                    tm(0)
                    x = plain_class(cfgid)()
                    setattr(x, g, make_gen(spec[g]))
                    v0 = getattr(x, g)
                    tm(t)
                    ref[(cfgid, g, t)] = getattr(x, g) if t != 0 else v0
                except Exception as e:                 # noqa
                    ref[(cfgid, g, t)] = NOREF
                    errors.append((cfgid, g, t, "%s: %s" % (type(e).__name__, e)))
    tm(0)
    return ref, errors


NOREF = "<no reference value>"


class Case:
    def __init__(self, cfgid, install, hist, ref):
        import param
        self.param = param
        self.tm = param.Dynamic.time_fn
        self.cfgid, self.install, self.hist, self.ref = cfgid, install, hist, ref
        self.spec = CFGS[cfgid]
        self.findings = []        # (opindex, clause, key-tuple, witness-fields, detail, check)
        self.counts = {}

    def ck(self, clause, n=1):
        self.counts[clause] = self.counts.get(clause, 0) + n

    def fail(self, idx, clause, key, fields, detail, check):
        self.findings.append((idx, clause, key, fields, detail, check))
        raise Stop()

    def setup(self):
        self.tm(0)
        installed = {}
        for op in self.hist:
            if op[0] == "R":
                installed.setdefault(op[1], set()).add(op[2])
        self.installed = {i: [g for g in GENS if g in gs] for i, gs in installed.items()}
        used = sorted({op[1] for op in self.hist if op[0] in ("R", "I", "P", "Q")})
        self.inst = {}
        if self.install == "assign":
            cls = plain_class(self.cfgid)
            for i in used:
                self.inst[i] = cls()
                for g in self.installed.get(i, ()):
                    setattr(self.inst[i], g, make_gen(self.spec[g]))
        else:
            # class defaults: both instances own deep copies of the same generators
            needed = set()
            for gs in self.installed.values():
                needed.update(gs)
            cls = default_class(self.cfgid, needed)
            for i in used:
                self.inst[i] = cls()
            self.installed = {i: [g for g in GENS if g in needed] for i in used}
        self.cache = {(i, g): None for i in self.inst for g in self.installed.get(i, ())}
        self.mstack = {i: [] for i in self.inst}     # model push stacks
        self.rstack = {i: [] for i in self.inst}     # real cache fields saved at push time
        self.mtime = 0

    # -- single operations --------------------------------------------------------------
    def read(self, idx, i, g):
        t = self.mtime
        td = self.spec[g][4]
        first = self.cache[(i, g)] is None
        fields = "gen=%s:%s ptype=%s t=%d first_read=%d" % (g, self.spec[g][1], self.spec[g][0], t, int(first))
        clause = ("C19/Dynamic._produce_value/value==G(gen,t)" if td
                  else "C19/Dynamic._produce_value/same-time-same-value")
        self.ck(clause)
        try:
            v = getattr(self.inst[i], g)
        except Exception as e:                         # noqa
            self.fail(idx, clause, (g, t, first, "raise:" + type(e).__name__),
                      fields + " got=raise:" + type(e).__name__,
                      "reading %s of instance %d at time %d raised %s: %s" % (g, i, t, type(e).__name__, e),
                      ("read-raises", i, g))
        if td:
            exp = self.ref[(self.cfgid, g, t)]
            if exp is not NOREF and not _same(v, exp):
                self.fail(idx, clause, (g, t, first, _cls(v)), fields + " got=" + _cls(v),
                          "instance %d: %s read at time %d is %r, the generator's value at that time is %r"
                          % (i, g, t, v, exp), ("read-value", i, g, t))
        else:
            c = self.cache[(i, g)]
            if c is not None and c[1] == t and not _same(v, c[0]):
                self.fail(idx, clause, (g, t, first, _cls(v)), fields + " got=" + _cls(v),
                          "instance %d: %s read again at time %d is %r, it was %r" % (i, g, t, v, c[0]),
                          ("read-same", i, g))
        self.cache[(i, g)] = (v, t)

    def inspect(self, idx, i):
        for g in self.installed.get(i, ()):
            c = self.cache[(i, g)]
            clause = "C19/Dynamic._inspect/never-advances"
            self.ck(clause)
            try:
                v = self.inst[i].param.inspect_value(g)
            except Exception as e:                     # noqa
                self.fail(idx, clause, (g, "raise"), "gen=%s:%s got=raise:%s" % (g, self.spec[g][1], type(e).__name__),
                          "inspect_value(%r) raised %s: %s" % (g, type(e).__name__, e), ("inspect-raises", i, g))
            if c is not None and not _same(v, c[0]):
                moved = self.mtime != c[1]
                self.fail(idx, clause, (g, moved, _cls(v)),
                          "gen=%s:%s time_moved=%d got=%s" % (g, self.spec[g][1], int(moved), _cls(v)),
                          "instance %d: inspect_value(%r) at time %d returned %r; the value last produced (at time %d) is %r"
                          % (i, g, self.mtime, v, c[1], c[0]), ("inspect-value", i, g))

    def real_cache(self, i):
        out = []
        for g in self.installed.get(i, ()):
            gen = self.inst[i].param.get_value_generator(g)
            out.append((g, getattr(gen, "_Dynamic_last", "<none>"), getattr(gen, "_Dynamic_time", "<none>")))
        return out

    def push(self, idx, i):
        self.ck("C19/Parameters._state_push/raises")
        self.rstack[i].append(self.real_cache(i))
        self.mstack[i].append({g: self.cache[(i, g)] for g in self.installed.get(i, ())})
        try:
            self.inst[i].param._state_push()
        except Exception as e:                         # noqa
            self.fail(idx, "C19/Parameters._state_push/raises", ("raise",), "got=raise:" + type(e).__name__,
                      "_state_push raised %s: %s" % (type(e).__name__, e), ("push-raises", i))

    def pop(self, idx, i):
        clause = "C19/Parameters._state_pop/restores-cache"
        self.ck(clause)
        saved = self.rstack[i].pop()
        msaved = self.mstack[i].pop()
        try:
            self.inst[i].param._state_pop()
        except Exception as e:                         # noqa
            self.fail(idx, clause, ("raise",), "got=raise:" + type(e).__name__,
                      "_state_pop raised %s: %s" % (type(e).__name__, e), ("pop-raises", i))
        now = self.real_cache(i)
        for (g, l0, t0), (_, l1, t1) in zip(saved, now):
            if not (_same(l0, l1) and _same(t0, t1)):
                what = ("value" if not _same(l0, l1) else "") + ("time" if not _same(t0, t1) else "")
                self.fail(idx, clause, (g, what), "gen=%s:%s lost=%s" % (g, self.spec[g][1], what),
                          "instance %d: after _state_pop the cache of %s is (value %r, time %r); at the matching "
                          "_state_push it was (value %r, time %r)" % (i, g, l1, t1, l0, t0), ("pop-cache", i, g))
        for g, c in msaved.items():
            self.cache[(i, g)] = c

    # -- the interpreter: real nested ``with`` statements --------------------------------
    def block(self, k, depth):
        """run operations from index k until the block at ``depth`` is closed; returns
        (next index, leave_by_raising)."""
        hist, tm = self.hist, self.tm
        n = len(hist)
        while k < n:
            op = hist[k]
            kind = op[0]
            if kind == "J":
                tm(op[1])
                self.mtime = op[1]
            elif kind == "R":
                self.read(k, op[1], op[2])
            elif kind == "I":
                self.inspect(k, op[1])
            elif kind == "P":
                self.push(k, op[1])
            elif kind == "Q":
                self.pop(k, op[1])
            elif kind == "E":
                before = tm()
                mbefore = self.mtime
                nxt = [n]
                try:
                    with tm:
                        nxt[0], by_raise = self.block(k + 1, depth + 1)
                        if by_raise:
                            raise Boom()
                except Boom:
                    pass
                clause = "C19/Time.__exit__/restores-time"
                self.ck(clause)
                after = tm()
                how = "raise" if (nxt[0] - 1 < n and hist[nxt[0] - 1][0] == "XR") else "normal"
                if not (after == before and type(after) is type(before)):
                    self.fail(min(nxt[0] - 1, n - 1), clause, (depth, how),
                              "depth=%d exit=%s" % (depth + 1, how),
                              "time was %r when the block (nesting level %d) was entered and is %r after leaving it (%s exit)"
                              % (before, depth + 1, after, how), ("ctx", k))
                self.mtime = mbefore
                k = nxt[0]
                continue
            elif kind in ("X", "XR"):
                return k + 1, kind == "XR"
            k += 1
        return n + 1, False        # history ended with the block still open: closed normally

    def run(self):
        try:
            self.setup()
            try:
                self.block(0, 0)
            except Stop:
                pass
        finally:
            # leave the global time function clean
            tm = self.tm
            del tm._pushed_state[:]
            tm.in_context = False
            tm(0)
        return self.findings, self.counts


def _same(a, b):
    if a is b:
        return True
    try:
        return type(a) is type(b) and a == b
    except Exception:                                  # noqa
        return False


def _cls(v):
    return "None" if v is None else "other-value"


# ---------------------------------------------------------------------------------------
# replay scripts: straight-line code with real ``with`` blocks
# ---------------------------------------------------------------------------------------
def make_replay(cfgid, install, hist, check, clause, witness):
    spec = CFGS[cfgid]
    hdr = REPLAY_HEADER.format(prop=PROP, name="replay_c19.py", clause=clause, witness=witness)
    src = hdr + "import logging, warnings\nimport param, numbergen\nwarnings.simplefilter('ignore')\n"
    src += "param.parameterized.get_logger().setLevel(logging.CRITICAL + 1)\n"
    src += "param.Dynamic.time_dependent = True\ntm = param.Dynamic.time_fn\ntm(0)\n"
    src += "class Boom(Exception): pass\n"

    def gen_src(g):
        ptype, gcls, name, seed, td = spec[g]
        return "numbergen.%s(name=%r, seed=%d%s)" % (gcls, name, seed, ", time_dependent=True" if td else "")

    installed = {}
    for op in hist:
        if op[0] == "R":
            installed.setdefault(op[1], set()).add(op[2])
    used = sorted({op[1] for op in hist if op[0] in ("R", "I", "P", "Q")})
    src += "class Plain(param.Parameterized):\n"
    for g in GENS:
        src += "    %s = param.%s(default=0.5)\n" % (g, spec[g][0])
    src += ("def G(g, make, t):\n"
            "    '''value of a generator (class, name, seed) at time t: separate fresh object, read at 0, jump, read'''\n"
            "    now = tm()\n    tm(0)\n    x = Plain(); setattr(x, g, make()); v = getattr(x, g)\n"
            "    if t != 0:\n        tm(t); v = getattr(x, g)\n    tm(now)\n    return v\n")
    if install == "assign":
        for i in used:
            src += "g%d = Plain()\n" % i
            for g in GENS:
                if g in installed.get(i, ()):
                    src += "g%d.%s = %s\n" % (i, g, gen_src(g))
        inst_gens = {i: [g for g in GENS if g in installed.get(i, ())] for i in used}
    else:
        needed = set()
        for gs in installed.values():
            needed.update(gs)
        src += "class WithDefaults(param.Parameterized):\n"
        for g in GENS:
            src += "    %s = param.%s(default=%s)\n" % (g, spec[g][0], gen_src(g) if g in needed else "0.5")
        for i in used:
            src += "g%d = WithDefaults()\n" % i
        inst_gens = {i: [g for g in GENS if g in needed] for i in used}
    src += "def cache(obj, names):\n    return [(getattr(obj.param.get_value_generator(n), '_Dynamic_last', None), getattr(obj.param.get_value_generator(n), '_Dynamic_time', None)) for n in names]\n"
    src += "last = {}\nsaved = {1: [], 2: []}\nbefore = {}\n"
    src += "def same(a, b):\n    return a is b or (type(a) is type(b) and a == b)\n"
    src += "def reproduced(msg):\n    print('REPRODUCED: ' + msg); sys.exit(1)\n"
    src += "# ---- history: %s\n" % ";".join(op_text(o) for o in hist)
    body = []
    ind = [0]

    def emit(line):
        body.append("    " * ind[0] + line)

    ctx = []           # stack of E indices
    mtime = 0
    mstack = []

    def close(eidx, by_raise):
        if by_raise:
            emit("raise Boom()")
        else:
            emit("pass")
        ind[0] -= 2
        emit("except Boom:")
        emit("    pass")
        if check[0] == "ctx" and check[1] == eidx:
            emit("if not same(tm(), before[%d]):" % eidx)
            emit("    reproduced('time was %%r when the with-block was entered and is %%r after leaving it' %% (before[%d], tm()))" % eidx)

    for k, op in enumerate(hist):
        kind = op[0]
        if kind == "J":
            emit("tm(%d)" % op[1])
            mtime = op[1]
        elif kind == "R":
            i, g = op[1], op[2]
            emit("try:")
            emit("    v = g%d.%s" % (i, g))
            emit("except Exception as e:")
            emit("    reproduced('reading %s of instance %d at time %%r raised %%s: %%s' %% (tm(), type(e).__name__, e))" % (g, i))
            if spec[g][4]:
                emit("exp = G(%r, lambda: %s, tm())" % (g, gen_src(g)))
                emit("if not same(v, exp):")
                emit("    reproduced('instance %d: %s read at time %%r is %%r; the value of this generator at that time is %%r' %% (tm(), v, exp))" % (i, g))
            else:
                emit("if (%d, %r) in last and last[(%d, %r)][1] == tm() and not same(v, last[(%d, %r)][0]):" % (i, g, i, g, i, g))
                emit("    reproduced('instance %d: %s read again at time %%r is %%r, it was %%r' %% (tm(), v, last[(%d, %r)][0]))" % (i, g, i, g))
            emit("last[(%d, %r)] = (v, tm())" % (i, g))
        elif kind == "I":
            i = op[1]
            for g in inst_gens.get(i, ()):
                emit("v = g%d.param.inspect_value(%r)" % (i, g))
                emit("if (%d, %r) in last and not same(v, last[(%d, %r)][0]):" % (i, g, i, g))
                emit("    reproduced('instance %d: inspect_value of %s at time %%r returned %%r; the value last produced is %%r' %% (tm(), v, last[(%d, %r)][0]))" % (i, g, i, g))
        elif kind == "P":
            i = op[1]
            emit("saved[%d].append((cache(g%d, %r), {k: v for k, v in last.items() if k[0] == %d}))" % (i, i, inst_gens.get(i, []), i))
            emit("g%d.param._state_push()" % i)
        elif kind == "Q":
            i = op[1]
            emit("g%d.param._state_pop()" % i)
            emit("c0, l0 = saved[%d].pop()" % i)
            emit("if not all(same(x[0], y[0]) and same(x[1], y[1]) for x, y in zip(c0, cache(g%d, %r))):" % (i, inst_gens.get(i, [])))
            emit("    reproduced('instance %d: cached (value, time) at _state_push %%r, after _state_pop %%r' %% (c0, cache(g%d, %r)))" % (i, i, inst_gens.get(i, [])))
            emit("last = {k: v for k, v in last.items() if k[0] != %d}; last.update(l0)" % i)
        elif kind == "E":
            emit("before[%d] = tm()" % k)
            emit("try:")
            emit("    with tm:")
            ind[0] += 2
            ctx.append(k)
        elif kind in ("X", "XR"):
            close(ctx.pop(), kind == "XR")
    while ctx:
        close(ctx.pop(), False)
    src += "try:\n" + "".join("    " + ln + "\n" for ln in body)
    src += "except Exception as e:\n    reproduced('raised %s: %s' % (type(e).__name__, e))\n"
    src += "print('NOT-REPRODUCED'); sys.exit(0)\n"
    return src


# ---------------------------------------------------------------------------------------
# plan / workers
# ---------------------------------------------------------------------------------------
def plan(tier):
    """list of (cfgid, install, length, reduced-alphabet)."""
    if tier == "quick":
        p = [(0, "assign", L, False) for L in (1, 2, 3, 4)]
        p += [(1, "assign", L, False) for L in (1, 2, 3, 4)]
        p += [(0, "default", L, False) for L in (1, 2, 3)]
        p += [(0, "assign", 5, True)]
        return p
    p = [(0, "assign", L, False) for L in (1, 2, 3, 4, 5)]
    p += [(1, "assign", L, False) for L in (1, 2, 3, 4, 5)]
    p += [(0, "default", L, False) for L in (1, 2, 3, 4)]
    p += [(1, "default", L, False) for L in (1, 2, 3)]
    p += [(0, "assign", 6, True)]
    return p


def describe_plan(pl):
    def mx(c, ins, red):
        ls = [L for (cc, ii, L, rr) in pl if cc == c and ii == ins and rr == red]
        return max(ls) if ls else 0
    txt = ("all well-nested histories over the full 21-operation alphabet of length <= %d for configuration 0 "
           "(a=Number/UniformRandom seed 1, b=Dynamic/NormalRandom seed 7, c=Dynamic/stateful UniformRandom seed 3) and "
           "<= %d for configuration 1 (a=Dynamic/UniformRandom seed 7, b=Number/NormalRandom seed 1, "
           "c=Number/stateful UniformRandomInt seed 5), generators constructed per instance; length <= %d / <= %d with "
           "the generators installed as class defaults (deep-copied into each instance); all histories of length "
           "exactly %d over the reduced 12-operation alphabet {J(-1),J(0),J(1),R(1,a),R(1,c),R(2,a),I(1),E,X,XR,P(1),"
           "Q(1)} for configuration(s) %s; times {-2,-1,0,1,2,5}, 2 instances, nesting depth unbounded within the length"
           % (mx(0, "assign", False), mx(1, "assign", False), mx(0, "default", False), mx(1, "default", False),
              max([L for (_, _, L, rr) in pl if rr] or [0]), sorted({c for (c, _, _, rr) in pl if rr})))
    return txt


_REF = None


def _worker(task):
    cfgid, install, length, reduced, first = task
    import param
    _quiet()
    param.Dynamic.time_dependent = True
    ops = alphabet(reduced)
    ncases = ntrivial = 0
    counts, cands, samples = {}, {}, []
    try:
        for hist in enum_histories(length, ops, first):
            if not worth_running(hist):
                ntrivial += 1
                continue
            ncases += 1
            findings, c = Case(cfgid, install, hist, _REF).run()
            for k, v in c.items():
                counts[k] = counts.get(k, 0) + v
            if not samples and ncases == 50:
                samples.append({"cfg": cfgid, "install": install, "history": [op_text(o) for o in hist],
                                "findings": len(findings)})
            for idx, clause, key, fields, detail, check in findings:
                h = hist[:idx + 1]
                ckey = (clause,) + tuple(key)
                rank = (len(h), cfgid, 0 if install == "assign" else 1, int(reduced), first, ncases)
                if ckey not in cands or rank < cands[ckey][0]:
                    cands[ckey] = (rank, cfgid, install, h, fields, detail, check)
    finally:
        param.Dynamic.time_dependent = False
    return ncases, ntrivial, counts, cands, samples


def run(tier, seed):
    import param
    global _REF
    pl = plan(tier)
    B = Bounded(
        PROP,
        rule=("one case = one well-nested history over {J(t) t in -2,-1,0,1,2,5; R(i,g) i in 1,2 g in a,b,c; I(i); "
              "E; X; XR; P(i); Q(i)} run on fresh instances with freshly constructed numbergen generators "
              "(a,b time-dependent with name+seed, c stateful); histories that cannot observe anything (dead jumps, "
              "I/P/Q on a never-read instance, no read and no block) and instance-symmetric duplicates are not run. "
              "Every read is compared with the table G(generator, time) taken from a separate fresh object; inspect "
              "against the value last produced; time after every with-block against the time at entry; cache fields "
              "after pop against those at push.  distinct = distinct (configuration, install mode, history)."),
        bound=describe_plan(pl))
    _quiet()
    saved_td = param.Dynamic.time_dependent
    tm = param.Dynamic.time_fn
    saved_time = tm()
    try:
        param.Dynamic.time_dependent = True
        _REF, ref_errors = reference_table()
        for cfgid, g, t, err in ref_errors[:1]:
            clause = "C19/Dynamic._produce_value/value==G(gen,t)"
            witness = "gen=%s:%s ptype=%s t=%d first_read=0 got=raise reference-history cfg=%d install=assign hist=R(1,%s);J(%d);R(1,%s)" % (
                g, CFGS[cfgid][g][1], CFGS[cfgid][g][0], t, cfgid, g, t, g)
            hist = (("R", 1, g), ("J", t), ("R", 1, g))
            B.violation(clause=clause, witness=witness, detail="the plainest history raised " + err,
                        replay=make_replay(cfgid, "assign", hist, ("read-raises", 1, g), clause, witness))
        tasks = []
        for cfgid, install, length, reduced in pl:
            na = len(alphabet(reduced))
            if length >= 4:
                firsts = [(f1, f2) for f1 in range(na) for f2 in range(na)]
            elif length >= 2:
                firsts = [(f1,) for f1 in range(na)]
            else:
                firsts = [()]
            for f in firsts:
                tasks.append((cfgid, install, length, reduced, f))
        tasks.sort(key=lambda t: (-t[2] + (2 if t[3] else 0), t[0], t[1], t[4]))
        cands = {}
        ndistinct = 0
        with ProcessPoolExecutor(NWORKERS) as ex:
            for task, (ncases, ntrivial, counts, cnd, samples) in zip(tasks, ex.map(_worker, tasks, chunksize=1)):
                B.evaluations += ncases
                ndistinct += ncases
                for k, v in counts.items():
                    B.checked(k, v)
                for s in samples:
                    B.sample(s)
                for key, val in cnd.items():
                    if key not in cands or val[0] < cands[key][0]:
                        cands[key] = val
        B._distinct = set(range(ndistinct))
        for key in sorted(cands, key=repr):
            rank, cfgid, install, h, fields, detail, check = cands[key]
            clause = key[0]
            witness = "%s cfg=%d install=%s hist=%s" % (fields, cfgid, install, ";".join(op_text(o) for o in h))
            B.violation(clause=clause, witness=witness, detail=detail,
                        replay=make_replay(cfgid, install, h, check, clause, witness))
    finally:
        param.Dynamic.time_dependent = saved_td
        tm(saved_time)
    B.note("reference table G(gen,t): %d entries; the global param.Dynamic.time_fn is used (reset to 0, no pushed "
           "state) and Dynamic.time_dependent restored after the run" % len(_REF))
    return B.result()
