"""Bounded stand-in layer for C19 -- time-dependent dynamic values are a pure function of time.

What is driven
--------------
Real ``param.Number`` / ``param.Dynamic`` parameters holding real ``numbergen`` generators, the
real global ``param.Dynamic.time_fn`` (a ``param.Time``) and ``Parameters._state_push/_state_pop/
inspect_value`` through **every** history of the operation alphabet

    J(t)    jump the time to t in {-2,-1,0,1,2,5}          (forward, backward, repeated)
    R(i,g)  read parameter g in {a,b,c} of instance i in {1,2}
    I(i)    inspect_value of every generated parameter of instance i
    E / X / XR   enter a (nested) ``with time_fn:`` block / leave it normally / leave it by raising
    P(i) / Q(i)  _state_push / _state_pop on instance i

up to the bound.  ``a`` and ``b`` hold two *time-dependent* numbergen generators with a given
name and seed, ``c`` holds a *stateful* (not time-dependent) numbergen generator, so that the
caching by time is itself observable.

Oracle (from the statement)
---------------------------
* G(gen, t): the value of a time-dependent generator (class, name, seed) at time t is a function
  of t only.  The reference table is obtained from the plainest possible history on a separate
  fresh object (read at 0, jump to t, read) and every read in every history, on every instance,
  in whatever order the times were visited, must return exactly that value.
* reading again at the same time returns the same value (checked for the stateful generator too,
  whose values are otherwise unconstrained);
* ``inspect_value`` returns the value last produced (it is not checked before the first read,
  where nothing has been produced yet) and never advances anything: later reads still agree;
* after leaving a ``with time_fn`` block -- normally or by an exception -- the time equals, in
  value and type, the time when the block was entered (LIFO for nested blocks);
* ``_state_pop`` after ``_state_push`` restores the cached value/time of every generator of the
  instance: checked on the real cache fields (saved at push time, compared after pop) and through
  ``inspect_value``.

Extension families (reduced alphabets, see ``alphabet``)
* fault: configuration 2 holds generators that can be told to fail; F(i,g) is a read during which
  the generator raises.  Nothing was produced, so the cache model is unchanged and the next read at
  that time (generator working again) must return G(gen,t) -- what a fresh instance returns.
* generators beyond the random ones: TimeSampledFn with a non-zero offset (it enters a time context
  of its own while producing), SquareWave, ScaledTime; configuration 4 runs with the exact
  non-integer time type ``fractions.Fraction`` (times -2/3, 0, 1/3, 1, 5/2).
* after every read, failing read and inspect the shared time must be unchanged in value and type.

* nested generators (bounded/c19_nest.py, core in bounded/c19_nest_core.py): a time-dependent random generator
  whose own numeric parameters are time-dependent random generators (generated trees of depth 1 and 2 over
  UniformRandom / NormalRandom / UniformRandomOffset) x histories of jumps, reads of the parameter, direct calls of
  the generator, reads and direct calls of the operands, inspects, on two instances (fresh tree per instance or
  the tree as class default); every value is compared with G(node, t) of a separate fresh subtree and with a
  plain-Python model of the distribution formula over the operands' values and the node's own draw at t.

* huge times and switching orders (bounded/c19_time.py, core in bounded/c19_time_core.py): family HT -- time grids
  base + k*step in int / float / Fraction / Decimal with |base| up to 1e18 and relative steps down to 1e-15 x visit
  orders x generator kinds (random, ScaledTime, plain function); family SO -- every admissible order of {Dynamic
  switch, construction, generator time dependence switched by keyword / TimeAware class level / own class level /
  instance, time function by keyword / class level / instance} x draws before the switch x walks.

Scope: only well-nested histories (no pop without push, no exit without enter); blocks still open
at the end of a history are closed normally (and checked).  Instance 2 is only used after
instance 1 (the instances are created identically, so this is a pure symmetry reduction).
"""
import logging
import os
import warnings
from concurrent.futures import ProcessPoolExecutor
from fractions import Fraction

from bounded._api import Bounded, REPLAY_HEADER

PROP = "C19"
NWORKERS = min(16, os.cpu_count() or 1)
TIMES = (-2, -1, 0, 1, 2, 5)
GENS = ("a", "b", "c")

# generator configurations: per parameter (parameter type, generator class, name, seed, time_dependent)
CFGS = {
    0: {"a": ("Number", "UniformRandom", "ga", 1, True),
        "b": ("Dynamic", "NormalRandom", "gb", 7, True),
        "c": ("Dynamic", "UniformRandom", "gc", 3, False)},
    1: {"a": ("Dynamic", "UniformRandom", "ga", 7, True),
        "b": ("Number", "NormalRandom", "gb", 1, True),
        "c": ("Number", "UniformRandomInt", "gc", 5, False)},
}


# --- extension: generators beyond the random ones, fault injection, exact non-integer times ----
# A generator class name that is a key of GEN_SRC is built from that source text (evaluated with
# GEN_PRELUDE in scope; the same text goes into the replay scripts).
GEN_PRELUDE = '''
import numbergen
from fractions import Fraction
class GenFault(Exception):
    "raised by a generator that was told to fail"
class FaultyUniformRandom(numbergen.UniformRandom):
    "UniformRandom whose production can be made to fail (plain attribute ``fail``)"
    fail = False
    def __call__(self):
        if self.fail:
            raise GenFault('generator failed while producing a value')
        return super().__call__()
class FaultyScaledTime(numbergen.ScaledTime):
    "ScaledTime (value = factor * time) whose production can be made to fail"
    fail = False
    def __call__(self):
        if self.fail:
            raise GenFault('generator failed while producing a value')
        return super().__call__()
'''
GEN_SRC = {
    "FaultyUniformRandom": "FaultyUniformRandom(name=%(name)r, seed=%(seed)d, time_dependent=True)",
    "FaultyScaledTime": "FaultyScaledTime(factor=2.5)",
    "TimeSampledFn": ("numbergen.TimeSampledFn(period=2.0, offset=0.5, fn=numbergen.UniformRandom("
                      "name=%(name)r, seed=%(seed)d, time_dependent=True))"),
    "TimeSampledFnExact": ("numbergen.TimeSampledFn(period=Fraction(3, 2), offset=Fraction(1, 2), "
                           "fn=numbergen.NormalRandom(name=%(name)r, seed=%(seed)d, time_dependent=True))"),
    "SquareWave": "numbergen.SquareWave(onset=0.5, duration=1.0, off_duration=2.0)",
}
FAULTY = ("FaultyUniformRandom", "FaultyScaledTime")
_GEN_NS = {}


def gen_ns():
    if not _GEN_NS:
        exec(compile(GEN_PRELUDE, "<c19 generators>", "exec"), _GEN_NS)
    return _GEN_NS


CFGS.update({
    # fault family: both time-dependent generators can be made to fail
    2: {"a": ("Number", "FaultyUniformRandom", "ga", 1, True),
        "b": ("Dynamic", "FaultyScaledTime", "gb", 0, True),
        "c": ("Dynamic", "UniformRandom", "gc", 3, False)},
    # sampled generators with a non-zero offset (they enter a time context of their own while producing)
    3: {"a": ("Dynamic", "TimeSampledFn", "ga", 1, True),
        "b": ("Number", "SquareWave", "gb", 0, True),
        "c": ("Number", "UniformRandomInt", "gc", 5, False)},
    # exact non-integer time type
    4: {"a": ("Number", "UniformRandom", "ga", 1, True),
        "b": ("Dynamic", "TimeSampledFnExact", "gb", 7, True),
        "c": ("Dynamic", "UniformRandom", "gc", 3, False)},
})
FTIMES = (Fraction(-2, 3), Fraction(0), Fraction(1, 3), Fraction(1), Fraction(5, 2))
TIME_MODE = {0: "int", 1: "int", 2: "int", 3: "int", 4: "frac"}


def cfg_times(cfgid):
    return FTIMES if TIME_MODE[cfgid] == "frac" else TIMES


def set_time_mode(tm, mode):
    """reset the global time function to 0 of the mode's time type."""
    if mode == "frac":
        tm(Fraction(0), time_type=Fraction)
    elif tm.time_type is not int:
        tm(0, time_type=int)
    else:
        tm(0)


def tsrc(t):
    """source text of a time value."""
    return "Fraction(%d, %d)" % (t.numerator, t.denominator) if isinstance(t, Fraction) else "%d" % t


class Boom(Exception):
    """raised by the body of a ``with time_fn`` block (operation XR)."""


class Stop(Exception):
    """internal: a violation was recorded, abandon the case."""


# ---------------------------------------------------------------------------------------
# operations
# ---------------------------------------------------------------------------------------
def alphabet(reduced=False, cfgid=0):
    times = cfg_times(cfgid)
    if reduced == "fault":
        # quick slice of the fault family
        ops = [("J", t) for t in (0, 1, 2)]
        ops += [("R", 1, "a"), ("R", 2, "a"), ("F", 1, "a"), ("F", 2, "a")]
        ops += [("I", 1), ("E",), ("X",), ("P", 1), ("Q", 1)]
        return ops
    if reduced == "fault+":
        ops = [("J", t) for t in (-1, 0, 1, 2)]
        ops += [("R", 1, "a"), ("R", 1, "b"), ("R", 2, "a"), ("F", 1, "a"), ("F", 1, "b"), ("F", 2, "a")]
        ops += [("I", 1), ("E",), ("X",), ("XR",), ("P", 1), ("Q", 1)]
        return ops
    if reduced == "tiny":
        ops = [("J", t) for t in ((Fraction(1, 3), Fraction(5, 2)) if TIME_MODE[cfgid] == "frac" else (1, 2))]
        ops += [("R", 1, "a"), ("R", 1, "b"), ("I", 1), ("E",), ("X",), ("XR",)]
        return ops
    if reduced == "small":
        ops = [("J", t) for t in times[1:4]]
        ops += [("R", 1, "a"), ("R", 1, "b"), ("R", 2, "a"), ("R", 2, "b")]
        ops += [("I", 1), ("E",), ("X",), ("XR",), ("P", 1), ("Q", 1)]
        return ops
    if reduced == "small+":
        ops = [("J", t) for t in times]
        ops += [("R", i, g) for i in (1, 2) for g in GENS]
        ops += [("I", 1), ("E",), ("X",), ("XR",), ("P", 1), ("Q", 1)]
        return ops
    if reduced:
        ops = [("J", t) for t in (-1, 0, 1)]
        ops += [("R", 1, "a"), ("R", 1, "c"), ("R", 2, "a")]
        ops += [("I", 1), ("E",), ("X",), ("XR",), ("P", 1), ("Q", 1)]
        return ops
    ops = [("J", t) for t in TIMES]
    ops += [("R", i, g) for i in (1, 2) for g in GENS]
    ops += [("I", 1), ("I", 2), ("E",), ("X",), ("XR",)]
    ops += [("P", 1), ("P", 2), ("Q", 1), ("Q", 2)]
    return ops


def op_text(op):
    k = op[0]
    if k == "J":
        return "J(%s)" % (op[1],)
    if k in ("R", "F"):
        return "%s(%d,%s)" % (k, op[1], op[2])
    if k in ("I", "P", "Q"):
        return "%s(%d)" % (k, op[1])
    return k


def enum_histories(length, ops, first=None):
    """well-nested, symmetry-reduced histories of exactly ``length`` operations."""
    def rec(acc, depth, pushes, used1, prevJ):
        if len(acc) == length:
            yield tuple(acc)
            return
        cand = ops
        if first is not None and len(acc) < len(first):
            f = first[len(acc)]
            cand = ops[f:f + 1]
        last = len(acc) == length - 1
        for op in cand:
            k = op[0]
            if k == "J":
                if prevJ or (last and depth == 0):
                    continue            # a jump nobody can observe
                acc.append(op)
                yield from rec(acc, depth, pushes, used1, True)
                acc.pop()
                continue
            if k in ("X", "XR"):
                if depth == 0:
                    continue
                acc.append(op)
                yield from rec(acc, depth - 1, pushes, used1, False)
                acc.pop()
                continue
            if k == "E":
                acc.append(op)
                yield from rec(acc, depth + 1, pushes, used1, False)
                acc.pop()
                continue
            i = op[1]
            if i == 2 and not used1:
                continue
            if k == "Q":
                if pushes[i - 1] == 0:
                    continue
                p2 = list(pushes)
                p2[i - 1] -= 1
            elif k == "P":
                p2 = list(pushes)
                p2[i - 1] += 1
            else:
                p2 = pushes
            acc.append(op)
            yield from rec(acc, depth, p2, True, False)
            acc.pop()
    yield from rec([], 0, [0, 0], False, False)


def worth_running(hist):
    """drop histories that cannot observe anything: I/P/Q on an instance that is never read, and
    histories with neither a read nor a time block."""
    read = {op[1] for op in hist if op[0] in ("R", "F")}
    for op in hist:
        if op[0] in ("I", "P", "Q") and op[1] not in read:
            return False
    return bool(read) or any(op[0] == "E" for op in hist)


# ---------------------------------------------------------------------------------------
# driving the real code
# ---------------------------------------------------------------------------------------
def _quiet():
    import param
    warnings.simplefilter("ignore")
    param.parameterized.get_logger().setLevel(logging.CRITICAL + 1)


def make_gen(spec):
    import numbergen
    ptype, gcls, name, seed, td = spec
    if gcls in GEN_SRC:
        return eval(GEN_SRC[gcls] % {"name": name, "seed": seed}, gen_ns())
    if td:
        return getattr(numbergen, gcls)(name=name, seed=seed, time_dependent=True)
    return getattr(numbergen, gcls)(name=name, seed=seed)


_CLASSES = {}


def plain_class(cfgid):
    """class whose parameters hold plain numbers; generators are assigned per instance."""
    import param
    if cfgid not in _CLASSES:
        spec = CFGS[cfgid]
        ns = {g: getattr(param, spec[g][0])(default=0.5) for g in GENS}
        _CLASSES[cfgid] = type("G", (param.Parameterized,), ns)
    return _CLASSES[cfgid]


def default_class(cfgid, needed):
    """fresh class whose parameters in ``needed`` have the generator as class default (every
    instance then owns a deep copy)."""
    import param
    spec = CFGS[cfgid]
    ns = {}
    for g in GENS:
        if g in needed:
            ns[g] = getattr(param, spec[g][0])(default=make_gen(spec[g]))
        else:
            ns[g] = getattr(param, spec[g][0])(default=0.5)
    return type("G", (param.Parameterized,), ns)


def reference_table():
    """G(gen, t) for the time-dependent generators of every configuration: fresh object, read at
    0, jump to t, read."""
    import param
    tm = param.Dynamic.time_fn
    ref, errors = {}, []
    for cfgid, spec in CFGS.items():
        set_time_mode(tm, TIME_MODE[cfgid])
        for g in ("a", "b"):
            for t in cfg_times(cfgid):
                try:
                    tm(0)
                    x = plain_class(cfgid)()
                    setattr(x, g, make_gen(spec[g]))
                    v0 = getattr(x, g)
                    tm(t)
                    ref[(cfgid, g, t)] = getattr(x, g) if t != 0 else v0
                except Exception as e:                 # noqa
                    ref[(cfgid, g, t)] = NOREF
                    errors.append((cfgid, g, t, "%s: %s" % (type(e).__name__, e)))
    set_time_mode(tm, "int")
    return ref, errors


NOREF = "<no reference value>"


class Case:
    def __init__(self, cfgid, install, hist, ref):
        import param
        self.param = param
        self.tm = param.Dynamic.time_fn
        self.cfgid, self.install, self.hist, self.ref = cfgid, install, hist, ref
        self.spec = CFGS[cfgid]
        self.findings = []        # (opindex, clause, key-tuple, witness-fields, detail, check)
        self.counts = {}

    def ck(self, clause, n=1):
        self.counts[clause] = self.counts.get(clause, 0) + n

    def fail(self, idx, clause, key, fields, detail, check):
        self.findings.append((idx, clause, key, fields, detail, check))
        raise Stop()

    def setup(self):
        set_time_mode(self.tm, TIME_MODE[self.cfgid])
        installed = {}
        for op in self.hist:
            if op[0] in ("R", "F"):
                installed.setdefault(op[1], set()).add(op[2])
        self.installed = {i: [g for g in GENS if g in gs] for i, gs in installed.items()}
        used = sorted({op[1] for op in self.hist if op[0] in ("R", "F", "I", "P", "Q")})
        self.inst = {}
        if self.install == "assign":
            cls = plain_class(self.cfgid)
            for i in used:
                self.inst[i] = cls()
                for g in self.installed.get(i, ()):
                    setattr(self.inst[i], g, make_gen(self.spec[g]))
        else:
            # class defaults: both instances own deep copies of the same generators
            needed = set()
            for gs in self.installed.values():
                needed.update(gs)
            cls = default_class(self.cfgid, needed)
            for i in used:
                self.inst[i] = cls()
            self.installed = {i: [g for g in GENS if g in needed] for i in used}
        self.cache = {(i, g): None for i in self.inst for g in self.installed.get(i, ())}
        self.mstack = {i: [] for i in self.inst}     # model push stacks
        self.rstack = {i: [] for i in self.inst}     # real cache fields saved at push time
        self.mtime = self.tm()

    # -- single operations --------------------------------------------------------------
    def read(self, idx, i, g, fault=False):
        t = self.mtime
        td = self.spec[g][4]
        first = self.cache[(i, g)] is None
        fields = "gen=%s:%s ptype=%s t=%s first_read=%d" % (g, self.spec[g][1], self.spec[g][0], t, int(first))
        clause = ("C19/Dynamic._produce_value/value==G(gen,t)" if td
                  else "C19/Dynamic._produce_value/same-time-same-value")
        self.ck(clause)
        faulted = False
        gen = None
        if fault:
            gen = self.inst[i].param.get_value_generator(g)
            gen.fail = True
        try:
            v = getattr(self.inst[i], g)
        except Exception as e:                         # noqa
            if fault and type(e).__name__ == "GenFault":
                faulted = True          # the injected fault: nothing was produced, the model cache is unchanged
            else:
                self.fail(idx, clause, (g, t, first, "raise:" + type(e).__name__),
                          fields + " got=raise:" + type(e).__name__,
                          "reading %s of instance %d at time %s raised %s: %s" % (g, i, t, type(e).__name__, e),
                          ("read-raises", i, g))
        finally:
            if fault:
                gen.fail = False
        if faulted:
            return
        # (a failing generator that was not asked to produce -- the value for this time is cached --
        #  returns the cached value, which is checked like any other read)
        if td:
            exp = self.ref[(self.cfgid, g, t)]
            if exp is not NOREF and not _same(v, exp):
                self.fail(idx, clause, (g, t, first, _cls(v)), fields + " got=" + _cls(v),
                          "instance %d: %s read at time %s is %r, the generator's value at that time is %r"
                          % (i, g, t, v, exp), ("read-value", i, g, t))
        else:
            c = self.cache[(i, g)]
            if c is not None and c[1] == t and not _same(v, c[0]):
                self.fail(idx, clause, (g, t, first, _cls(v)), fields + " got=" + _cls(v),
                          "instance %d: %s read again at time %s is %r, it was %r" % (i, g, t, v, c[0]),
                          ("read-same", i, g))
        self.cache[(i, g)] = (v, t)

    def time_unchanged(self, idx, what):
        """reading / inspecting a parameter never advances or alters the shared time (value and type)."""
        clause = "C19/read/never-alters-time"
        self.ck(clause)
        now = self.tm()
        if not (now == self.mtime and type(now) is type(self.mtime)):
            self.fail(idx, clause, (what, type(now).__name__),
                      "op=%s time_type=%s got=%s" % (what, type(self.mtime).__name__, type(now).__name__),
                      "the time was %r before %s and is %r afterwards" % (self.mtime, op_text(self.hist[idx]), now),
                      ("time", idx))

    def inspect(self, idx, i):
        for g in self.installed.get(i, ()):
            c = self.cache[(i, g)]
            clause = "C19/Dynamic._inspect/never-advances"
            self.ck(clause)
            try:
                v = self.inst[i].param.inspect_value(g)
            except Exception as e:                     # noqa
                self.fail(idx, clause, (g, "raise"), "gen=%s:%s got=raise:%s" % (g, self.spec[g][1], type(e).__name__),
                          "inspect_value(%r) raised %s: %s" % (g, type(e).__name__, e), ("inspect-raises", i, g))
            if c is not None and not _same(v, c[0]):
                moved = self.mtime != c[1]
                self.fail(idx, clause, (g, moved, _cls(v)),
                          "gen=%s:%s time_moved=%d got=%s" % (g, self.spec[g][1], int(moved), _cls(v)),
                          "instance %d: inspect_value(%r) at time %s returned %r; the value last produced (at time %s) is %r"
                          % (i, g, self.mtime, v, c[1], c[0]), ("inspect-value", i, g))

    def real_cache(self, i):
        out = []
        for g in self.installed.get(i, ()):
            gen = self.inst[i].param.get_value_generator(g)
            out.append((g, getattr(gen, "_Dynamic_last", "<none>"), getattr(gen, "_Dynamic_time", "<none>")))
        return out

    def push(self, idx, i):
        self.ck("C19/Parameters._state_push/raises")
        self.rstack[i].append(self.real_cache(i))
        self.mstack[i].append({g: self.cache[(i, g)] for g in self.installed.get(i, ())})
        try:
            self.inst[i].param._state_push()
        except Exception as e:                         # noqa
            self.fail(idx, "C19/Parameters._state_push/raises", ("raise",), "got=raise:" + type(e).__name__,
                      "_state_push raised %s: %s" % (type(e).__name__, e), ("push-raises", i))

    def pop(self, idx, i):
        clause = "C19/Parameters._state_pop/restores-cache"
        self.ck(clause)
        saved = self.rstack[i].pop()
        msaved = self.mstack[i].pop()
        try:
            self.inst[i].param._state_pop()
        except Exception as e:                         # noqa
            self.fail(idx, clause, ("raise",), "got=raise:" + type(e).__name__,
                      "_state_pop raised %s: %s" % (type(e).__name__, e), ("pop-raises", i))
        now = self.real_cache(i)
        for (g, l0, t0), (_, l1, t1) in zip(saved, now):
            if not (_same(l0, l1) and _same(t0, t1)):
                what = ("value" if not _same(l0, l1) else "") + ("time" if not _same(t0, t1) else "")
                self.fail(idx, clause, (g, what), "gen=%s:%s lost=%s" % (g, self.spec[g][1], what),
                          "instance %d: after _state_pop the cache of %s is (value %r, time %r); at the matching "
                          "_state_push it was (value %r, time %r)" % (i, g, l1, t1, l0, t0), ("pop-cache", i, g))
        for g, c in msaved.items():
            self.cache[(i, g)] = c

    # -- the interpreter: real nested ``with`` statements --------------------------------
    def block(self, k, depth):
        """run operations from index k until the block at ``depth`` is closed; returns
        (next index, leave_by_raising)."""
        hist, tm = self.hist, self.tm
        n = len(hist)
        while k < n:
            op = hist[k]
            kind = op[0]
            if kind == "J":
                tm(op[1])
                self.mtime = op[1]
            elif kind == "R":
                self.read(k, op[1], op[2])
                self.time_unchanged(k, "R:" + self.spec[op[2]][1])
            elif kind == "F":
                self.read(k, op[1], op[2], fault=True)
                self.time_unchanged(k, "F:" + self.spec[op[2]][1])
            elif kind == "I":
                self.inspect(k, op[1])
                self.time_unchanged(k, "I")
            elif kind == "P":
                self.push(k, op[1])
            elif kind == "Q":
                self.pop(k, op[1])
            elif kind == "E":
                before = tm()
                mbefore = self.mtime
                nxt = [n]
                try:
                    with tm:
                        nxt[0], by_raise = self.block(k + 1, depth + 1)
                        if by_raise:
                            raise Boom()
                except Boom:
                    pass
                clause = "C19/Time.__exit__/restores-time"
                self.ck(clause)
                after = tm()
                how = "raise" if (nxt[0] - 1 < n and hist[nxt[0] - 1][0] == "XR") else "normal"
                if not (after == before and type(after) is type(before)):
                    self.fail(min(nxt[0] - 1, n - 1), clause, (depth, how),
                              "depth=%d exit=%s" % (depth + 1, how),
                              "time was %r when the block (nesting level %d) was entered and is %r after leaving it (%s exit)"
                              % (before, depth + 1, after, how), ("ctx", k))
                self.mtime = mbefore
                k = nxt[0]
                continue
            elif kind in ("X", "XR"):
                return k + 1, kind == "XR"
            k += 1
        return n + 1, False        # history ended with the block still open: closed normally

    def run(self):
        try:
            self.setup()
            try:
                self.block(0, 0)
            except Stop:
                pass
        finally:
            # leave the global time function clean
            tm = self.tm
            del tm._pushed_state[:]
            tm.in_context = False
            set_time_mode(tm, "int")
        return self.findings, self.counts


def _same(a, b):
    if a is b:
        return True
    try:
        return type(a) is type(b) and a == b
    except Exception:                                  # noqa
        return False


def _cls(v):
    return "None" if v is None else "other-value"


# ---------------------------------------------------------------------------------------
# replay scripts: straight-line code with real ``with`` blocks
# ---------------------------------------------------------------------------------------
def make_replay(cfgid, install, hist, check, clause, witness):
    spec = CFGS[cfgid]
    hdr = REPLAY_HEADER.format(prop=PROP, name="replay_c19.py", clause=clause, witness=witness)
    src = hdr + "import logging, warnings\nimport param, numbergen\nwarnings.simplefilter('ignore')\n"
    src += "param.parameterized.get_logger().setLevel(logging.CRITICAL + 1)\n"
    src += "param.Dynamic.time_dependent = True\ntm = param.Dynamic.time_fn\ntm(0)\n"
    if any(spec[g][1] in GEN_SRC for g in GENS):
        src += GEN_PRELUDE
    if TIME_MODE[cfgid] == "frac":
        src += "tm(Fraction(0), time_type=Fraction)      # exact rational time type\n"
    src += "class Boom(Exception): pass\n"

    def gen_src(g):
        ptype, gcls, name, seed, td = spec[g]
        if gcls in GEN_SRC:
            return GEN_SRC[gcls] % {"name": name, "seed": seed}
        return "numbergen.%s(name=%r, seed=%d%s)" % (gcls, name, seed, ", time_dependent=True" if td else "")

    installed = {}
    for op in hist:
        if op[0] in ("R", "F"):
            installed.setdefault(op[1], set()).add(op[2])
    used = sorted({op[1] for op in hist if op[0] in ("R", "F", "I", "P", "Q")})
    src += "class Plain(param.Parameterized):\n"
    for g in GENS:
        src += "    %s = param.%s(default=0.5)\n" % (g, spec[g][0])
    src += ("def G(g, make, t):\n"
            "    '''value of a generator (class, name, seed) at time t: separate fresh object, read at 0, jump, read'''\n"
            "    now = tm()\n    tm(0)\n    x = Plain(); setattr(x, g, make()); v = getattr(x, g)\n"
            "    if t != 0:\n        tm(t); v = getattr(x, g)\n    tm(now)\n    return v\n")
    if install == "assign":
        for i in used:
            src += "g%d = Plain()\n" % i
            for g in GENS:
                if g in installed.get(i, ()):
                    src += "g%d.%s = %s\n" % (i, g, gen_src(g))
        inst_gens = {i: [g for g in GENS if g in installed.get(i, ())] for i in used}
    else:
        needed = set()
        for gs in installed.values():
            needed.update(gs)
        src += "class WithDefaults(param.Parameterized):\n"
        for g in GENS:
            src += "    %s = param.%s(default=%s)\n" % (g, spec[g][0], gen_src(g) if g in needed else "0.5")
        for i in used:
            src += "g%d = WithDefaults()\n" % i
        inst_gens = {i: [g for g in GENS if g in needed] for i in used}
    src += "def cache(obj, names):\n    return [(getattr(obj.param.get_value_generator(n), '_Dynamic_last', None), getattr(obj.param.get_value_generator(n), '_Dynamic_time', None)) for n in names]\n"
    src += "last = {}\nsaved = {1: [], 2: []}\nbefore = {}\n"
    src += "def same(a, b):\n    return a is b or (type(a) is type(b) and a == b)\n"
    src += "def reproduced(msg):\n    print('REPRODUCED: ' + msg); sys.exit(1)\n"
    src += "# ---- history: %s\n" % ";".join(op_text(o) for o in hist)
    body = []
    ind = [0]

    def emit(line):
        body.append("    " * ind[0] + line)

    ctx = []           # stack of E indices
    mtime = 0
    mstack = []

    def close(eidx, by_raise):
        if by_raise:
            emit("raise Boom()")
        else:
            emit("pass")
        ind[0] -= 2
        emit("except Boom:")
        emit("    pass")
        if check[0] == "ctx" and check[1] == eidx:
            emit("if not same(tm(), before[%d]):" % eidx)
            emit("    reproduced('time was %%r when the with-block was entered and is %%r after leaving it' %% (before[%d], tm()))" % eidx)

    for k, op in enumerate(hist):
        kind = op[0]
        if kind == "J":
            emit("tm(%s)" % tsrc(op[1]))
            mtime = op[1]
        elif kind == "F":
            i, g = op[1], op[2]
            emit("t0 = tm(); gen = g%d.param.get_value_generator(%r); gen.fail = True; faulted = False   # %s" % (i, g, op_text(op)))
            emit("try:")
            emit("    v = g%d.%s" % (i, g))
            emit("except GenFault:")
            emit("    faulted = True")
            emit("finally:")
            emit("    gen.fail = False")
            emit("if not same(tm(), t0):")
            emit("    reproduced('the time was %%r before the (failing) read of %s and is %%r afterwards' %% (t0, tm()))" % g)
            emit("if not faulted:")
            if spec[g][4]:
                emit("    exp = G(%r, lambda: %s, tm())" % (g, gen_src(g)))
                emit("    if not same(v, exp):")
                emit("        reproduced('instance %d: %s read at time %%r is %%r; the value of this generator at that time is %%r' %% (tm(), v, exp))" % (i, g))
            emit("    last[(%d, %r)] = (v, tm())" % (i, g))
        elif kind == "R":
            i, g = op[1], op[2]
            emit("t0 = tm()")
            emit("try:")
            emit("    v = g%d.%s" % (i, g))
            emit("except Exception as e:")
            emit("    reproduced('reading %s of instance %d at time %%r raised %%s: %%s' %% (tm(), type(e).__name__, e))" % (g, i))
            emit("if not same(tm(), t0):")
            emit("    reproduced('the time was %%r before reading %s and is %%r afterwards' %% (t0, tm()))" % g)
            if spec[g][4]:
                emit("exp = G(%r, lambda: %s, tm())" % (g, gen_src(g)))
                emit("if not same(v, exp):")
                emit("    reproduced('instance %d: %s read at time %%r is %%r; the value of this generator at that time is %%r' %% (tm(), v, exp))" % (i, g))
            else:
                emit("if (%d, %r) in last and last[(%d, %r)][1] == tm() and not same(v, last[(%d, %r)][0]):" % (i, g, i, g, i, g))
                emit("    reproduced('instance %d: %s read again at time %%r is %%r, it was %%r' %% (tm(), v, last[(%d, %r)][0]))" % (i, g, i, g))
            emit("last[(%d, %r)] = (v, tm())" % (i, g))
        elif kind == "I":
            i = op[1]
            for g in inst_gens.get(i, ()):
                emit("t0 = tm()")
                emit("v = g%d.param.inspect_value(%r)" % (i, g))
                emit("if not same(tm(), t0):")
                emit("    reproduced('the time was %%r before inspect_value(%r) and is %%r afterwards' %% (t0, tm()))" % g)
                emit("if (%d, %r) in last and not same(v, last[(%d, %r)][0]):" % (i, g, i, g))
                emit("    reproduced('instance %d: inspect_value of %s at time %%r returned %%r; the value last produced is %%r' %% (tm(), v, last[(%d, %r)][0]))" % (i, g, i, g))
        elif kind == "P":
            i = op[1]
            emit("saved[%d].append((cache(g%d, %r), {k: v for k, v in last.items() if k[0] == %d}))" % (i, i, inst_gens.get(i, []), i))
            emit("g%d.param._state_push()" % i)
        elif kind == "Q":
            i = op[1]
            emit("g%d.param._state_pop()" % i)
            emit("c0, l0 = saved[%d].pop()" % i)
            emit("if not all(same(x[0], y[0]) and same(x[1], y[1]) for x, y in zip(c0, cache(g%d, %r))):" % (i, inst_gens.get(i, [])))
            emit("    reproduced('instance %d: cached (value, time) at _state_push %%r, after _state_pop %%r' %% (c0, cache(g%d, %r)))" % (i, i, inst_gens.get(i, [])))
            emit("last = {k: v for k, v in last.items() if k[0] != %d}; last.update(l0)" % i)
        elif kind == "E":
            emit("before[%d] = tm()" % k)
            emit("try:")
            emit("    with tm:")
            ind[0] += 2
            ctx.append(k)
        elif kind in ("X", "XR"):
            close(ctx.pop(), kind == "XR")
    while ctx:
        close(ctx.pop(), False)
    src += "try:\n" + "".join("    " + ln + "\n" for ln in body)
    src += "except Exception as e:\n    reproduced('raised %s: %s' % (type(e).__name__, e))\n"
    src += "print('NOT-REPRODUCED'); sys.exit(0)\n"
    return src


# ---------------------------------------------------------------------------------------
# plan / workers
# ---------------------------------------------------------------------------------------
def plan(tier):
    """list of (cfgid, install, length, reduced-alphabet)."""
    if tier == "quick":
        p = [(0, "assign", L, False) for L in (1, 2, 3, 4)]
        p += [(1, "assign", L, False) for L in (1, 2, 3, 4)]
        p += [(0, "default", L, False) for L in (1, 2, 3)]
        p += [(0, "assign", 5, True)]
        # extension families (reduced alphabets, see alphabet()): faults, sampled generators, exact times
        p += [(2, "assign", L, "fault") for L in (2, 3, 4)]
        p += [(2, "default", 3, "fault")]
        p += [(3, "assign", L, "small") for L in (1, 2, 3)] + [(3, "assign", 4, "tiny")]
        p += [(4, "assign", L, "small") for L in (1, 2, 3)] + [(4, "assign", 4, "tiny")]
        p += [(4, "default", 3, "tiny")]
        return p
    p = [(0, "assign", L, False) for L in (1, 2, 3, 4, 5)]
    p += [(1, "assign", L, False) for L in (1, 2, 3, 4, 5)]
    p += [(0, "default", L, False) for L in (1, 2, 3, 4)]
    p += [(1, "default", L, False) for L in (1, 2, 3)]
    p += [(0, "assign", 6, True)]
    p += [(2, "assign", L, "fault+") for L in (2, 3, 4, 5)]
    p += [(2, "default", L, "fault+") for L in (2, 3, 4)]
    p += [(3, "assign", L, "small+") for L in (1, 2, 3, 4)] + [(3, "assign", 5, "small")]
    p += [(4, "assign", L, "small+") for L in (1, 2, 3, 4)] + [(4, "assign", 5, "small")]
    p += [(3, "default", L, "small") for L in (2, 3, 4)]
    p += [(4, "default", L, "small") for L in (2, 3, 4)]
    return p


def describe_plan(pl):
    def mx(c, ins, red):
        ls = [L for (cc, ii, L, rr) in pl if cc == c and ii == ins and rr is red]
        return max(ls) if ls else 0

    def ext(c):
        rows = sorted({(ii, rr, L) for (cc, ii, L, rr) in pl if cc == c and isinstance(rr, str)})
        best = {}
        for ii, rr, L in rows:
            best[(ii, rr)] = max(L, best.get((ii, rr), 0))
        return ", ".join("%s/%s-alphabet(%d ops) length <= %d" % (ii, rr, len(alphabet(rr, c)), L)
                         for (ii, rr), L in sorted(best.items()))
    txt = ("all well-nested histories over the full 21-operation alphabet of length <= %d for configuration 0 "
           "(a=Number/UniformRandom seed 1, b=Dynamic/NormalRandom seed 7, c=Dynamic/stateful UniformRandom seed 3) and "
           "<= %d for configuration 1 (a=Dynamic/UniformRandom seed 7, b=Number/NormalRandom seed 1, "
           "c=Number/stateful UniformRandomInt seed 5), generators constructed per instance; length <= %d / <= %d with "
           "the generators installed as class defaults (deep-copied into each instance); all histories of length "
           "exactly %d over the reduced 12-operation alphabet {J(-1),J(0),J(1),R(1,a),R(1,c),R(2,a),I(1),E,X,XR,P(1),"
           "Q(1)} for configuration(s) %s; times {-2,-1,0,1,2,5}, 2 instances, nesting depth unbounded within the length"
           % (mx(0, "assign", False), mx(1, "assign", False), mx(0, "default", False), mx(1, "default", False),
              max([L for (_, _, L, rr) in pl if rr is True] or [0]), sorted({c for (c, _, _, rr) in pl if rr is True})))
    txt += ("; EXTENSION families over reduced alphabets: configuration 2 (a=Number/UniformRandom, b=Dynamic/ScaledTime, "
            "both able to fail on demand; alphabet with the fault operation F(i,g) = read while the generator raises; only "
            "histories containing an F): %s; configuration 3 (a=Dynamic/TimeSampledFn(period 2.0, offset 0.5) over a "
            "time-dependent UniformRandom, b=Number/SquareWave): %s; configuration 4 (time type fractions.Fraction, times "
            "{-2/3,0,1/3,1,5/2}; a=Number/UniformRandom, b=Dynamic/TimeSampledFn(period 3/2, offset 1/2) over NormalRandom): "
            "%s; after every read / failing read / inspect the shared time must be unchanged in value and type"
            % (ext(2), ext(3), ext(4)))
    return txt


_REF = None


def _worker(task):
    cfgid, install, length, reduced, first = task
    import param
    _quiet()
    param.Dynamic.time_dependent = True
    ops = alphabet(reduced, cfgid)
    need_fault = isinstance(reduced, str) and reduced.startswith("fault")
    ncases = ntrivial = 0
    counts, cands, samples = {}, {}, []
    try:
        for hist in enum_histories(length, ops, first):
            if not worth_running(hist) or (need_fault and not any(op[0] == "F" for op in hist)):
                ntrivial += 1
                continue
            ncases += 1
            findings, c = Case(cfgid, install, hist, _REF).run()
            for k, v in c.items():
                counts[k] = counts.get(k, 0) + v
            if not samples and ncases == 50:
                samples.append({"cfg": cfgid, "install": install, "history": [op_text(o) for o in hist],
                                "findings": len(findings)})
            for idx, clause, key, fields, detail, check in findings:
                h = hist[:idx + 1]
                ckey = (clause,) + tuple(key)
                rank = (len(h), cfgid, 0 if install == "assign" else 1, 0 if reduced is False else 1, str(reduced),
                        first, ncases)
                if ckey not in cands or rank < cands[ckey][0]:
                    cands[ckey] = (rank, cfgid, install, h, fields, detail, check)
    finally:
        param.Dynamic.time_dependent = False
    return ncases, ntrivial, counts, cands, samples


def run(tier, seed):
    import param
    global _REF
    pl = plan(tier)
    B = Bounded(
        PROP,
        rule=("one case = one well-nested history over {J(t) t in -2,-1,0,1,2,5; R(i,g) i in 1,2 g in a,b,c; I(i); "
              "E; X; XR; P(i); Q(i); in the fault family also F(i,g): a read during which the generator raises, after "
              "which the cache model is unchanged and the next read at that time must give G(gen,t)} run on fresh instances with freshly constructed numbergen generators "
              "(a,b time-dependent with name+seed, c stateful); histories that cannot observe anything (dead jumps, "
              "I/P/Q on a never-read instance, no read and no block) and instance-symmetric duplicates are not run. "
              "Every read is compared with the table G(generator, time) taken from a separate fresh object; inspect "
              "against the value last produced; time after every with-block against the time at entry; cache fields "
              "after pop against those at push.  distinct = distinct (configuration, install mode, history)."),
        bound=describe_plan(pl))
    _quiet()
    saved_td = param.Dynamic.time_dependent
    tm = param.Dynamic.time_fn
    saved_time = tm()
    try:
        param.Dynamic.time_dependent = True
        _REF, ref_errors = reference_table()
        for cfgid, g, t, err in ref_errors[:1]:
            clause = "C19/Dynamic._produce_value/value==G(gen,t)"
            witness = "gen=%s:%s ptype=%s t=%s first_read=0 got=raise reference-history cfg=%d install=assign hist=R(1,%s);J(%s);R(1,%s)" % (
                g, CFGS[cfgid][g][1], CFGS[cfgid][g][0], t, cfgid, g, t, g)
            hist = (("R", 1, g), ("J", t), ("R", 1, g))
            B.violation(clause=clause, witness=witness, detail="the plainest history raised " + err,
                        replay=make_replay(cfgid, "assign", hist, ("read-raises", 1, g), clause, witness))
        tasks = []
        for cfgid, install, length, reduced in pl:
            na = len(alphabet(reduced, cfgid))
            if length >= 4:
                firsts = [(f1, f2) for f1 in range(na) for f2 in range(na)]
            elif length >= 2:
                firsts = [(f1,) for f1 in range(na)]
            else:
                firsts = [()]
            for f in firsts:
                tasks.append((cfgid, install, length, reduced, f))
        tasks.sort(key=lambda t: (-t[2] + (2 if t[3] else 0), t[0], t[1], t[4]))
        cands = {}
        ndistinct = 0
        with ProcessPoolExecutor(NWORKERS) as ex:
            for task, (ncases, ntrivial, counts, cnd, samples) in zip(tasks, ex.map(_worker, tasks, chunksize=1)):
                B.evaluations += ncases
                ndistinct += ncases
                for k, v in counts.items():
                    B.checked(k, v)
                for s in samples:
                    B.sample(s)
                for key, val in cnd.items():
                    if key not in cands or val[0] < cands[key][0]:
                        cands[key] = val
        B._distinct = set(range(ndistinct))
        for key in sorted(cands, key=repr):
            rank, cfgid, install, h, fields, detail, check = cands[key]
            clause = key[0]
            witness = "%s cfg=%d install=%s hist=%s" % (fields, cfgid, install, ";".join(op_text(o) for o in h))
            B.violation(clause=clause, witness=witness, detail=detail,
                        replay=make_replay(cfgid, install, h, check, clause, witness))
        # family "nested generators" (generator-valued parameters of generators x read orders x instances x
        # repeated reads at one time): bounded/c19_nest.py, core shared with its replays in bounded/c19_nest_core.py
        from bounded import c19_nest
        nested = c19_nest.extend(B, tier, seed)
        # families "huge times / tiny relative steps" and "order of switching time dependence and the time function
        # relative to generator construction": bounded/c19_time.py, core shared with its replays in c19_time_core.py
        from bounded import c19_time
        timed = c19_time.extend(B, tier, seed)
        B._distinct = set(range(ndistinct + nested + timed))
    finally:
        param.Dynamic.time_dependent = saved_td
        tm(saved_time)
    B.note("reference table G(gen,t): %d entries; the global param.Dynamic.time_fn is used (reset to 0, no pushed "
           "state) and Dynamic.time_dependent restored after the run" % len(_REF))
    return B.result()
