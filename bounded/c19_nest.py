"""C19 bounded layer, family "nested generators": generator-valued parameters of generators (depth 1-2)
x read orders x instances x repeated reads at one time.

The objects, the operations and the oracle are in `bounded/c19_nest_core.py` (its text is embedded into the
replay scripts).  This module generates the trees and the histories, runs them in worker processes and turns
the findings into witnesses.

Trees (generated, not listed): outer kind in {U (UniformRandom), N (NormalRandom), O (UniformRandomOffset)} x which
of its two numeric parameters hold a generator (first, second, both) x kind of each operand; depth 2: an outer
kind x one generator-valued parameter x a middle generator x one generator-valued parameter of it x a leaf
generator.  A parameter that must not be negative (sigma, range) only gets subtrees made of U / O over positive
numbers.  Every node has its own name (the path from the root) and seed.

Histories
  * all well-formed histories up to a length over {J(t), R(i), C(i), O(i,path), K(i,path), I(1)} (no jump that
    nobody observes, instance 2 only after instance 1, I only after a read of x);
  * guided family "orders": three (time, reader) visits -- all 27 time sequences over three times (forward,
    backward, repeated = a second read at the same time) x reader triples (read of x, direct call, operand read
    first, the other instance, ...) -- histories of up to 6 operations.
"""
import itertools
import os
from concurrent.futures import ProcessPoolExecutor

from bounded._api import REPLAY_HEADER
from bounded import c19_nest_core as K

NWORKERS = min(16, os.cpu_count() or 1)
ROOTNUM = {'U': (0.25, 1.75), 'N': (0.5, 0.25), 'O': (1.0, 0.5)}
NUM = {'U': (1.0, 2.0), 'N': (0.5, 0.25), 'O': (1.0, 0.5)}
KIDX = {'U': 0, 'N': 1, 'O': 2}
QTIMES = (0, 1, 2)
TTIMES = (-1, 0, 1, 2, 5)


def allowed(parent_kind, slot, positive):
    """kinds a generator-valued parameter may hold: sigma / range (second parameter of N / O) must not be negative,
    and inside such a subtree every operand must be positive as well"""
    if positive or (slot == 1 and parent_kind in ('N', 'O')):
        return ('U', 'O')
    return ('U', 'N', 'O')


def node(kind, path, args, root=False):
    name = '.'.join(('r',) + path)
    seed = 7 if root else 3 + 4 * len(path) + 2 * KIDX[kind] + (1 if path[-1] in ('ubound', 'sigma', 'range') else 0)
    return (kind, name, seed, tuple(args))


def leaf(kind, path):
    return node(kind, path, NUM[kind])


def tname(tree):
    inner = ','.join('%s=%s' % (pn, tname(a)) for pn, a in zip(K.KINDS[tree[0]][1], tree[3]) if K.is_tree(a))
    return tree[0] + ('(%s)' % inner if inner else '')


def all_trees():
    """-> (depth-1 trees, depth-2 trees)"""
    d1, d2 = [], []
    for ok in 'UNO':
        pn = K.KINDS[ok][1]
        num = ROOTNUM[ok]
        for k0 in allowed(ok, 0, False):
            d1.append(node(ok, (), (leaf(k0, (pn[0],)), num[1]), True))
        for k1 in allowed(ok, 1, False):
            d1.append(node(ok, (), (num[0], leaf(k1, (pn[1],))), True))
        for k0 in allowed(ok, 0, False):
            for k1 in allowed(ok, 1, False):
                d1.append(node(ok, (), (leaf(k0, (pn[0],)), leaf(k1, (pn[1],))), True))
        for s in (0, 1):
            pos = s == 1 and ok in ('N', 'O')
            for mk in allowed(ok, s, False):
                if mk == 'O':
                    continue                       # (middle generators: U and N)
                mpn = K.KINDS[mk][1]
                for ms in (0, 1):
                    for lk in allowed(mk, ms, pos):
                        if lk == 'O':
                            continue
                        margs = list(NUM[mk])
                        margs[ms] = leaf(lk, (pn[s], mpn[ms]))
                        args = list(num)
                        args[s] = node(mk, (pn[s],), margs)
                        d2.append(node(ok, (), args, True))
    return d1, d2


def quick_trees(d1, d2, seed):
    """a covering subset: every (outer kind, parameter, operand kind) occurs, every outer kind at depth 2; plus a
    seed-chosen sixth of the remaining trees"""
    chosen, have = [], set()
    for t in d1:
        feats = {(t[0], s, a[0]) for s, a in enumerate(t[3]) if K.is_tree(a)}
        single = len(feats) == 1
        if single and not feats <= have:
            chosen.append(t)
            have |= feats
    both = [t for t in d1 if all(K.is_tree(a) for a in t[3])]
    chosen += [both[i] for i in range(len(both)) if i % 5 == 0]
    want = {('U', 'ubound', 'U', 'ubound', 'U'), ('N', 'mu', 'U', 'lbound', 'N'), ('O', 'range', 'U', 'ubound', 'U'),
            ('U', 'lbound', 'N', 'sigma', 'U')}
    for t in d2:
        p = K.paths(t)[-1]
        sig = (t[0], p[0], K.node_at(t, p[:1])[0], p[1], K.node_at(t, p)[0])
        if sig in want:
            chosen.append(t)
    rest = [t for t in d1 + d2 if t not in chosen]
    chosen += [t for i, t in enumerate(rest) if i % 6 == seed % 6]
    return chosen


# ---------------------------------------------------------------------------------------------------------
# histories
# ---------------------------------------------------------------------------------------------------------
def alphabet(tree, times, rich):
    ps = K.paths(tree)
    ops = [('J', t) for t in times]
    ops += [('R', 1), ('R', 2), ('C', 1), ('C', 2)]
    for p in ps:
        ops += [('O', 1, p), ('O', 2, p), ('K', 1, p)]
        if rich:
            ops.append(('K', 2, p))
    ops.append(('I', 1))
    if rich:
        ops.append(('I', 2))
    return ops


def enum_histories(length, ops):
    def rec(acc, used1, prev_j, read):
        if len(acc) == length:
            yield tuple(acc)
            return
        last = len(acc) == length - 1
        for op in ops:
            k = op[0]
            if k == 'J':
                if prev_j or last or (not acc and op[1] == 0):
                    continue                      # a jump nobody can observe (the time starts at 0)
                acc.append(op)
                yield from rec(acc, used1, True, read)
                acc.pop()
                continue
            i = op[1]
            if i == 2 and not used1:
                continue
            if k == 'I' and i not in read:
                continue
            acc.append(op)
            yield from rec(acc, True, False, read | {i} if k == 'R' else read)
            acc.pop()
    yield from rec([], False, False, frozenset())


def reader_sets(tree, full):
    ps = K.paths(tree)
    p, q = ps[0], ps[-1]
    R1, R2, C1, C2 = ('R', 1), ('R', 2), ('C', 1), ('C', 2)
    if full:
        readers = [R1, C1, R2, ('O', 2, q)] if p == q else [R1, C1, ('O', 1, p), ('O', 2, q)]
        return [t for t in itertools.product(readers, repeat=3) if t[0][1] != 2]
    return [(R1, R1, R1), (C1, C1, C1), (R1, R2, R1), (('O', 1, p), R1, C1), (R1, ('O', 2, q), R2), (('K', 1, q), C1, R1)]


def order_histories(tree, times, full):
    for ts in itertools.product(times, repeat=3):
        for rs in reader_sets(tree, full):
            h, now = [], 0
            for t, r in zip(ts, rs):
                if t != now:
                    h.append(('J', t))
                    now = t
                h.append(r)
            yield tuple(h)


def hist_text(h):
    return ';'.join(K.op_text(o) for o in h)


# ---------------------------------------------------------------------------------------------------------
# plan: tasks (tree, install, family, arg, times, rich)
# ---------------------------------------------------------------------------------------------------------
def plan(tier, seed):
    d1, d2 = all_trees()
    q = quick_trees(d1, d2, seed)
    tasks = []
    if tier == 'quick':
        for i, t in enumerate(q):
            deep = K.depth(t) > 1
            for L in (1, 2):
                tasks.append((t, 'assign', 'all', L, QTIMES, False))
                tasks.append((t, 'default', 'all', L, QTIMES, False))
            if not deep and (i % 3 == seed % 3 or t in q[:3]):
                tasks.append((t, 'assign', 'all', 3, QTIMES, False))
            tasks.append((t, 'assign', 'orders', False, QTIMES, False))
            if i % 3 == (seed + 1) % 3:
                tasks.append((t, 'default', 'orders', False, QTIMES, False))
        bound = ("nested generators: %d of %d+%d generated trees of depth 1+2 (covering every outer kind x parameter x "
                 "operand kind; a seed-chosen sixth of the others) x {all histories of length <= 2 over {J(0,1,2), "
                 "R(1,2), C(1,2), O(1,2,path), K(1,path), I(1)}, fresh tree per instance and tree as class default; "
                 "length 3 for three trees and a seed-chosen third of the depth-1 trees; orders: 27 time sequences x 6 "
                 "reader triples (a seed-chosen third of the trees also as class default)}" % (len(q), len(d1), len(d2)))
        return tasks, bound
    for t in d1 + d2:
        for L in (1, 2):
            tasks.append((t, 'assign', 'all', L, TTIMES, True))
            tasks.append((t, 'default', 'all', L, TTIMES, True))
        tasks.append((t, 'assign', 'all', 3, QTIMES, False))
        tasks.append((t, 'assign', 'orders', False, QTIMES, False))
        tasks.append((t, 'default', 'orders', False, QTIMES, False))
    for i, t in enumerate(q):
        if i % 3 == 0:
            tasks.append((t, 'assign', 'all', 3, TTIMES, True))
            tasks.append((t, 'default', 'orders', True, (0, 1, 5), False))
        elif i % 3 == 1:
            tasks.append((t, 'default', 'all', 3, QTIMES, False))
            tasks.append((t, 'assign', 'orders', True, QTIMES, False))
        if i % 11 == 0:
            tasks.append((t, 'assign', 'all', 4, (0, 1), False))
    bound = ("nested generators: all %d+%d generated trees of depth 1+2 x {all histories of length <= 2 over {J(-1,0,1,2,"
             "5), R(1,2), C(1,2), O(1,2,path), K(1,2,path), I(1,2)}, fresh tree per instance and tree as class default; "
             "length 3 over {J(0,1,2), R(1,2), C(1,2), O(1,2,path), K(1,path), I(1)} with fresh trees; orders: 27 time "
             "sequences x 6 reader triples, both install modes}; of a covering subset of %d trees a third each also "
             "{length 3 over the full alphabet; orders with all reader triples over 4 readers as class default over "
             "times {0,1,5}} / {length 3 as class default; orders with all reader triples, fresh trees}, and 3 trees "
             "length 4 over times {0,1}" % (len(d1), len(d2), len(q)))
    return tasks, bound


_TABLES = {}


def _worker(task):
    tree, install, family, arg, times, rich = task
    import logging
    import warnings
    import param
    warnings.simplefilter('ignore')
    param.parameterized.get_logger().setLevel(logging.CRITICAL + 1)
    saved = param.Dynamic.time_dependent
    param.Dynamic.time_dependent = True
    try:
        alltimes = tuple(sorted(set(times) | {0}))
        key = (tree, alltimes)
        if key not in _TABLES:
            _TABLES[key] = K.tables(tree, alltimes)
        G, D = _TABLES[key]
        if family == 'all':
            hs = enum_histories(arg, alphabet(tree, times, rich))
        else:
            hs = order_histories(tree, times, arg)
        n, counts, cands = 0, {}, {}
        dp = K.depth(tree)
        for h in hs:
            n += 1
            findings, c = K.run_history(tree, install, h, G, D)
            for k, v in c.items():
                counts[k] = counts.get(k, 0) + v
            for idx, clause, path, kind, t, first, detail in findings:
                hh = h[:idx + 1]
                ckey = (clause, kind, dp, len(path))
                rank = (len(hh), len(tname(tree)), tname(tree), install, hist_text(hh))
                if ckey not in cands or rank < cands[ckey][0]:
                    cands[ckey] = (rank, tree, install, hh, path, kind, t, first, detail, alltimes)
        return n, counts, cands
    finally:
        param.Dynamic.time_dependent = saved
        param.Dynamic.time_fn(0)


REPLAY_BODY = '''import logging, warnings
warnings.simplefilter('ignore')
import param
param.parameterized.get_logger().setLevel(logging.CRITICAL + 1)
param.Dynamic.time_dependent = True
# ---- text of /verif/bounded/c19_nest_core.py (trees, reference model, history runner) ----
{core}
# ------------------------------------------------------------------------------------------
tree = {tree!r}
# x = {src}
install, hist, times = {install!r}, {hist!r}, {times!r}
G, D = tables(tree, times)
findings, _ = run_history(tree, install, hist, G, D)
hits = [f for f in findings if f[1] == {clause!r}]
if hits:
    print('REPRODUCED: %s -- history %s' % (hits[0][6], ';'.join(op_text(o) for o in hist)))
    sys.exit(1)
print('NOT-REPRODUCED' + (' (other findings: %r)' % (findings,) if findings else ''))
sys.exit(0)
'''


def make_replay(clause, witness, tree, install, hist, times):
    head = REPLAY_HEADER.format(prop='C19', name='replay_c19_nested.py', clause=clause, witness=witness)
    with open(K.__file__.replace('.pyc', '.py')) as f:
        core = f.read()
    return head + REPLAY_BODY.format(core=core, tree=tree, src=K.source(tree), install=install, hist=tuple(hist),
                                     times=tuple(times), clause=clause)


def extend(B, tier, seed):
    """run the family and add its results to the recorder `B` of the C19 layer; returns the number of cases"""
    tasks, bound = plan(tier, seed)
    tasks.sort(key=lambda t: (-(t[3] if t[2] == 'all' else (5 if t[3] else 3)), tname(t[0]), t[1], t[2]))
    total, cands = 0, {}
    with ProcessPoolExecutor(NWORKERS) as ex:
        for n, counts, cnd in ex.map(_worker, tasks, chunksize=1):
            total += n
            for k, v in counts.items():
                B.checked(k, v)
            for key, val in cnd.items():
                if key not in cands or val[0] < cands[key][0]:
                    cands[key] = val
    B.evaluations += total
    for key in sorted(cands, key=repr):
        rank, tree, install, h, path, kind, t, first, detail, times = cands[key]
        clause = key[0]
        witness = 'tree=%s node=%s op=%s t=%s first=%d install=%s hist=%s' % (
            tname(tree), '.'.join(('x',) + path), kind, t, first, install, hist_text(h))
        B.violation(clause=clause, witness=witness, detail=detail,
                    replay=make_replay(clause, witness, tree, install, h, times))
    B.bound += '; EXTENSION ' + bound
    B.rule += (' Nested-generator family: one case = (tree of time-dependent random generators whose numeric parameters '
               'are generators, install mode, history over J / R(i) read of x / C(i) direct call / O(i,path) read of an '
               'operand / K(i,path) direct call of an operand / I(i) inspect); every value is compared with G(node, t) '
               'from a separate fresh subtree asked once at t and with a plain-Python model (distribution formula over '
               "the operands' values and the node's own draw at t, taken from a fresh generator of the same class, name "
               'and seed with plain numbers).')
    B.sample({'nested-family': {'tasks': len(tasks), 'cases': total, 'example tree': K.source(tasks[0][0])}})
    return total
