"""Core of the C19 family "nested generators" (self-contained: standard library, param, numbergen).

The *text of this file* is embedded verbatim into every replay script of the family, so layer and replay
share one oracle.

Objects driven
--------------
A time-dependent random generator whose own numeric parameters are themselves time-dependent random
generators (depth 1 and 2), held by a ``param.Number`` parameter ``x`` of one or two owner instances (a fresh
tree per instance, or the tree as class default, deep-copied into each instance).

    tree  = (kind, name, seed, (arg0, arg1))       arg = float | tree
    kind  U  numbergen.UniformRandom(lbound, ubound)      value = lbound + (ubound - lbound) * u
          N  numbergen.NormalRandom(mu, sigma)            value = mu + z * sigma
          O  numbergen.UniformRandomOffset(mean, range)   value = lo + (hi - lo) * u,  lo/hi = mean -/+ range / 2

Operations of a history
    ('J', t)        jump the global time to t
    ('R', i)        read the parameter x of instance i
    ('C', i)        call the generator held by x of instance i directly
    ('O', i, path)  read the generator-valued parameter at `path` (e.g. ('ubound',), ('ubound', 'lbound')) through
                    the generator that owns it (an ordinary read of a dynamic parameter)
    ('K', i, path)  call the operand generator at `path` directly
    ('I', i)        inspect_value('x') on instance i

Oracle (from the statement: the value of a time-dependent generator with a given name and seed at time t is a
function of t only -- the same on repeated reads, whatever was read or visited before, on every instance):
  * value==G(gen,t)      every value obtained for the node `path` at time t equals, exactly, the value G(node, t)
                         that a separate, freshly built copy of that (sub)tree returns when it is asked once at time t;
  * value==model(t)      plain-Python reference model: the value of a node at time t is the documented formula of
                         its distribution applied to the values of its operands at time t and the node's own draw at
                         time t, u(name, seed, t) / z(name, seed, t), taken from a separate fresh generator of the same
                         class, name and seed WITHOUT generator-valued parameters (compared with a relative
                         tolerance of 1e-12: only the formula's rounding is left open);
  * inspect_value returns the value last produced by a read of x and advances nothing;
  * no operation alters the time.
"""
import math

import numbergen
import param

KINDS = {'U': ('UniformRandom', ('lbound', 'ubound'), (0.0, 1.0)),
         'N': ('NormalRandom', ('mu', 'sigma'), (0.0, 1.0)),
         'O': ('UniformRandomOffset', ('mean', 'range'), (0.5, 1.0))}

CL_G = 'C19/nested/value==G(gen,t)'
CL_M = 'C19/nested/value==model(operands(t),own-draw(t))'
CL_I = 'C19/nested/inspect-never-advances'
CL_T = 'C19/read/never-alters-time'


def is_tree(a):
    return isinstance(a, tuple)


def build(tree):
    """a freshly constructed generator (operands first)"""
    kind, name, seed, args = tree
    cls, pnames, _ = KINDS[kind]
    kw = {pn: (build(a) if is_tree(a) else a) for pn, a in zip(pnames, args)}
    return getattr(numbergen, cls)(name=name, seed=seed, time_dependent=True, **kw)


def source(tree):
    kind, name, seed, args = tree
    cls, pnames, _ = KINDS[kind]
    kw = ', '.join('%s=%s' % (pn, source(a) if is_tree(a) else repr(a)) for pn, a in zip(pnames, args))
    return 'numbergen.%s(name=%r, seed=%d, time_dependent=True, %s)' % (cls, name, seed, kw)


def node_at(tree, path):
    for pn in path:
        tree = tree[3][KINDS[tree[0]][1].index(pn)]
    return tree


def paths(tree, prefix=()):
    """paths of the generator-valued parameters, parents before children"""
    out = []
    for pn, a in zip(KINDS[tree[0]][1], tree[3]):
        if is_tree(a):
            out.append(prefix + (pn,))
    for pn, a in zip(KINDS[tree[0]][1], tree[3]):
        if is_tree(a):
            out.extend(paths(a, prefix + (pn,)))
    return out


def depth(tree):
    subs = [depth(a) for a in tree[3] if is_tree(a)]
    return 1 + max(subs) if subs else 0


def nodes(tree):
    yield tree
    for a in tree[3]:
        if is_tree(a):
            yield from nodes(a)


def _at(tm, t, f):
    """f() at time t on fresh objects; the time is put back afterwards"""
    now = tm()
    tm(t)
    try:
        return f()
    finally:
        tm(now)


def tables(tree, times):
    """-> (G, D): G[(path, t)] value of a separate fresh copy of the subtree at `path` asked once at time t;
    D[(name, seed, t)] own draw of the node: fresh generator of the same class, name and seed with plain numbers
    (the neutral ones: the draw itself comes out) asked once at time t"""
    tm = param.Dynamic.time_fn
    G, D = {}, {}
    for path in [()] + paths(tree):
        sub = node_at(tree, path)
        for t in times:
            G[(path, t)] = _at(tm, t, lambda: build(sub)())
    for kind, name, seed, args in nodes(tree):
        for t in times:
            D[(name, seed, t)] = _at(tm, t, lambda: build((kind, name, seed, KINDS[kind][2]))())
    return G, D


def model(tree, t, D):
    """plain-Python reference model of the value of `tree` at time t"""
    kind, name, seed, args = tree
    a, b = [model(x, t, D) if is_tree(x) else x for x in args]
    d = D[(name, seed, t)]
    if kind == 'U':
        return a + (b - a) * d
    if kind == 'N':
        return a + d * b
    lo, hi = a - b / 2.0, a + b / 2.0
    return lo + (hi - lo) * d


def same(a, b):
    return type(a) is type(b) and a == b


def close(a, b):
    return isinstance(a, float) and isinstance(b, float) and math.isclose(a, b, rel_tol=1e-12, abs_tol=1e-15)


def op_text(op):
    k = op[0]
    if k == 'J':
        return 'J(%s)' % (op[1],)
    if k in ('O', 'K'):
        return '%s(%d,%s)' % (k, op[1], '.'.join(op[2]))
    return '%s(%d)' % (k, op[1])


_OWNER = {}


def owner_class(tree, install):
    if install == 'assign':
        if 'plain' not in _OWNER:
            _OWNER['plain'] = type('Owner', (param.Parameterized,), {'x': param.Number(default=0.5)})
        return _OWNER['plain']
    # (the class default itself is never read: every instance gets a deep copy of it when it is created)
    if tree not in _OWNER:
        _OWNER[tree] = type('OwnerD', (param.Parameterized,), {'x': param.Number(default=build(tree))})
    return _OWNER[tree]


def gen_at(inst, path):
    g = inst.param.get_value_generator('x')
    for pn in path:
        g = g.param.get_value_generator(pn)
    return g


def run_history(tree, install, hist, G, D):
    """Drive the real code through `hist` (the time starts at 0).  -> (findings, counts); findings =
    [(op index, clause, node path, op kind, t, first, detail)], the case is abandoned at the first failing operation"""
    tm = param.Dynamic.time_fn
    tm(0)
    mtime = 0
    cls = owner_class(tree, install)
    inst = {}
    for i in sorted({op[1] for op in hist if op[0] != 'J'}):
        inst[i] = cls()
        if install == 'assign':
            inst[i].x = build(tree)
    last_r = {}
    seen = set()
    findings, counts = [], {}

    def ck(c):
        counts[c] = counts.get(c, 0) + 1
    for idx, op in enumerate(hist):
        k = op[0]
        if k == 'J':
            tm(op[1])
            mtime = op[1]
            continue
        i = op[1]
        path = op[2] if k in ('O', 'K') else ()
        what = '%s of instance %d at time %s' % (op_text(op), i, mtime)
        try:
            if k == 'R':
                v = inst[i].x
            elif k == 'C':
                v = gen_at(inst[i], ())()
            elif k == 'O':
                v = getattr(gen_at(inst[i], path[:-1]), path[-1])
            elif k == 'K':
                v = gen_at(inst[i], path)()
            else:
                v = inst[i].param.inspect_value('x')
        except Exception as e:
            findings.append((idx, CL_G if k != 'I' else CL_I, path, k, mtime, 0,
                             '%s raised %s: %s' % (what, type(e).__name__, e)))
            break
        first = int((i, path, mtime) not in seen)
        if k == 'I':
            ck(CL_I)
            if i in last_r and not same(v, last_r[i]):
                findings.append((idx, CL_I, path, k, mtime, 0, '%s returned %r; the value last produced by a read of x '
                                 'is %r' % (what, v, last_r[i])))
        else:
            ck(CL_G)
            ck(CL_M)
            seen.add((i, path, mtime))
            g = G[(path, mtime)]
            m = model(node_at(tree, path), mtime, D)
            if not same(v, g):
                findings.append((idx, CL_G, path, k, mtime, first, '%s is %r; a separate fresh generator %s asked once '
                                 'at that time returns %r' % (what, v, '.'.join(('x',) + path), g)))
            if not close(v, m):
                findings.append((idx, CL_M, path, k, mtime, first, '%s is %r; the distribution formula applied to the '
                                 "operands' values and the generator's own draw at that time gives %r" % (what, v, m)))
            if k == 'R':
                last_r[i] = v
        ck(CL_T)
        now = tm()
        if not same(now, mtime):
            findings.append((idx, CL_T, path, k, mtime, first, 'the time was %r before %s and is %r afterwards'
                             % (mtime, what, now)))
        if findings:
            break
    tm(0)
    return findings, counts
