"""C19 bounded layer, families HT (huge times / tiny relative steps in four time types) and SO (order of switching
time dependence and the time function relative to the construction of the generator).

The objects, operations and oracles are in `bounded/c19_time_core.py` (its text is embedded into the replays); this
module generates the grids, orders and walks, runs the cases in worker processes and reports one representative
(smallest) witness per (clause, class of case).
"""
import itertools
import os
from concurrent.futures import ProcessPoolExecutor
from decimal import Decimal
from fractions import Fraction

from bounded._api import REPLAY_HEADER
from bounded import c19_time_core as K

NWORKERS = min(16, os.cpu_count() or 1)


# ---------------------------------------------------------------------------------------------------------
# HT: grids = magnitude x relative step, per time type (generated; source texts so that replays are exact)
# ---------------------------------------------------------------------------------------------------------
def grids(tier):
    out = []
    ibases = [0, 2 ** 31 - 1, 1700000000, 10 ** 12, 2 ** 53, -10 ** 10, 10 ** 18]
    for b in ibases:
        for s in (1, 60):
            out.append(('int', repr(b), repr(s)))
    fbases = [0.0, 1.0, 1e9, 1.7e9, 2.0 ** 40, -1e12, 1e15]
    for b in fbases:
        for rel in (2.0 ** -20, 2.0 ** -32, 2.0 ** -45):
            out.append(('float', repr(b), repr(max(abs(b), 1.0) * rel)))
    qbases = [Fraction(0), Fraction(1), Fraction(1, 3), Fraction(10 ** 10), Fraction(-10 ** 12, 7)]
    for b in qbases:
        for rel in (Fraction(1, 1000), Fraction(1, 10 ** 10), Fraction(1, 10 ** 15)):
            s = max(abs(b), 1) * rel
            out.append(('Fraction', 'Fraction(%d, %d)' % (b.numerator, b.denominator),
                        'Fraction(%d, %d)' % (s.numerator, s.denominator)))
    dbases = [Decimal(0), Decimal(1), Decimal('1000000000.1'), Decimal('-123456789012.5')]
    for b in dbases:
        mag = Decimal(10) ** (max(abs(b), Decimal(1)).adjusted())
        for rel in (Decimal('1E-3'), Decimal('1E-10'), Decimal('1E-13')):
            out.append(('Decimal', 'Decimal(%r)' % str(b), 'Decimal(%r)' % str(mag * rel)))
    return out


def visit_seqs(tier):
    if tier == 'quick':
        return [v for v in itertools.product((0, 1, 2), repeat=3)]
    return [v for v in itertools.product((-1, 0, 1, 2), repeat=4)]


def ht_cases(tier, seed):
    """generator of HT cases.  quick: every grid x generator kind x all 27 visit sequences for the parameter route
    with fresh generators on one instance; the other dimensions (class default, two instances, direct call, time
    context) each with every grid x generator kind over a fifth of the visit sequences."""
    vs = visit_seqs(tier)
    for gi, (ttype, b, s) in enumerate(grids(tier)):
        for gk in ('UR', 'NR', 'ST', 'FN'):
            variants = [('assign', 'one', 'P', 0)]
            extra = [('default', 'alt', 'P', 0), ('assign', 'alt', 'P', 1), ('default', 'one', 'P', 1)]
            if gk != 'FN':
                extra += [('assign', 'alt', 'K', 0), ('default', 'one', 'K', 0)]
            for vi, v in enumerate(vs):
                if len(set(v)) == 1:
                    continue
                for install, instpat, route, ctx in variants:
                    yield (ttype, b, s, gk, install, instpat, route, ctx, v)
                for xi, (install, instpat, route, ctx) in enumerate(extra):
                    if (vi + xi + gi + seed) % (5 if tier == 'quick' else 3):
                        continue
                    yield (ttype, b, s, gk, install, instpat, route, ctx, v)


# ---------------------------------------------------------------------------------------------------------
# SO: orders of the events
# ---------------------------------------------------------------------------------------------------------
WALKS_Q = ((0, 1, 2), (2, 0, 1, 0), (1, 1, 0, 3, 0))
WALKS_T = WALKS_Q + ((3, 2, 1, 0), (0, 0, 1, 1), (1, 0, 1, 0, 2), (2, 1, 2, 3, 0, 1))


def orders(tmode, fmode):
    ev = ['D', 'C']
    if tmode != 'Tk':
        ev.append('T')
    if fmode in ('Fc', 'Fi'):
        ev.append('F')
    for p in itertools.permutations(ev):
        if tmode == 'Ti' and p.index('T') < p.index('C'):
            continue
        if fmode == 'Fi' and p.index('F') < p.index('C'):
            continue
        yield p


def so_cases(tier, seed):
    walks = WALKS_Q if tier == 'quick' else WALKS_T
    kinds = ('UR', 'UI') if tier == 'quick' else ('UR', 'NR', 'UI')
    for gk in kinds:
        for install in ('assign', 'default', 'alone'):
            for tmode in ('Tk', 'Tc', 'Tsub', 'Ti'):
                for fmode in ('F0', 'Fk', 'Fc', 'Fi'):
                    for order in orders(tmode, fmode):
                        for pre in (0, 2):
                            for route in (('K',) if install == 'alone' else ('P', 'K')):
                                for walk in walks:
                                    yield (gk, install, tmode, fmode, order, pre, route, walk)


def ht_text(c):
    ttype, b, s, gk, install, instpat, route, ctx, v = c
    return 'type=%s base=%s step=%s gen=%s install=%s instances=%s route=%s ctx=%d visits=%s' % (
        ttype, b.replace(' ', ''), s.replace(' ', ''), gk, install, instpat, route, ctx, ','.join(map(str, v)))


def so_text(c):
    gk, install, tmode, fmode, order, pre, route, walk = c
    return 'gen=%s install=%s td=%s time_fn=%s order=%s predraws=%d route=%s walk=%s' % (
        gk, install, tmode, fmode, '>'.join(order), pre, route, ','.join(map(str, walk)))


def _size(family, c):
    if family == 'HT':
        ttype, b, s, gk, install, instpat, route, ctx, v = c
        return (len(b) + len(s), ctx, install != 'assign', instpat != 'one', route != 'P', v)
    gk, install, tmode, fmode, order, pre, route, walk = c
    return (len(order), fmode != 'F0', pre, len(walk), install != 'assign', route != 'P', order, walk)


def _worker(chunk):
    n = skipped = 0
    counts, cands = {}, {}
    for family, case in chunk:
        findings, c = K.run_case(family, case)
        for k, v in c.items():
            counts[k] = counts.get(k, 0) + v
        if findings is None:
            skipped += 1
            continue
        n += 1
        for clause, cls, fields, detail in findings:
            key = (clause, family) + tuple(cls[:1] if family == 'HT' else cls[1:])
            rank = _size(family, case)
            if key not in cands or rank < cands[key][0]:
                cands[key] = (rank, family, case, fields, detail)
    return n, skipped, counts, cands


REPLAY_BODY = '''# ---- text of /verif/bounded/c19_time_core.py (objects, reference values, case runner) ----
{core}
# ------------------------------------------------------------------------------------------
family, case = {family!r}, {case!r}
# {text}
findings, _ = run_case(family, case)
hits = [f for f in (findings or []) if f[0] == {clause!r}]
if hits:
    print('REPRODUCED: %s' % (hits[0][3],))
    sys.exit(1)
print('NOT-REPRODUCED' + (' (other findings: %r)' % (findings,) if findings else ''))
sys.exit(0)
'''


def make_replay(clause, witness, family, case, text):
    head = REPLAY_HEADER.format(prop='C19', name='replay_c19_time.py', clause=clause, witness=witness)
    with open(K.__file__.replace('.pyc', '.py')) as f:
        core = f.read()
    return head + REPLAY_BODY.format(core=core, family=family, case=case, text=text, clause=clause)


def extend(B, tier, seed):
    """run both families, add the results to the recorder `B` of the C19 layer; returns the number of cases"""
    cases = [('HT', c) for c in ht_cases(tier, seed)]
    nht = len(cases)
    cases += [('SO', c) for c in so_cases(tier, seed)]
    nso = len(cases) - nht
    size = max(50, len(cases) // (NWORKERS * 6))
    chunks = [cases[i:i + size] for i in range(0, len(cases), size)]
    total = skipped = 0
    cands = {}
    with ProcessPoolExecutor(NWORKERS) as ex:
        for n, sk, counts, cnd in ex.map(_worker, chunks, chunksize=1):
            total += n
            skipped += sk
            for k, v in counts.items():
                B.checked(k, v)
            for key, val in cnd.items():
                if key not in cands or val[0] < cands[key][0]:
                    cands[key] = val
    B.evaluations += total
    for key in sorted(cands, key=repr):
        rank, family, case, fields, detail = cands[key]
        clause = key[0]
        text = ht_text(case) if family == 'HT' else so_text(case)
        witness = '%s %s' % (text, fields)
        B.violation(clause=clause, witness=witness, detail=detail,
                    replay=make_replay(clause, witness, family, case, text))
    ng = len(grids(tier))
    B.bound += ('; EXTENSION huge times (HT): %d generated grids t_k = base + k*step (int bases up to 1e18 step 1/60; '
                'float, Fraction, Decimal bases up to 1e15 with relative steps from 1e-3 down to 1e-15) x generators '
                '{UniformRandom, NormalRandom, ScaledTime, plain function} x all non-constant visit sequences of length '
                '%d over k in %s (fresh generators, one instance, parameter reads) and, %s, class-default generators / '
                'two instances / direct calls / the middle visit inside a time context: %d cases; switching order (SO): '
                '{UniformRandom, UniformRandomInt%s} x {assigned, class default, stand-alone} x time dependence by '
                '{constructor keyword, TimeAware class level, own class level, instance} x time function {global, '
                'constructor keyword, class level, instance} x every admissible order of the events D/C/T/F x {0,2} draws '
                'before the switch x route x %d walks: %d cases run, %d not constructible or not reporting time dependence'
                % (ng, 3 if tier == 'quick' else 4, '{0,1,2}' if tier == 'quick' else '{-1,0,1,2}',
                   'for a seed-chosen fifth of the sequences each' if tier == 'quick' else 'for a seed-chosen third of the sequences each',
                   nht, '' if tier == 'quick' else ', NormalRandom',
                   len(WALKS_Q if tier == 'quick' else WALKS_T), nso - skipped, skipped))
    B.rule += (' Families HT / SO (bounded/c19_time.py): every value read at time t is compared with G(gen, t) -- for the '
               'random generators the one and only read of a separate fresh generator of the same class, name and seed '
               'built the plainest way, for ScaledTime / a plain function the value computed from t -- whatever times '
               'were visited before, however close to t they are, and in whatever order time dependence and the time '
               'function were switched on relative to the construction of the generator.')
    B.sample({'time-families': {'HT cases': nht, 'SO cases': nso - skipped, 'SO not a case': skipped,
                                'example': ht_text(cases[0][1])}})
    return total
