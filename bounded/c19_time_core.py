"""Core of the C19 families HT ("huge times, tiny relative steps") and SO ("order of switching time dependence /
the time function relative to the construction of the generator").  Nothing from /verif is imported: the text of
this file is embedded into the replay scripts.

Family HT -- one case = (time type, base, step, generator kind, install mode, instance pattern, route, ctx, visits)
    times t_k = base + k*step (k in -1..2) of type int / float / Fraction / Decimal, |base| up to 1e18 and
    step/|base| down to 1e-15; a visit jumps to t_k, reads twice, inspects, reads again.
    Oracle:  UR / NR (numbergen random generators, name + seed, time_dependent=True): G(gen, t) = what a separate
             fresh generator of the same class, name and seed returns when its one and only read happens at t;
             ST (ScaledTime factor 3): float(t * 3) computed here;  FN (plain function returning ('at', time)):
             ('at', t) computed here -- the value at t may not depend on the times visited before.
    ctx=1: the middle visit happens inside ``with time_fn:``; afterwards the time must be the time at entry
    (value and type) and the read must again give G(gen, t_entry).

Family SO -- one case = (generator kind, install mode, how time dependence is switched on, how the time function is
    chosen, order of the events D / C / T / F, draws before the switch, route, walk)
    D  param.Dynamic.time_dependent = True
    C  construct the generators (fresh subclass of the numbergen class; name 'sg', seed 5) -- assigned to two
       instances, as class default of a fresh class with two instances, or two stand-alone generators
    T  Tk: constructor keyword (part of C)     Tc: numbergen.TimeAware.time_dependent = True (class level)
       Tsub: <the generator's own class>.time_dependent = True      Ti: generator.time_dependent = True
    F  F0: the global time function    Fk: constructor keyword time_fn=T2 (part of C; Dynamic.time_fn = T2 as well)
       Fc: param.Dynamic.time_fn = numbergen.TimeAware.time_fn = T2 (class level)
       Fi: generator.time_fn = T2 on every generator (and Dynamic.time_fn = T2)
    Oracle: once every generator REPORTS time_dependent == True and uses the current clock, its value at time t is
    G(class, name, seed, t) -- taken beforehand from a generator built the plainest way (Dynamic.time_dependent on,
    constructor keyword time_dependent=True, global time function, one call at t) -- on both instances, whatever
    was drawn before the switch and in whatever order the times are visited; two reads at one time agree.
    A construction refused by numbergen's documented check (AssertionError: time-dependent generator while Dynamic
    parameters ignore time) is not a case.
"""
import logging
import warnings
from decimal import Decimal
from fractions import Fraction

import param
import numbergen

warnings.simplefilter('ignore')
param.parameterized.get_logger().setLevel(logging.CRITICAL + 1)

TTYPES = {'int': int, 'float': float, 'Fraction': Fraction, 'Decimal': Decimal}
ORIG_TM = param.Dynamic.time_fn
GCLS = {'UR': 'UniformRandom', 'NR': 'NormalRandom', 'UI': 'UniformRandomInt', 'ST': 'ScaledTime'}

H_VALUE = 'C19/huge-times/value==G(gen,t)'
H_SAME = 'C19/huge-times/same-time-same-value'
H_INSPECT = 'C19/huge-times/inspect==last-produced'
H_CTX = 'C19/huge-times/Time.__exit__/restores-time'
S_VALUE = 'C19/switch-order/value==G(gen,t)'
S_SAME = 'C19/switch-order/same-time-same-value'


def tv(src):
    return eval(src, {'Fraction': Fraction, 'Decimal': Decimal})


def same(a, b):
    return a is b or (type(a) is type(b) and a == b)


def reset_globals():
    tm = ORIG_TM
    del tm._pushed_state[:]
    tm.in_context = False
    tm(0, time_type=int)
    param.Dynamic.time_dependent = False
    param.Dynamic.time_fn = tm
    numbergen.TimeAware.time_dependent = False
    numbergen.TimeAware.time_fn = tm


# ------------------------------------------------------------------------------------------------------
# family HT
# ------------------------------------------------------------------------------------------------------
def ht_make(gk):
    if gk == 'FN':
        tm = ORIG_TM

        def fn():
            return ('at', tm())
        return fn
    if gk == 'ST':
        return numbergen.ScaledTime(factor=3)
    return getattr(numbergen, GCLS[gk])(name='hg', seed=3, time_dependent=True)


class HPlain(param.Parameterized):
    x = param.Dynamic(default=0.5)


_HREF = {}


def ht_expected(gk, t):
    """the value at time t, independent of any history"""
    if gk == 'FN':
        return ('at', t)
    if gk == 'ST':
        return float(t * 3)
    key = (gk, type(t).__name__, repr(t))
    if key not in _HREF:
        tm = ORIG_TM
        now = tm()
        tm(t)
        o = HPlain()
        o.x = ht_make(gk)
        _HREF[key] = o.x                      # the one and only read of a fresh generator
        tm(now)
    return _HREF[key]


def ht_times(ttype, base_s, step_s):
    base, step = tv(base_s), tv(step_s)
    return {k: base + k * step for k in (-1, 0, 1, 2)}


_HCLS = {}


def ht_objects(gk, install):
    if install == 'assign':
        objs = [HPlain(), HPlain()]
        for o in objs:
            o.x = ht_make(gk)
        return objs
    if gk not in _HCLS or gk == 'FN':
        _HCLS[gk] = type('HDefault', (param.Parameterized,), {'x': param.Dynamic(default=ht_make(gk))})
    return [_HCLS[gk](), _HCLS[gk]()]


def run_ht(case):
    """-> (findings [(clause, class-key, fields, detail)], {clause: evaluations})"""
    ttype, base_s, step_s, gk, install, instpat, route, ctx, visits = case
    findings, counts = [], {}

    def ck(c):
        counts[c] = counts.get(c, 0) + 1
    tm = ORIG_TM
    try:
        reset_globals()
        param.Dynamic.time_dependent = True
        times = ht_times(ttype, base_s, step_s)
        tm(times[0], time_type=TTYPES[ttype])
        times = {k: tm(t) for k, t in times.items()}          # as the Time object stores them
        tm(times[0])
        objs = ht_objects(gk, install)
        gens = [o.param.get_value_generator('x') for o in objs]
        if install == 'default' and gk == 'FN':
            gens = None

        def read(i):
            return gens[i]() if route == 'K' else objs[i].x

        def visit(n, k, i, seen):
            t = times[k]
            tm(t)
            exp = ht_expected(gk, t)
            v1 = read(i)
            ck(H_VALUE)
            if not same(v1, exp):
                prev = [repr(times[j]) for j in seen]
                findings.append((H_VALUE, (ttype, gk), 'visit=%d' % n,
                                 'instance %d: value read at time %r after visiting %s is %r; the value of this '
                                 'generator at that time is %r' % (i + 1, t, prev, v1, exp)))
                return False
            v2 = read(i)
            ck(H_SAME)
            if not same(v1, v2):
                findings.append((H_SAME, (ttype, gk), 'visit=%d' % n,
                                 'instance %d: two reads at time %r give %r and %r' % (i + 1, t, v1, v2)))
                return False
            if route == 'P':
                ck(H_INSPECT)
                vi = objs[i].param.inspect_value('x')
                v3 = read(i)
                if not (same(vi, v1) and same(v3, v1)):
                    findings.append((H_INSPECT, (ttype, gk), 'visit=%d' % n,
                                     'instance %d at time %r: read %r, inspect_value %r, read again %r'
                                     % (i + 1, t, v1, vi, v3)))
                    return False
            return True
        seen = []
        for n, k in enumerate(visits):
            i = n % 2 if instpat == 'alt' else 0
            if ctx and n == 1:
                before = tm()
                with tm:
                    ok = visit(n, k, i, seen)
                ck(H_CTX)
                after = tm()
                if not same(before, after):
                    findings.append((H_CTX, (ttype,), 'visit=%d' % n,
                                     'time was %r when the with-block was entered and is %r after leaving it'
                                     % (before, after)))
                    ok = False
                if ok:
                    # back at the entry time: the value is again the one of that time
                    ok = visit(n, seen[-1], i, seen + [k])
            else:
                ok = visit(n, k, i, seen)
            if not ok:
                break
            seen.append(k)
    finally:
        reset_globals()
    return findings, counts


# ------------------------------------------------------------------------------------------------------
# family SO
# ------------------------------------------------------------------------------------------------------
_SREF = {}
_SGEN = {}


class SPlain(param.Parameterized):
    x = param.Dynamic(default=0.5)


def so_reference(gk, times):
    key = (gk, tuple(times))
    if key not in _SREF:
        _SREF[key] = _so_reference(gk, times)
    reset_globals()
    return _SREF[key]


def _so_reference(gk, times):
    reset_globals()
    param.Dynamic.time_dependent = True
    out = {}
    for t in times:
        ORIG_TM(t)
        kw = {'lbound': 0, 'ubound': 10 ** 9} if gk == 'UI' else {}
        out[t] = getattr(numbergen, GCLS[gk])(name='sg', seed=5, time_dependent=True, **kw)()
    reset_globals()
    return out


def run_so(case):
    gk, install, tmode, fmode, order, pre, route, walk = case
    findings, counts = [], {}

    def ck(c):
        counts[c] = counts.get(c, 0) + 1
    try:
        ref = so_reference(gk, sorted(set(walk)))
        T2 = param.Time() if fmode != 'F0' else None
        if tmode == 'Tsub':
            Gen = type('Gen' + gk, (getattr(numbergen, GCLS[gk]),), {})      # switched at class level: fresh class
        else:
            if gk not in _SGEN:
                _SGEN[gk] = type('Gen' + gk, (getattr(numbergen, GCLS[gk]),), {})
            Gen = _SGEN[gk]
        st = {'objs': None, 'gens': None}

        def construct():
            kw = {'name': 'sg', 'seed': 5}
            if gk == 'UI':
                kw.update(lbound=0, ubound=10 ** 9)
            if tmode == 'Tk':
                kw['time_dependent'] = True
            if fmode == 'Fk':
                kw['time_fn'] = T2
                param.Dynamic.time_fn = T2
            if install == 'assign':
                st['objs'] = [SPlain(), SPlain()]
                for o in st['objs']:
                    o.x = Gen(**kw)
            elif install == 'default':
                P = type('SDefault', (param.Parameterized,), {'x': param.Dynamic(default=Gen(**kw))})
                st['objs'] = [P(), P()]
            if install == 'alone':
                st['gens'] = [Gen(**kw), Gen(**kw)]
            else:
                st['gens'] = [o.param.get_value_generator('x') for o in st['objs']]
            for g in st['gens']:
                for _ in range(pre):
                    g()                         # draws before the switch (direct calls: no Dynamic cache involved)
        for ev in order:
            if ev == 'D':
                param.Dynamic.time_dependent = True
            elif ev == 'C':
                try:
                    construct()
                except AssertionError:
                    return None, counts         # refused by numbergen's documented check: not a case
            elif ev == 'T':
                if tmode == 'Tc':
                    numbergen.TimeAware.time_dependent = True
                elif tmode == 'Tsub':
                    Gen.time_dependent = True
                elif tmode == 'Ti':
                    for g in st['gens']:
                        g.time_dependent = True
            elif ev == 'F':
                param.Dynamic.time_fn = T2
                if fmode == 'Fc':
                    numbergen.TimeAware.time_fn = T2
                elif fmode == 'Fi':
                    for g in st['gens']:
                        g.time_fn = T2
        clock = T2 if T2 is not None else ORIG_TM
        gens, objs = st['gens'], st['objs']
        if not (param.Dynamic.time_dependent is True and param.Dynamic.time_fn is clock
                and all(g.time_dependent is True and g.time_fn is clock for g in gens)):
            return None, counts                 # not (reported as) time dependent on this clock: nothing is claimed

        def read(i):
            return gens[i]() if route == 'K' else objs[i].x
        seen = []
        for n, t in enumerate(walk):
            i = n % 2
            clock(t)
            v1, v2 = read(i), read(i)
            ck(S_VALUE)
            if not same(v1, ref[t]):
                findings.append((S_VALUE, (gk, tmode, fmode), 'step=%d' % n,
                                 'generator %d (reports time_dependent=%r): value at time %r after visiting %r is '
                                 '%r; a generator of the same class, name and seed built after the switch gives %r'
                                 % (i + 1, gens[i].time_dependent, t, seen, v1, ref[t])))
                break
            ck(S_SAME)
            if not same(v1, v2):
                findings.append((S_SAME, (gk, tmode, fmode), 'step=%d' % n,
                                 'generator %d: two reads at time %r give %r and %r' % (i + 1, t, v1, v2)))
                break
            seen.append(t)
    finally:
        reset_globals()
    return findings, counts


def run_case(family, case):
    return run_ht(case) if family == 'HT' else run_so(case)
