"""Bounded stand-in layer for C20 -- ``pprint`` / ``script_repr`` output rebuilds an equal object.

What is driven
--------------
The real ``obj.param.pprint()`` and ``param.script_repr(obj)`` of /repo on objects of the classes in
``CLASS_SRC`` (plain ``**params`` constructors, constructors with positional and keyword parameters,
keyword-only parameters, no ``**params``, inheritance with an overridden default, nested
Parameterized values), for **every** value of a boundary-rich lattice of literals per parameter, every
subset of changed parameters of the wide class, and the full product of the small constructor
classes.  Both texts are evaluated back and the rebuilt object compared with the original.

Two extension families: (1) class ``DBox`` declares NON-EMPTY container defaults; every value of the
same size as the default with other keys / items and None / falsy values in the new places is
printed alone, among other changed parameters and nested inside other objects; (2) two threads:
thread A is suspended at every line of the printer functions in turn while thread B prints the same
object (or its nested child) from start to end -- a deterministic one-preemption schedule, no real
race -- and each of the two texts must rebuild an equal object.

Oracle (from the statement)
---------------------------
``eval(text)`` (for ``script_repr``: run the import lines, evaluate the final expression) must
construct an object of the *same class* whose parameter values *equal* the original's.  Equality is
Python ``==`` made structural for nested Parameterized values (same class, equal parameter values);
``name`` is compared only when the original's name was given explicitly.

Scope (lenient readings)
------------------------
* the evaluation namespace is generous: every class of the module by bare name, the module itself
  under its import name, ``param``, and ``inf`` / ``nan`` (``repr(float('inf'))`` is ``inf``);
* only parameters that the constructor can receive are changed (for the class without ``**params``
  only those it names); explicit names never look like auto-generated ones (``Class`` + digits);
* values are literals, containers of literals, or Parameterized objects as parameter values or
  list items (not inside dicts/sets, which are printed with plain ``repr``).
"""
import ast
import math
import os
import re
import sys
import types
import warnings
import logging
from concurrent.futures import ProcessPoolExecutor

from bounded._api import Bounded, REPLAY_HEADER

PROP = "C20"
NWORKERS = min(16, os.cpu_count() or 1)
MODNAME = "c20_cases"

CLASS_SRC = '''
import param

class Leaf(param.Parameterized):
    s = param.String(default='dflt')
    n = param.Number(default=1.5)
    i = param.Integer(default=3)

class Box(param.Parameterized):
    """plain **params constructor, one parameter per kind of literal"""
    s = param.String(default='dflt')
    n = param.Number(default=1.5)
    i = param.Integer(default=-3)
    flag = param.Boolean(default=False)
    p = param.Parameter(default=None)
    lst = param.List(default=[])
    lst1 = param.List(default=[1, 2])
    tup = param.Tuple(default=(0, 0))
    tup1 = param.Tuple(default=(0,))
    d = param.Dict(default={})
    sub = param.ClassSelector(class_=param.Parameterized, default=None)
    hi = param.Number(default=0, precedence=5)
    lo = param.Number(default=0, precedence=-1)

class Box2(Box):
    """inherits everything, overrides two defaults"""
    s = param.String(default='other')
    lst1 = param.List(default=[])

class Pos(param.Parameterized):
    """positional a, keyword b, the rest through **params"""
    a = param.Number(default=1)
    b = param.String(default='z')
    c = param.Number(default=3)
    l = param.List(default=[])
    def __init__(self, a, b='z', **params):
        super().__init__(a=a, b=b, **params)

class Pos2(param.Parameterized):
    """two positionals; the keyword default of k (1) differs from the Parameter default (5)"""
    x = param.Parameter(default=None)
    y = param.Parameter(default=None)
    k = param.Integer(default=5)
    def __init__(self, x, y, k=1, **params):
        super().__init__(x=x, y=y, k=k, **params)

class Closed(param.Parameterized):
    """no **params: only the named parameters can be given"""
    a = param.Number(default=1)
    b = param.Parameter(default=None)
    def __init__(self, a, b=None):
        super().__init__(a=a, b=b)

class KwOnly(param.Parameterized):
    a = param.Number(default=1)
    b = param.Integer(default=2)
    c = param.String(default='c')
    def __init__(self, a, *, b=2, **params):
        super().__init__(a=a, b=b, **params)

class Node(param.Parameterized):
    label = param.String(default='')
    child = param.ClassSelector(class_=param.Parameterized, default=None)
    kids = param.List(default=[])

class DBox(param.Parameterized):
    """container-valued parameters whose declared defaults are NOT empty"""
    d2 = param.Dict(default={'a': 1, 'b': 2})
    d1 = param.Dict(default={'k': None})
    dn = param.Dict(default={'a': {'x': 1}, 'b': [1, 2]})
    p2 = param.Parameter(default={'a': 1, 'b': 2})
    l2 = param.List(default=[{'a': 1}, {'b': 2}])
    t2 = param.Tuple(default=({'a': 1}, [0, 1]))
    lst2 = param.List(default=[1, 2])
    sub = param.ClassSelector(class_=param.Parameterized, default=None)

class DBox2(DBox):
    """overrides a dict default with one holding None under other keys"""
    d2 = param.Dict(default={'x': None, 'y': None})
'''

CLASSES = ("Leaf", "Box", "Box2", "Pos", "Pos2", "Closed", "KwOnly", "Node", "DBox", "DBox2")

# ---------------------------------------------------------------------------------------
# value lattice: (feature label, python source of the value)
# ---------------------------------------------------------------------------------------
STRINGS = [
    ("str-empty", "''"), ("str-plain", "'a'"), ("str-squote", '"it\'s"'), ("str-dquote", "'say \"hi\"'"),
    ("str-bothquotes", "'both \\' and \"'"), ("str-backslash", "'back\\\\slash'"), ("str-newline", "'new\\nline'"),
    ("str-tab", "'tab\\there'"), ("str-unicode", "'uni\\u00e9\\u2603'"), ("str-nul", "'nul\\x00'"),
    ("str-spaces", "' lead trail '"), ("str-comma", "'a,b'"), ("str-paren", "'x=1)'"), ("str-hash", "'#'"),
    ("str-triple", "\"'''\""), ("str-default", "'dflt'"), ("str-other", "'other'"),
]
NUMBERS = [
    ("num-zero", "0"), ("num-neg-int", "-1"), ("num-pos-int", "1"), ("num-neg-float", "-1.5"), ("num-float", "2.5"),
    ("num-small", "1e-07"), ("num-big", "1e+22"), ("num-negzero", "-0.0"), ("num-bigint", "10**20"),
    ("num-neg-bigint", "-10**20"), ("num-inf", "float('inf')"), ("num-neg-inf", "float('-inf')"),
    ("num-bool", "True"), ("num-default", "1.5"),
]
INTEGERS = [("int-zero", "0"), ("int-default", "-3"), ("int-pos", "3"), ("int-neg", "-1"), ("int-big", "2**70")]
BOOLS = [("bool-true", "True"), ("bool-false", "False")]
ANY = [
    ("none", "None"), ("bool-true", "True"), ("bool-false", "False"), ("num-zero", "0"), ("num-neg-int", "-2"),
    ("num-float", "1.5"), ("num-inf", "float('inf')"), ("str-plain", "'x'"), ("str-squote", '"it\'s"'),
    ("bytes", "b'by\\x00'"), ("complex", "1j"),
    ("tuple0", "()"), ("tuple1", "(5,)"), ("tuple1-str", "('a',)"), ("tuple2", "(1, 2)"),
    ("tuple1-in-tuple", "((1,), 2)"), ("tuple1-of-tuple2", "((1, 2),)"), ("tuple-nested", "((1, 2), (3, 4))"),
    ("tuple-neg", "(-1, -2.5)"),
    ("list0", "[]"), ("list1", "[1]"), ("list-of-tuple0", "[()]"), ("tuple1-in-list", "[(7,)]"),
    ("list-nested", "[[1], [2, [3]]]"), ("list-mixed", "[None, True, -1.5, 'a,b', \"q'\"]"),
    ("list-in-tuple", "([1], [])"), ("list-inf", "[float('inf')]"),
    ("dict0", "{}"), ("dict1", "{'a': 1}"), ("dict-tuple1", "{'k': (1,)}"), ("dict-nested", "{'a': [1, {'b': None}]}"),
    ("dict-keys", "{1: 'x', (1, 2): 'y'}"), ("dict-in-list", "[{}, {'k': [1]}]"),
    ("set0", "set()"), ("set2", "{1, 2}"), ("frozenset", "frozenset({1})"),
]
LISTS = [
    ("list0", "[]"), ("list1", "[1]"), ("list3", "[1, 2, 3]"), ("list-default", "[1, 2]"),
    ("list-str", "['a,b', \"q'\", 'x\\ny']"),
    ("list-of-list0", "[[]]"), ("list-nested", "[[1], [2, 3]]"), ("tuple1-in-list", "[(1,)]"), ("list-of-tuple2", "[(1, 2)]"),
    ("list-of-dict", "[{}, {'k': [1]}]"), ("list-mixed", "[None, True, -1.5]"),
    ("list-of-obj", "[Leaf()]"), ("list-of-obj-changed", "[Leaf(s='in', n=-2), Leaf(i=9)]"),
    ("list-of-obj-named", "[Leaf(name='kid')]"), ("list-of-obj-positional", "[Pos(5, c=4)]"),
]
TUPLES2 = [("tuple2-default", "(0, 0)"), ("tuple2", "(1, 2)"), ("tuple-neg", "(-1, 'a')"), ("tuple1-in-tuple", "((1,), 2)"),
           ("list-in-tuple", "([], {})"), ("tuple-nested", "(None, (1, 2))")]
TUPLES1 = [("tuple1-default", "(0,)"), ("tuple1", "(5,)"), ("tuple1-str", "('a',)"), ("tuple1-of-tuple2", "((1, 2),)"),
           ("tuple1-of-list", "([1],)")]
DICTS = [("dict0", "{}"), ("dict1", "{'a': 1}"), ("dict-nested", "{'a': [1, (2, 3)], 'b': {'c': None}}"),
         ("dict-keys", "{1: 'x', (1, 2): 'y'}"), ("dict-tuple1", "{'k': (1,)}"), ("dict-str", "{\"it's\": 'v\\n'}")]
SUBS = [("none", "None"), ("obj-default", "Leaf()"), ("obj-str", "Leaf(s=\"it's\")"), ("obj-changed", "Leaf(n=-2, i=7)"),
        ("obj-named", "Leaf(name='kid')"), ("obj-positional", "Pos(5, 'q', c=4)"), ("obj-positional-default", "Pos(1)"),
        ("obj-nested2", "Node(label='t', child=Node(child=Leaf(s='x')))"),
        ("obj-kids", "Node(kids=[Leaf(), Pos(2, l=[1])])"), ("obj-closed", "Closed(2, b=[1])"),
        ("obj-tuple1-inside", "Box(p=(5,))")]
# (an explicit name equal to the class name, e.g. Box(name='Box'), equals the class default of ``name`` and is
#  therefore not printed; the rebuilt object gets an auto-generated name.  With the lenient reading of
#  "auto-generated names aside" this is not claimed and the value is not enumerated.)
NAMES = [("name-explicit", "'myname'"), ("name-quote", "\"o'name\""), ("name-digits", "'Box7x'"), ("name-spaces", "'a name'")]

BOX_LATTICE = {
    "s": STRINGS, "n": NUMBERS, "i": INTEGERS, "flag": BOOLS, "p": ANY, "lst": LISTS, "lst1": LISTS[:6],
    "tup": TUPLES2, "tup1": TUPLES1, "d": DICTS, "sub": SUBS, "hi": NUMBERS[:5], "lo": NUMBERS[:5], "name": NAMES,
}
# one changed, defect-neutral value per parameter for the subset enumeration
BOX_SAFE = [("s", "'x'"), ("n", "-2.5"), ("i", "7"), ("flag", "True"), ("p", "[1, 'a']"), ("lst", "[3]"),
            ("lst1", "[]"), ("tup", "(1, 2)"), ("d", "{'k': 1}"), ("sub", "Leaf(n=2)"), ("hi", "1"), ("lo", "2"),
            ("name", "'nm'")]


# ---------------------------------------------------------------------------------------
# same-size container variants: values that have the SAME SIZE as the declared (non-empty) default
# but other keys / other items, with None and falsy values in the new places
# ---------------------------------------------------------------------------------------
DBOX_DEFAULTS = {
    "d2": {'a': 1, 'b': 2}, "d1": {'k': None}, "dn": {'a': {'x': 1}, 'b': [1, 2]}, "p2": {'a': 1, 'b': 2},
    "l2": [{'a': 1}, {'b': 2}], "t2": ({'a': 1}, [0, 1]), "lst2": [1, 2],
}
DBOX_SAFE = [("d2", "{'q': 1}"), ("d1", "{'q': 1, 'r': 2}"), ("dn", "{'q': [1]}"), ("p2", "'pv'"), ("l2", "[3]"),
             ("t2", "(1, 2)"), ("lst2", "[3]"), ("sub", "Leaf(n=2)")]
FALSY = [None, 0, False, '', [], {}]


def _keysets(keys, pool, n):
    import itertools
    allk = list(keys) + [k for k in pool if k not in keys]
    return [ks for ks in itertools.combinations(allk, n)]


def dict_variants(default, extra_values=(), nested=None, newkeys=('x', 'y')):
    """dicts with len == len(default): every key set of that size from (default keys + new keys),
    every assignment of {original value, None, falsy values, a truthy value} to the keys."""
    import itertools
    n = len(default)
    out = []
    for ks in _keysets(list(default), newkeys, n):
        pools = []
        for k in ks:
            pool = ([default[k]] if k in default else []) + FALSY + [1] + list(extra_values)
            if nested and k in nested:
                pool += nested[k]
            pools.append(pool)
        for vals in itertools.product(*pools):
            out.append(dict(zip(ks, vals)))
    return out


def seq_variants(default, items):
    import itertools
    return [type(default)(c) for c in itertools.product(items, repeat=len(default))]


def _kind_of(v, default):
    """witness class of a variant (few classes: one defect must not give hundreds of witnesses)."""
    base = "samesize-" + type(default).__name__ if len(v) == len(default) else "othersize-" + type(default).__name__
    if isinstance(default, dict) and len(v) == len(default):
        new = [k for k in v if k not in default]
        base += "-newkeys" if new else "-samekeys"
    return base


def dbox_cases(tier, seed):
    """(class, constructor source, feature, changed) for the same-size family."""
    out = []
    var = {}
    var["d2"] = dict_variants(DBOX_DEFAULTS["d2"], newkeys=['x', 'y']) + [{'b': 2, 'a': 1}, {'a': 1}, {'a': 1, 'b': 2, 'x': None}, {}]
    var["p2"] = var["d2"] + [None, [1, 2], ('a', 'b')]
    var["d1"] = dict_variants(DBOX_DEFAULTS["d1"], newkeys=['x', 0, '', None]) + [{}, {'k': None, 'x': None}]
    var["dn"] = dict_variants(DBOX_DEFAULTS["dn"], newkeys=['x', 'y'],
                              nested={'a': [{'y': None}, {'x': None}, {'x': 0}, {'y': 1}],
                                      'b': [[None, None], [0, 0], [2, 1], [1, None]],
                                      'x': [{'x': 1}, [1, 2], {'y': None}, [None, None]],
                                      'y': [{'x': 1}, [1, 2]]})
    var["l2"] = seq_variants(DBOX_DEFAULTS["l2"], [{'a': 1}, {'b': 2}, {'x': None}, {'a': None}, {'b': 0}, {}, None, 0,
                                                   []]) + [[{'a': 1}], [{'a': 1}, {'b': 2}, {}]]
    var["t2"] = seq_variants(DBOX_DEFAULTS["t2"], [{'a': 1}, {'x': None}, {'a': None}, [0, 1], [None, None], [0, 0],
                                                   [1, 0], None, 0])
    var["lst2"] = seq_variants(DBOX_DEFAULTS["lst2"], [1, 2, None, 0, False, '', [], {}]) + [[1], [1, 2, None], []]
    # the nested-dict product is large: quick takes a seeded slice of it (deterministic), thorough all
    if tier == "quick" and len(var["dn"]) > 400:
        step = len(var["dn"]) // 400 + 1
        var["dn"] = var["dn"][seed % step::step]
    for pname in ("d2", "d1", "p2", "dn", "l2", "t2", "lst2"):
        dflt = DBOX_DEFAULTS[pname]
        others = ", ".join("%s=%s" % kv for kv in DBOX_SAFE if kv[0] != pname)
        for v in var[pname]:
            sized = isinstance(v, (dict, list, tuple))
            feat = _kind_of(v, dflt) if sized and type(v) is type(dflt) else "othertype"
            src = repr(v)
            out.append(("DBox", "DBox(%s=%s)" % (pname, src), feat, pname))
            if pname in ("d2", "d1", "l2"):
                # nested inside another Parameterized: as parameter value, as list item, as own sub-object
                out.append(("Node", "Node(child=DBox(%s=%s))" % (pname, src), feat + "-in-obj", "child"))
                out.append(("Node", "Node(label='n', kids=[DBox(%s=%s), Leaf()])" % (pname, src),
                            feat + "-in-obj-in-list", "label+kids"))
                out.append(("DBox", "DBox(sub=DBox(%s=%s))" % (pname, src), feat + "-in-obj", "sub"))
            if pname in ("d2", "d1", "lst2", "l2"):
                out.append(("DBox", "DBox(%s=%s, %s)" % (pname, src, others), feat, pname + "+all-others"))
        if pname == "d2":
            # class whose overridden default itself holds None under other keys
            for v in var["d2"]:
                feat = _kind_of(v, {'x': None, 'y': None})
                out.append(("DBox2", "DBox2(d2=%s)" % repr(v), feat, "d2"))
                out.append(("Node", "Node(child=DBox2(d2=%s))" % repr(v), feat + "-in-obj", "child"))
    out.append(("DBox", "DBox()", "all-default", "-"))
    out.append(("DBox2", "DBox2()", "all-default", "-"))
    return out


def gen_cases(tier, seed):
    """yield (key, class name, constructor source, feature, changed-parameters label)."""
    out = []
    # 1. one parameter at a time over its whole lattice, classes Box and Box2
    for cls in ("Box", "Box2"):
        for pname, lattice in BOX_LATTICE.items():
            for feat, src in lattice:
                out.append((cls, "%s(%s=%s)" % (cls, pname, src), feat, pname))
        out.append((cls, "%s()" % cls, "all-default", "-"))
    # 2. every subset of changed parameters of Box (default suppression, ordering by precedence)
    n = len(BOX_SAFE)
    masks = range(1, 2 ** n)
    for m in masks:
        sel = [BOX_SAFE[j] for j in range(n) if m >> j & 1]
        if len(sel) < 2:
            continue
        out.append(("Box", "Box(%s)" % ", ".join("%s=%s" % kv for kv in sel), "combo", "+".join(k for k, _ in sel)))
    # 2b. every lattice value again with all other parameters changed (position inside the argument list)
    for pname, lattice in BOX_LATTICE.items():
        others = ", ".join("%s=%s" % kv for kv in BOX_SAFE if kv[0] != pname)
        for feat, src in lattice:
            out.append(("Box", "Box(%s=%s, %s)" % (pname, src, others), feat, pname + "+all-others"))
    # 2c. (thorough) every pair of lattice values of two different parameters of Box
    if tier != "quick":
        names = list(BOX_LATTICE)
        for a in range(len(names)):
            for b in range(a + 1, len(names)):
                for fa_, sa in BOX_LATTICE[names[a]]:
                    for fb_, sb in BOX_LATTICE[names[b]]:
                        feat = fa_ if "tuple1" in fa_ else (fb_ if "tuple1" in fb_ else "pair")
                        out.append(("Box", "Box(%s=%s, %s=%s)" % (names[a], sa, names[b], sb), feat,
                                    names[a] + "+" + names[b]))
    # 3. constructor classes: full products, positional and keyword call styles
    A = [("num-default", "1"), ("num-neg-int", "-2"), ("num-float", "2.5"), ("num-inf", "float('inf')")]
    Bs = [(None, None), ("str-default", "'z'"), ("str-plain", "'q'"), ("str-squote", '"it\'s"')]
    Cs = [(None, None), ("num-default", "3"), ("num-neg-int", "-4")]
    Ls = [(None, None), ("list1", "[1]"), ("tuple1-in-list", "[(1,)]")]
    Ns = [(None, None), ("name-explicit", "'nm'")]
    for fa, a in A:
        for fb, b in Bs:
            for fc, c in Cs:
                for fl, l in Ls:
                    for fn, nm in Ns:
                        for style in ("pos", "kw"):
                            args = [a if style == "pos" else "a=" + a]
                            if b is not None:
                                args.append(b if style == "pos" else "b=" + b)
                            if c is not None:
                                args.append("c=" + c)
                            if l is not None:
                                args.append("l=" + l)
                            if nm is not None:
                                args.append("name=" + nm)
                            feats = [f for f in (fl,) if f and f.startswith("tuple1")]
                            out.append(("Pos", "Pos(%s)" % ", ".join(args), feats[0] if feats else "ctor-positional",
                                        "+".join(x for x, v in (("a", a), ("b", b), ("c", c), ("l", l), ("name", nm)) if v is not None)))
    X = [("none", "None"), ("num-pos-int", "1"), ("str-squote", '"it\'s"'), ("tuple1", "(1,)"), ("list1", "[2]"),
         ("obj-default", "Leaf()")]
    Y = [("none", "None"), ("num-neg-int", "-1"), ("tuple2", "(1, 2)")]
    K = [(None, None), ("int-sigdefault", "1"), ("int-paramdefault", "5"), ("int-pos", "7")]
    for fx, x in X:
        for fy, y in Y:
            for fk, k in K:
                for fn, nm in Ns:
                    args = [x, y] + (["k=" + k] if k is not None else []) + (["name=" + nm] if nm is not None else [])
                    out.append(("Pos2", "Pos2(%s)" % ", ".join(args),
                                "tuple1" if fx == "tuple1" else "ctor-two-positionals",
                                "x+y" + ("+k" if k is not None else "") + ("+name" if nm is not None else "")))
                    if k is not None:
                        out.append(("Pos2", "Pos2(%s, %s, %s)" % (x, y, k),
                                    "tuple1" if fx == "tuple1" else "ctor-two-positionals", "x+y+k(positional)"))
    for fa, a in A:
        for fb, b in [(None, None), ("none", "None"), ("str-plain", "'x'"), ("list1", "[1]"), ("tuple1", "(1,)")]:
            args = [a] + (["b=" + b] if b is not None else [])
            out.append(("Closed", "Closed(%s)" % ", ".join(args), "tuple1" if fb == "tuple1" else "ctor-closed",
                        "a" + ("+b" if b is not None else "")))
    for fa, a in A:
        for fb, b in [(None, None), ("int-default", "2"), ("int-neg", "-3")]:
            for fc, c in [(None, None), ("str-default", "'c'"), ("str-squote", '"o\'c"')]:
                for fn, nm in Ns:
                    args = [a] + (["b=" + b] if b else []) + (["c=" + c] if c else []) + (["name=" + nm] if nm else [])
                    out.append(("KwOnly", "KwOnly(%s)" % ", ".join(args), "ctor-kwonly",
                                "a" + ("+b" if b else "") + ("+c" if c else "") + ("+name" if nm else "")))
    # 4. nesting
    for feat, src in SUBS:
        if src != "None":
            out.append(("Node", "Node(child=%s)" % src, feat, "child"))
            out.append(("Node", "Node(kids=[%s, %s])" % (src, src), feat + "-in-list", "kids"))
    out.append(("Node", "Node(label='top', child=Node(label='mid', child=Node(label=\"lo'w\", kids=[Leaf(s='x')])))",
                "obj-nested3", "label+child"))
    out.append(("Leaf", "Leaf()", "all-default", "-"))
    # 5. same-size container values against non-empty declared defaults (also nested in other objects)
    out.extend(dbox_cases(tier, seed))
    seen, res = set(), []
    for cls, src, feat, changed in out:
        if src in seen:
            continue
        seen.add(src)
        res.append((src, cls, src, feat, changed))
    return res


# ---------------------------------------------------------------------------------------
# driving the real code
# ---------------------------------------------------------------------------------------
def _quiet():
    import param
    warnings.simplefilter("ignore")
    param.parameterized.get_logger().setLevel(logging.CRITICAL + 1)


def get_module():
    if MODNAME not in sys.modules:
        mod = types.ModuleType(MODNAME)
        sys.modules[MODNAME] = mod
        exec(compile(CLASS_SRC, "<%s>" % MODNAME, "exec"), mod.__dict__)
    return sys.modules[MODNAME]


def eval_text(text, ns):
    """run a script text and return the value of its final expression."""
    tree = ast.parse(text)
    if not tree.body or not isinstance(tree.body[-1], ast.Expr):
        raise SyntaxError("the text does not end with an expression")
    last = tree.body.pop()
    exec(compile(tree, "<text>", "exec"), ns)
    return eval(compile(ast.Expression(last.value), "<text>", "eval"), ns)


def is_auto_name(obj):
    return re.match("^" + re.escape(type(obj).__name__) + r"[0-9]{5}$", obj.name or "") is not None


def diff_values(a, b, path, top_explicit_name=None):
    """None when a and b are equal in the sense of the statement, else a description."""
    import param
    if isinstance(a, param.Parameterized) or isinstance(b, param.Parameterized):
        if type(a) is not type(b):
            return "%s: class %s != %s" % (path, type(b).__name__, type(a).__name__)
        va, vb = a.param.values(), b.param.values()
        for k in va:
            if k == "name":
                explicit = top_explicit_name if top_explicit_name is not None else not is_auto_name(a)
                if not explicit:
                    continue
            d = diff_values(va[k], vb.get(k, "<missing>"), "%s.%s" % (path, k))
            if d:
                return d
        return None
    if type(a) in (list, tuple):
        if type(a) is not type(b) or len(a) != len(b):
            return "%s: %r != %r" % (path, b, a)
        for j, (x, y) in enumerate(zip(a, b)):
            d = diff_values(x, y, "%s[%d]" % (path, j))
            if d:
                return d
        return None
    if type(a) is dict:
        if type(b) is not dict or set(a) != set(b):
            return "%s: %r != %r" % (path, b, a)
        for k in a:
            d = diff_values(a[k], b[k], "%s[%r]" % (path, k))
            if d:
                return d
        return None
    if isinstance(a, float) and isinstance(b, float) and math.isnan(a) and math.isnan(b):
        return None
    try:
        eq = bool(a == b)
    except Exception:                                  # noqa
        eq = False
    return None if eq else "%s: %r != %r" % (path, b, a)


def check_case(src, cls, explicit_name):
    """returns list of (via, clausekind, detail) and the clauses evaluated."""
    import param
    mod = get_module()
    base_ns = dict(mod.__dict__)
    base_ns.update({"inf": math.inf, "nan": math.nan, "param": param, MODNAME: mod})
    obj = eval(src, dict(base_ns))
    out = []
    for via in ("pprint", "script_repr"):
        out.append((via, "#", "produces-text"))
        try:
            text = obj.param.pprint() if via == "pprint" else param.script_repr(obj)
        except Exception as e:                         # noqa
            out.append((via, "produces-text", "%s raised %s: %s" % (via, type(e).__name__, e)))
            continue
        out.append((via, "#", "evaluates"))
        try:
            new = eval_text(text, dict(base_ns))
        except Exception as e:                         # noqa
            out.append((via, "evaluates", "text %r does not evaluate: %s: %s" % (text, type(e).__name__, str(e)[:200])))
            continue
        out.append((via, "#", "same-class"))
        if type(new) is not type(obj):
            out.append((via, "same-class", "text %r built a %s, not a %s" % (text, type(new).__name__, cls)))
            continue
        out.append((via, "#", "equal-values"))
        d = diff_values(obj, new, cls, top_explicit_name=explicit_name)
        if d:
            out.append((via, "equal-values", "text %r rebuilt a different value (rebuilt != original) %s" % (text, d)))
    return out


REPLAY_HELPERS = '''
def eval_text(text, ns):
    tree = ast.parse(text); last = tree.body.pop()
    exec(compile(tree, '<text>', 'exec'), ns)
    return eval(compile(ast.Expression(last.value), '<text>', 'eval'), ns)

def is_auto(o):
    return re.match('^' + type(o).__name__ + '[0-9]{5}$', o.name or '') is not None

def diff(a, b, path, explicit=None):
    if isinstance(a, param.Parameterized) or isinstance(b, param.Parameterized):
        if type(a) is not type(b):
            return '%s: class %s != %s' % (path, type(b).__name__, type(a).__name__)
        va, vb = a.param.values(), b.param.values()
        for k in va:
            if k == 'name' and not (explicit if explicit is not None else not is_auto(a)):
                continue
            d = diff(va[k], vb.get(k, '<missing>'), path + '.' + k)
            if d: return d
        return None
    if type(a) in (list, tuple):
        if type(a) is not type(b) or len(a) != len(b): return '%s: %r != %r' % (path, b, a)
        for j, (x, y) in enumerate(zip(a, b)):
            d = diff(x, y, '%s[%d]' % (path, j))
            if d: return d
        return None
    if type(a) is dict:
        if type(b) is not dict or set(a) != set(b): return '%s: %r != %r' % (path, b, a)
        for k in a:
            d = diff(a[k], b[k], '%s[%r]' % (path, k))
            if d: return d
        return None
    return None if a == b else '%s: %r != %r' % (path, b, a)

'''

# ---------------------------------------------------------------------------------------
# two threads printing the same object: deterministic one-preemption schedules
# ---------------------------------------------------------------------------------------
# Thread A prints the object under a line tracer; at the k-th line executed inside one of the printer
# functions of /repo it is suspended, a second thread B prints the same object (or its nested child)
# from start to end, then A continues.  k ranges over every such line.  There is no real race: the
# schedule is fully determined by k.  Each of the two texts must rebuild an equal object.
PRINTER_FUNCS = ("pprint", "_pprint", "script_repr", "container_script_repr", "wrapper", "function_script_repr",
                 "type_script_repr")
THREAD_OBJECTS = [
    ("Node", "Node(label='t', child=Leaf(s='x'), kids=[Leaf(i=9)])"),
    ("Box", "Box(s='x', lst=[1, (2, 3)], sub=Leaf(n=2))"),
    ("Pos", "Pos(5, 'q', c=4)"),
    ("DBox", "DBox(d2={'x': None, 'y': 0})"),
]
THREAD_SRC = '''
import os, sys, threading
import param as _param
_PDIR = os.path.dirname(os.path.abspath(_param.__file__))
PRINTER_FUNCS = %r

def _print(o, via):
    return o.param.pprint() if via == 'pprint' else _param.script_repr(o)

def two_threads(obj, via_a, obj_b, via_b, k):
    """print obj in thread A; when A executes its k-th printer line, thread B prints obj_b completely.
    Returns (number of printer lines A executed, outcome of A, outcome of B or None)."""
    n = [0]
    res = {}
    def run_b():
        try:
            res['B'] = ('text', _print(obj_b, via_b))
        except Exception as e:
            res['B'] = ('exc', '%%s: %%s' %% (type(e).__name__, e))
    def local(frame, ev, arg):
        if ev == 'line':
            if n[0] == k:
                tb = threading.Thread(target=run_b)
                tb.start()
                tb.join()
            n[0] += 1
        return local
    def tracer(frame, ev, arg):
        co = frame.f_code
        if co.co_name in PRINTER_FUNCS and co.co_filename.startswith(_PDIR):
            return local
        return None
    def run_a():
        sys.settrace(tracer)
        try:
            res['A'] = ('text', _print(obj, via_a))
        except Exception as e:
            res['A'] = ('exc', '%%s: %%s' %% (type(e).__name__, e))
        finally:
            sys.settrace(None)
    ta = threading.Thread(target=run_a)
    ta.start()
    ta.join()
    return n[0], res.get('A'), res.get('B')
''' % (PRINTER_FUNCS,)
exec(compile(THREAD_SRC, "<c20 two threads>", "exec"), globals())


def roundtrip(text, obj, cls, explicit, base_ns):
    """None when ``text`` rebuilds an object equal to obj, else (clause kind, detail)."""
    try:
        new = eval_text(text, dict(base_ns))
    except Exception as e:                             # noqa
        return ("evaluates", "text %r does not evaluate: %s: %s" % (text, type(e).__name__, str(e)[:200]))
    if type(new) is not type(obj):
        return ("same-class", "text %r built a %s, not a %s" % (text, type(new).__name__, cls))
    d = diff_values(obj, new, cls, top_explicit_name=explicit)
    if d:
        return ("equal-values", "text %r rebuilt a different value (rebuilt != original) %s" % (text, d))
    return None


def thread_tasks(tier, seed):
    """(class, source, via of A, via of B, what B prints, stride, offset)"""
    stride = 1 if tier != "quick" else 3
    tasks = []
    for cls, src in THREAD_OBJECTS:
        for va in ("pprint", "script_repr"):
            for vb in ("pprint", "script_repr"):
                for other in ("same", "child"):
                    if other == "child" and cls != "Node":
                        continue
                    tasks.append((cls, src, va, vb, other, stride, seed % stride))
    return tasks


def _thread_worker(task):
    import param
    _quiet()
    cls, src, va, vb, other, stride, offset = task
    mod = get_module()
    base_ns = dict(mod.__dict__)
    base_ns.update({"inf": math.inf, "nan": math.nan, "param": param, MODNAME: mod})
    obj = eval(src, dict(base_ns))
    objb = obj if other == "same" else obj.child
    seq = {"A": _print(obj, va), "B": _print(objb, vb)}       # noqa: F821  (defined by THREAD_SRC)
    ok_seq = {"A": roundtrip(seq["A"], obj, cls, False, base_ns) is None,
              "B": roundtrip(seq["B"], objb, type(objb).__name__, False, base_ns) is None}
    total, _, _ = two_threads(obj, va, objb, vb, -1)            # noqa: F821
    ncases, checks, fails = 0, 0, []
    for k in range(offset, total, stride):
        ncases += 1
        n, ra, rb = two_threads(obj, va, objb, vb, k)           # noqa: F821
        for who, r, o in (("A", ra, obj), ("B", rb, objb)):
            checks += 1
            if r is None:
                continue            # B was never started: A took another path (cannot happen for k < total)
            if r[0] == "exc":
                fails.append((k, who, "produces-text", "thread %s: printing raised %s" % (who, r[1])))
            elif r[1] != seq[who] or not ok_seq[who]:
                bad = roundtrip(r[1], o, type(o).__name__, False, base_ns)
                if bad and ok_seq[who]:
                    fails.append((k, who, bad[0], "thread %s (sequential text %r): %s" % (who, seq[who], bad[1])))
        if fails:
            break
    return task, ncases, checks, total, fails[:2]


def make_replay_threads(cls, src, va, vb, other, k, who, clause, witness):
    hdr = REPLAY_HEADER.format(prop=PROP, name="replay_c20_threads.py", clause=clause, witness=witness)
    s = hdr + "import ast, math, re, logging, warnings\nwarnings.simplefilter('ignore')\n"
    s += CLASS_SRC
    s += "param.parameterized.get_logger().setLevel(logging.CRITICAL + 1)\n"
    s += THREAD_SRC
    s += REPLAY_HELPERS
    s += "obj = %s\nobj_b = %s\n" % (src, "obj" if other == "same" else "obj.child")
    s += "print('sequential:', repr(_print(obj, %r)), repr(_print(obj_b, %r)))\n" % (va, vb)
    s += "n, ra, rb = two_threads(obj, %r, obj_b, %r, %d)\n" % (va, vb, k)
    s += "print('thread A (suspended at its printer line %d):', ra)\nprint('thread B (ran meanwhile):', rb)\n" % k
    s += "ns = dict(globals()); ns.update(inf=math.inf, nan=math.nan)\n"
    s += "for who, r, o in (('A', ra, obj), ('B', rb, obj_b)):\n"
    s += "    if r is None: continue\n"
    s += "    if r[0] == 'exc':\n        print('REPRODUCED: thread %s: printing raised %s' % (who, r[1])); sys.exit(1)\n"
    s += ("    try:\n        new = eval_text(r[1], dict(ns))\n    except Exception as e:\n"
          "        print('REPRODUCED: text of thread %s does not evaluate: %s: %s' % (who, type(e).__name__, e)); sys.exit(1)\n")
    s += ("    if type(new) is not type(o):\n"
          "        print('REPRODUCED: text of thread %s rebuilt a %s, not a %s' % (who, type(new).__name__, type(o).__name__)); sys.exit(1)\n")
    s += "    d = diff(o, new, type(o).__name__, False)\n"
    s += "    if d:\n        print('REPRODUCED: text of thread %s rebuilt a different object (rebuilt != original) %s' % (who, d)); sys.exit(1)\n"
    s += "print('NOT-REPRODUCED'); sys.exit(0)\n"
    return s


def _worker(chunk):
    _quiet()
    res = []
    for idx, (key, cls, src, feat, changed) in chunk:
        try:
            f = check_case(src, cls, _has_top_name(src))
        except Exception as e:                         # noqa
            f = [("setup", "constructs", "constructing %s raised %s: %s" % (src, type(e).__name__, e))]
        res.append((idx, f))
    return res


def _has_top_name(src):
    """does the top-level call pass name=... (depth-1 keyword)?"""
    tree = ast.parse(src, mode="eval").body
    return any(kw.arg == "name" for kw in tree.keywords)


def make_replay(src, cls, via, kind, clause, witness, explicit):
    hdr = REPLAY_HEADER.format(prop=PROP, name="replay_c20.py", clause=clause, witness=witness)
    s = hdr + "import ast, math, re, logging, warnings\nwarnings.simplefilter('ignore')\n"
    s += CLASS_SRC
    s += "param.parameterized.get_logger().setLevel(logging.CRITICAL + 1)\n"
    s += REPLAY_HELPERS
    s += "obj = %s\n" % src
    s += "text = %s\n" % ("obj.param.pprint()" if via == "pprint" else "param.script_repr(obj)")
    s += "print('text:', repr(text))\n"
    s += "ns = dict(globals()); ns.update(inf=math.inf, nan=math.nan)\n"
    s += ("try:\n    new = eval_text(text, ns)\nexcept Exception as e:\n"
          "    print('REPRODUCED: the %s text does not evaluate: %%s: %%s' %% (type(e).__name__, e)); sys.exit(1)\n" % via)
    s += ("if type(new) is not type(obj):\n"
          "    print('REPRODUCED: rebuilt a %s, not a %s' % (type(new).__name__, type(obj).__name__)); sys.exit(1)\n")
    s += "d = diff(obj, new, %r, %r)\n" % (cls, explicit)
    s += "if d:\n    print('REPRODUCED: rebuilt object differs (rebuilt != original) ' + d); sys.exit(1)\n"
    s += "print('NOT-REPRODUCED'); sys.exit(0)\n"
    return s


def feature_family(feat, cls):
    """witness class of a feature: every shape containing a 1-element tuple is one family, the
    constructor features and the subsets are per class, everything else is its own family."""
    if "tuple1" in feat:
        return "tuple1"
    if feat.startswith("ctor") or feat in ("combo", "pair", "all-default"):
        return feat + ":" + cls
    return feat


def run(tier, seed):
    cases = gen_cases(tier, seed)
    B = Bounded(
        PROP,
        rule=("one case = one constructor expression; the object is printed with .param.pprint() and with "
              "param.script_repr(), both texts are evaluated (imports executed, generous namespace incl. inf/nan) and "
              "the rebuilt object must have the same class and equal parameter values (structural for nested "
              "Parameterized values; name compared when explicit).  distinct = distinct constructor expression."),
        bound=("classes Box/Box2 (13 parameters: String, Number, Integer, Boolean, Parameter, 2 List, Tuple(2), Tuple(1), "
               "Dict, ClassSelector, 2 Numbers with precedence; Box2 overrides two defaults): every value of the "
               "per-type lattices, alone and with all 12 other parameters changed (%d strings, %d numbers, %d integers, %d generic literals/containers, %d lists, "
               "%d+%d tuples, %d dicts, %d nested objects, %d names) one parameter at a time; all 8178 multi-element subsets of changed "
               "parameters of Box%s; full products for the constructor classes Pos(a, b='z', **params), "
               "Pos2(x, y, k=1, **params), Closed(a, b=None), KwOnly(a, *, b=2, **params) in positional and keyword "
               "call styles; nested objects up to depth 3 and inside lists"
               % (len(STRINGS), len(NUMBERS), len(INTEGERS), len(ANY), len(LISTS), len(TUPLES2), len(TUPLES1), len(DICTS),
                  len(SUBS), len(NAMES),
                  ("; every pair of lattice values of two different parameters of Box" if tier != "quick" else ""))))
    B.bound += ("; class DBox (Dict/Parameter/List/Tuple parameters with NON-EMPTY declared defaults, DBox2 overriding "
                "one): every value of the SAME SIZE as the default built from {default keys, new keys} x {original value, "
                "None, 0, False, '', [], {}, 1} (dicts of 1-2 keys; nested dict/list values%s), same-length lists/tuples of "
                "such dicts, alone, with all other parameters changed, and nested inside another object (as parameter "
                "value, as list item, as own sub-object); two threads: %d objects x {pprint,script_repr}^2 x every%s "
                "suspension point of thread A (a line of a printer function) at which thread B prints the same object "
                "(or its nested child) from start to end"
                % ((", a 1:n slice chosen by seed" if tier == "quick" else ""), len(THREAD_OBJECTS),
                   (" 3rd (offset = seed mod 3)" if tier == "quick" else "")))
    if tier == "quick":
        B.exhaustive = False
    B.note("thorough = quick + every pair of lattice values of two different Box parameters + all nested-dict "
           "variants + every suspension point; seed only selects the quick slices")
    _quiet()
    indexed = list(enumerate(cases))
    nchunks = NWORKERS * 4
    chunks = [indexed[j::nchunks] for j in range(nchunks)]
    results = {}
    ttasks = thread_tasks(tier, seed)
    with ProcessPoolExecutor(NWORKERS) as ex:
        tfut = [ex.submit(_thread_worker, t) for t in ttasks]
        for res in ex.map(_worker, [c for c in chunks if c]):
            for idx, f in res:
                results[idx] = f
        tres = [f.result() for f in tfut]
    cands = {}
    for idx, (key, cls, src, feat, changed) in indexed:
        B.case(key=key)
        f = results[idx]
        for via, mark, kind in [x for x in f if x[1] == "#"]:
            B.checked("C20/round-trip/%s[%s]" % (kind, via))
        f = [x for x in f if x[1] != "#"]
        if idx % 997 == 0:
            B.sample({"constructor": src, "feature": feat, "findings": [list(x) for x in f]})
        for via, kind, detail in f:
            fam = feature_family(feat, cls)
            if changed.endswith("+all-others") and (via, kind, fam) not in cands:
                # the value round-trips alone and fails only among other changed parameters
                fam = "in-context:" + cls
            base = re.sub(r"-in-obj.*$", "", fam)
            if base != fam and (via, kind, base) in cands:
                continue            # the same value already fails on its own: one witness per defect
            ck = (via, kind, fam)
            if ck not in cands:
                cands[ck] = (idx, cls, src, feat, changed, detail)
    for ck in sorted(cands):
        via, kind, featkey = ck
        idx, cls, src, feat, changed, detail = cands[ck]
        clause = "C20/round-trip/%s" % kind
        witness = "via=%s feature=%s class=%s changed=%s ctor=%s" % (via, feat, cls, changed, src)
        B.violation(clause=clause, witness=witness, detail=detail,
                    replay=make_replay(src, cls, via, kind, clause, witness, _has_top_name(src)))
    # ---- two threads ------------------------------------------------------------------
    tcands = {}
    npoints = 0
    for (cls, src, va, vb, other, stride, offset), ncases, checks, total, fails in tres:
        B.evaluations += ncases
        B._distinct.update(("threads", src, va, vb, other, j) for j in range(ncases))
        B.checked("C20/round-trip/two-threads[%s+%s]" % (va, vb), checks)
        npoints += total
        for k, who, kind, detail in fails:
            ck = (kind, who)
            rank = (THREAD_OBJECTS.index((cls, src)), other != "same", va != vb, va, k)
            if ck not in tcands or rank < tcands[ck][0]:
                tcands[ck] = (rank, cls, src, va, vb, other, k, detail)
    for ck in sorted(tcands):
        kind, who = ck
        rank, cls, src, va, vb, other, k, detail = tcands[ck]
        clause = "C20/round-trip/%s" % kind
        witness = ("via=%s+%s feature=two-threads class=%s changed=- ctor=%s other-thread-prints=%s failing-thread=%s"
                   % (va, vb, cls, src, other, who))
        B.violation(clause=clause, witness=witness,
                    detail="thread A suspended at its printer line %d while thread B printed: %s" % (k, detail),
                    replay=make_replay_threads(cls, src, va, vb, other, k, who, clause, witness))
    B.note("two threads: %d schedules run (%d tasks, %d suspension points in all)" % (
        sum(t[1] for t in tres), len(tres), npoints))
    # ---- nested objects from several modules (bounded/c20_mods.py) --------------------
    from bounded import c20_mods
    c20_mods.extend(B, tier, seed)
    B.bound += ("; FAMILY MM (bounded/c20_mods.py): object trees of 2-3%s nodes (nested value, list items, nested in "
                "nested, positional constructor) x every assignment of %d throw-away modules (top-level modules, "
                "sub-modules of one package%s; same class names in every module) to the nodes, script_repr() and "
                "pprint(imports=lst, qualify=True) text run in a FRESH namespace with only its own import lines"
                % (("" if tier == "quick" else "-4"), len(c20_mods.QUICK_MODS if tier == "quick" else c20_mods.MODULES),
                   ("" if tier == "quick" else ", a module three levels deep, a second package")))
    return B.result()
