"""Family MM of the bounded layer of C20: nested Parameterized values whose classes live in SEVERAL modules.

What is driven
--------------
Throw-away modules (``types.ModuleType`` entered in ``sys.modules``: two top-level modules, two sub-modules of
one package, thorough: a module three levels deep and a second package) that each define the same three classes
(``Leaf``: String + Number; ``Hold``: Integer + a Parameterized-valued parameter + a List of Parameterized;
``Pos``: custom constructor ``Pos(a, child=None, **params)``).  Every shape of a small set of object trees (an
object holding one nested object, two list items, a nested object that holds another one, a nested object next
to a list item, a positional-constructor object holding one, a nested object holding a list item; thorough: four
nodes) is built for EVERY assignment of the modules to its nodes and printed with

    param.script_repr(obj)                                   (text = import lines + expression)
    obj.param.pprint(imports=lst, qualify=True)              (text = expression, import lines in ``lst``)

Oracle (from the statement)
---------------------------
The text is run the way a saved script is: a FRESH namespace holding nothing but what the import lines the text
itself carries bind (no class, no module is pre-seeded); the last expression must evaluate without raising to an
object of the same class (the identical class object: several modules define a class of the same name) with
equal parameter values -- structurally for nested objects (same class, equal values), auto-generated names aside.
"""
import sys

from bounded._api import REPLAY_HEADER

CORE_SRC = r'''
import ast, logging, types, warnings
import param

CLASS_SRC = """
import param

class Leaf(param.Parameterized):
    s = param.String(default='x')
    n = param.Number(default=1.0)

class Hold(param.Parameterized):
    i = param.Integer(default=0)
    child = param.Parameter(default=None)
    kids = param.List(default=[])

class Pos(param.Parameterized):
    a = param.Integer(default=0)
    child = param.Parameter(default=None)
    def __init__(self, a, child=None, **params):
        super().__init__(a=a, child=child, **params)
"""

MODULES = {"a": "c20mm_a", "b": "c20mm_b", "pi": "c20mm_pkg.inner", "po": "c20mm_pkg.other",
           "d3": "c20mm_q.r.deep", "p2": "c20mm_pkg2.sub"}
LEAF_VALUES = {"v0": {}, "v1": {"s": "it's \"q\"\n", "n": -2.5}}


def install_modules():
    """enter the throw-away modules (and their parent packages) in sys.modules"""
    for full in MODULES.values():
        bits = full.split(".")
        for j in range(1, len(bits) + 1):
            name = ".".join(bits[:j])
            if name not in sys.modules:
                m = types.ModuleType(name)
                if j < len(bits):
                    m.__path__ = []
                sys.modules[name] = m
                if j > 1:
                    setattr(sys.modules[".".join(bits[:j - 1])], bits[j - 1], m)
        mod = sys.modules[full]
        if not hasattr(mod, "Leaf"):
            exec(compile(CLASS_SRC, "<%s>" % full, "exec"), mod.__dict__)


# a shape: nested (class name, node number, {slot: shape | [shapes] | literal})
SHAPES = {
    "hold(child=leaf)": ("Hold", 0, {"child": ("Leaf", 1, {})}),
    "hold(kids=[leaf,leaf])": ("Hold", 0, {"kids": [("Leaf", 1, {}), ("Leaf", 2, {})]}),
    "hold(child=hold(child=leaf))": ("Hold", 0, {"i": 3, "child": ("Hold", 1, {"child": ("Leaf", 2, {})})}),
    "hold(child=leaf,kids=[leaf])": ("Hold", 0, {"child": ("Leaf", 1, {}), "kids": [("Leaf", 2, {})]}),
    "pos(1,child=leaf)": ("Pos", 0, {"a": 1, "child": ("Leaf", 1, {})}),
    "hold(child=hold(kids=[leaf]))": ("Hold", 0, {"child": ("Hold", 1, {"i": -1, "kids": [("Leaf", 2, {})]})}),
    "hold(child=pos(2,child=leaf))": ("Hold", 0, {"child": ("Pos", 1, {"a": 2, "child": ("Leaf", 2, {})})}),
    "hold(child=hold(child=hold(child=leaf)))":
        ("Hold", 0, {"child": ("Hold", 1, {"child": ("Hold", 2, {"i": 5, "child": ("Leaf", 3, {})})})}),
    "hold(kids=[hold(child=leaf),pos(0,child=leaf)])":
        ("Hold", 0, {"kids": [("Hold", 1, {"child": ("Leaf", 2, {})}), ("Pos", 2, {"a": 0, "child": ("Leaf", 3, {})})]}),
}


def count_nodes(shape):
    seen = set()

    def rec(s):
        seen.add(s[1])
        for v in s[2].values():
            for x in (v if isinstance(v, list) else [v]):
                if isinstance(x, tuple):
                    rec(x)
    rec(shape)
    return max(seen) + 1


def build(shape, mods, leafv):
    cname, idx, slots = shape
    cls = getattr(sys.modules[MODULES[mods[idx]]], cname)
    kw = {}
    for k, v in slots.items():
        if isinstance(v, tuple):
            kw[k] = build(v, mods, leafv)
        elif isinstance(v, list):
            kw[k] = [build(x, mods, leafv) for x in v]
        else:
            kw[k] = v
    if cname == "Leaf":
        kw.update(LEAF_VALUES[leafv])
    if cname == "Pos":
        return cls(kw.pop("a"), **kw)
    return cls(**kw)


def ctor_text(shape, mods):
    cname, idx, slots = shape
    parts = []
    for k, v in slots.items():
        if isinstance(v, tuple):
            parts.append("%s=%s" % (k, ctor_text(v, mods)))
        elif isinstance(v, list):
            parts.append("%s=[%s]" % (k, ",".join(ctor_text(x, mods) for x in v)))
        else:
            parts.append("%s=%r" % (k, v))
    return "%s.%s(%s)" % (MODULES[mods[idx]], cname, ",".join(parts))


def is_auto(o):
    n, c = o.name, type(o).__name__
    return isinstance(n, str) and n.startswith(c) and n[len(c):].isdigit() and len(n) - len(c) >= 5


def diff(a, b, path="obj"):
    """differences between the original and the rebuilt value (structural for nested Parameterized values)"""
    if isinstance(a, param.Parameterized) or isinstance(b, param.Parameterized):
        if type(a) is not type(b):
            return ["%s: class %s.%s rebuilt as %s.%s" % (path, type(a).__module__, type(a).__name__,
                                                          type(b).__module__, type(b).__name__)]
        out = []
        va, vb = a.param.values(), b.param.values()
        for k in sorted(va):
            if k == "name" and is_auto(a) and is_auto(b):
                continue
            out += diff(va[k], vb[k], "%s.%s" % (path, k))
        return out
    if isinstance(a, list) and isinstance(b, list) and len(a) == len(b):
        out = []
        for j, (x, y) in enumerate(zip(a, b)):
            out += diff(x, y, "%s[%d]" % (path, j))
        return out
    if type(a) is not type(b) or a != b:
        return ["%s: %r rebuilt as %r" % (path, a, b)]
    return []


def produce(obj, via):
    """the script text: import lines, blank line, expression"""
    if via == "script_repr":
        return param.script_repr(obj)
    lst = []
    text = obj.param.pprint(imports=lst, qualify=True)
    return "\n".join(sorted(set(lst))) + "\n\n" + text


def run_script(text, extra=None):
    """run the text like a saved script: fresh namespace, nothing but its own import lines (``extra``: bare class
    names bound in addition -- only used for the lenient second run described at check_case)"""
    tree = ast.parse(text)
    if not tree.body or not isinstance(tree.body[-1], ast.Expr):
        raise SyntaxError("the text does not end in an expression")
    for st in tree.body[:-1]:
        if not isinstance(st, (ast.Import, ast.ImportFrom)):
            raise SyntaxError("statement before the expression is not an import: %s" % ast.unparse(st))
    ns = {"__name__": "c20mm_saved_script"}
    ns.update(extra or {})
    exec(compile(ast.Module(body=tree.body[:-1], type_ignores=[]), "<script>", "exec"), ns)
    return eval(compile(ast.Expression(body=tree.body[-1].value), "<script>", "eval"), ns)


def list_item_classes(obj, out=None, inside=False):
    """bare name -> set of classes of the Parameterized objects that are LIST ITEMS somewhere in the tree, or sit
    below a list item"""
    out = {} if out is None else out
    if inside:
        out.setdefault(type(obj).__name__, set()).add(type(obj))
    for v in obj.param.values().values():
        if isinstance(v, param.Parameterized):
            list_item_classes(v, out, inside)
        elif isinstance(v, list):
            for x in v:
                if isinstance(x, param.Parameterized):
                    list_item_classes(x, out, True)
    return out


def err_class(e):
    if isinstance(e, NameError) and getattr(e, "name", None):
        return "NameError(%s)" % ("module:" + e.name if e.name.startswith("c20mm_") else "class:" + e.name)
    return type(e).__name__


def check_case(shape_name, mods, leafv, via):
    """returns (findings, text); a finding is (kind, error class, detail): kind 'runs' = running the text raised,
    'equal' = the rebuilt object differs.  When the run fails only because a LIST ITEM (or an object below one) was printed by its
    bare class name, that is one finding; the text is then run a second time with the bare names of those objects'
    classes bound (when no two of the classes share a name), so that the rest of the text is still checked."""
    warnings.simplefilter("ignore")
    install_modules()
    obj = build(SHAPES[shape_name], mods, leafv)
    text = produce(obj, via)
    findings = []
    try:
        rebuilt = run_script(text)
    except Exception as e:
        findings.append(("runs", err_class(e), "%s: %s" % (type(e).__name__, e)))
        items = list_item_classes(obj)
        if not (isinstance(e, NameError) and getattr(e, "name", None) in items):
            return findings, text
        if any(len(c) > 1 for c in items.values()):
            return findings, text
        try:
            rebuilt = run_script(text, {k: next(iter(c)) for k, c in items.items()})
        except Exception as e2:
            findings.append(("runs", err_class(e2) + "+list-item-classes-bound", "%s: %s" % (type(e2).__name__, e2)))
            return findings, text
    d = diff(obj, rebuilt)
    if d:
        findings.append(("equal", "diff" + ("+list-item-classes-bound" if findings else ""), "; ".join(d[:4])))
    return findings, text
'''

exec(compile(CORE_SRC, "<c20_mods core>", "exec"))

VIAS = ("script_repr", "pprint-qualified")
QUICK_MODS = ("a", "b", "pi", "po")
QUICK_SHAPES = tuple(list(SHAPES)[:6])
CLAUSE = {"runs": "C20/modules/text-runs-with-its-own-imports", "equal": "C20/modules/rebuilds-equal-object"}

_REPLAY_TAIL = r'''
case = {case!r}
KIND, ERR = {kind!r}, {err!r}
findings, text = check_case(*case)
print('object:', ctor_text(SHAPES[case[0]], case[1]), ' leaf values:', LEAF_VALUES[case[2]], ' via', case[3])
print('--- text ---'); print(text); print('------------')
for f in findings:
    print('  ', f)
mine = [f for f in findings if f[:2] == (KIND, ERR)]
if mine:
    print('REPRODUCED: ' + ('running the text with only its own imports raised ' if KIND == 'runs' else 'rebuilt object differs: ') + mine[0][2])
    sys.exit(1)
print('NOT-REPRODUCED'); sys.exit(0)
'''


def _assignments(n, mods):
    if n == 0:
        yield ()
        return
    for rest in _assignments(n - 1, mods):
        for m in mods:
            yield rest + (m,)


def plan(tier):
    mods = QUICK_MODS if tier == "quick" else tuple(MODULES)
    shapes = QUICK_SHAPES if tier == "quick" else tuple(SHAPES)
    for sname in shapes:
        n = count_nodes(SHAPES[sname])
        for asg in _assignments(n, mods):
            for leafv in LEAF_VALUES:
                for via in VIAS:
                    yield (sname, asg, leafv, via)


def extend(B, tier, seed):
    ncases = 0
    cands = {}
    for case in plan(tier):
        sname, asg, leafv, via = case
        ncases += 1
        B.case(key=("MM",) + case)
        try:
            findings, text = check_case(*case)
        except Exception as e:      # noqa: BLE001 -- printing itself must not raise either
            findings, text = [("runs", "printing:" + type(e).__name__, "printing raised %s: %s" % (type(e).__name__, e))], ""
        B.checked(CLAUSE["runs"] + "[%s]" % via)
        B.checked(CLAUSE["equal"] + "[%s]" % via)
        if ncases % 499 == 1:
            B.sample({"family": "MM", "object": ctor_text(SHAPES[sname], asg), "via": via, "text": text,
                      "findings": [list(f) for f in findings]})
        for kind, errclass, detail in findings:
            key = (kind, via, errclass)
            rank = (len(asg), len(set(asg)), list(SHAPES).index(sname), leafv, asg)
            ent = cands.get(key)
            if ent is None:
                cands[key] = [rank, case, detail, 1]
            else:
                ent[3] += 1
                if rank < ent[0]:
                    ent[0], ent[1], ent[2] = rank, case, detail
    for key in sorted(cands):
        kind, via, errclass = key
        rank, case, detail, n = cands[key]
        sname, asg, leafv, _ = case
        clause = CLAUSE[kind]
        tops = {MODULES[m].split(".")[0] for m in asg}
        witness = "via=%s feature=several-modules shape=%s modules=%s layout=%s leaf=%s error=%s ctor=%s" % (
            via, sname, ">".join(MODULES[m] for m in asg),
            "one-module" if len(set(asg)) == 1 else ("one-package" if len(tops) == 1 else "several-top-level"),
            leafv, errclass, ctor_text(SHAPES[sname], asg))
        B.violation(clause=clause, witness=witness, detail="%s | %d failing cases in this class" % (detail, n),
                    replay=REPLAY_HEADER.format(prop="C20", name="replay_c20_mm.py", clause=clause, witness=witness)
                    + CORE_SRC + _REPLAY_TAIL.format(case=case, kind=kind, err=errclass))
        B._seen[(clause, witness)]["count"] = n
    B.note("family MM (nested objects from several modules; text run in a fresh namespace with only its own import "
           "lines): %d cases = %d tree shapes x every assignment of %d throw-away modules to the nodes x 2 leaf value "
           "sets x {script_repr, pprint(imports=lst, qualify=True)}" % (
               ncases, len(QUICK_SHAPES if tier == "quick" else SHAPES), len(QUICK_MODS if tier == "quick" else MODULES)))
    return ncases
