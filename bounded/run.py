"""Runner of one bounded layer:  python -m bounded.run C03 --tier quick --seed 0 --out FILE"""
import argparse
import importlib
import json
import sys
import traceback


def main():
    ap = argparse.ArgumentParser()
    ap.add_argument("prop")
    ap.add_argument("--tier", default="quick")
    ap.add_argument("--seed", type=int, default=0)
    ap.add_argument("--out", required=True)
    a = ap.parse_args()
    import os
    repo = os.environ.get("PYVC_REPO", "/repo")
    if repo not in sys.path:
        sys.path.insert(0, repo)
    try:
        mod = importlib.import_module("bounded." + a.prop.lower())
        res = mod.run(a.tier, a.seed)
        res["status"] = "ok"
    except Exception:
        res = {"status": "crash", "traceback": traceback.format_exc()}
    with open(a.out, "w") as f:
        json.dump(res, f, indent=1, default=repr)
    sys.exit(0 if res["status"] == "ok" else 3)


if __name__ == "__main__":
    main()
