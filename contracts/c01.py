"""C01 — accepted values always satisfy the declared constraints.

Contract shape: function against a spec function.  For every built-in Parameter type ``T`` the
real ``T._validate`` (with every ``_validate_*`` helper it calls, inlined from /repo) is
executed symbolically on a *bound* parameter object whose constraint slots are symbolic values
satisfying ``well_formed(cfg)``; obligations per path:

    returns normally  ⇒  valid_T(cfg, val)          ("accept ⇒ spec")
    raises            ⇒  ¬valid_T(cfg, val)          ("reject ⇒ ¬spec")
    raises            ⇒  exception ∈ {ValueError, TypeError}
    frame: no slot of the parameter is modified   (except Selector with check_on_set=False)

``valid_T`` is written from the property statement (value type, hard bounds and inclusivity,
length, regex, item type, allowed objects, allow_None) with the *exact* comparison semantics of
the value model, so "a boundary value is accepted exactly when that side is inclusive" and "NaN
is never inside a hard bound" hold by the spec, independently of how the code spells them.
"""
import z3

from pyvc import spec as S
from pyvc import values as vm
from pyvc.engine import Raise
from pyvc.lib_misc import issub, re_match, str_lower
from pyvc.loops import LoopSpec
from pyvc.values import BoolV, ClsV, Conc, Ref, Sym, TupV
from pyvc.verify import FunctionContract

PROP = "C01"
MOD_P = "param.parameters"
MOD_Z = "param.parameterized"


# ----------------------------------------------------------------------- spec pieces ----
def aN(I, T):
    return T["allow_None"] == I.U.TRUE


def none_case(I, T, v):
    return z3.And(v == I.U.NONE, aN(I, T))


def wf_common(I, T):
    return [S.is_bool(I, T["allow_None"])]


def bound_ok_num(I, t):
    return z3.Or(t == I.U.NONE, z3.And(I.U.isnum(t), vm.kind(t) != vm.NAN, vm.ty(t) != vm.TAG["Decimal"]))


def wf_bounds(I, b, okfn):
    return z3.Or(b == I.U.NONE, z3.And(S.is_tuple_of_len(I, b, 2), okfn(I, S.elem(I, b, 0)), okfn(I, S.elem(I, b, 1))))


def wf_incl(I, inc):
    return z3.And(S.is_tuple_of_len(I, inc, 2), S.is_bool(I, S.elem(I, inc, 0)), S.is_bool(I, S.elem(I, inc, 1)))


def inside(I, b, inc, v, le, lt):
    """hard bounds and inclusivity: a boundary value is inside exactly when that side is
    inclusive; le/lt are the exact comparisons (NaN compares False both ways)."""
    U = I.U
    vmin, vmax = S.elem(I, b, 0), S.elem(I, b, 1)
    imin, imax = S.elem(I, inc, 0), S.elem(I, inc, 1)
    lo = z3.Or(vmin == U.NONE, z3.If(imin == U.TRUE, le(vmin, v), lt(vmin, v)))
    hi = z3.Or(vmax == U.NONE, z3.If(imax == U.TRUE, le(v, vmax), lt(v, vmax)))
    return z3.Or(b == U.NONE, z3.And(lo, hi))


def d_le(a, b):
    return vm.dord(a) <= vm.dord(b)


def d_lt(a, b):
    return vm.dord(a) < vm.dord(b)


def is_number(I, t):
    """`numeric type` of the statement: numbers.Number instances, or objects that behave like
    numbers (have __int__ and __add__, or gmpy's qdiv) — the documented meaning of
    `_utils._is_number`; on every builtin type this is decided by the hasattr axioms."""
    from pyvc.builtins_lib import add_hasattr_axioms, hasattr_fn
    for nm in ("__int__", "__add__", "qdiv"):
        add_hasattr_axioms(I, t, nm)
    return z3.Or(I.U.isnum(t), z3.And(hasattr_fn("__int__")(t), hasattr_fn("__add__")(t)), hasattr_fn("qdiv")(t))


# ------------------------------------------------------------------- contract factory ----
def validate_contract(cls, module, slots, wf, valid, scope=None, loops=None, frame_except=(), heap_slots=None,
                      extra_post=None, name=None):
    """Contract of ``cls._validate(val)``."""
    qual_cls = cls

    def setup(I, st):
        fields = {k: None for k in slots}
        hs = {}
        if heap_slots:
            for k, mk in heap_slots.items():
                fields[k] = mk(I, st)
                hs[k] = fields[k]
        self, T = S.param_obj(I, st, qual_cls, fields)
        val = Sym(I.U.fresh("val"))
        info = {"self": self, "T": T, "val": val.t, "heap": hs, "symbols": {"val": val.t}}
        for k in slots:
            info["symbols"][k] = T[k]
        if heap_slots:
            for k, r in hs.items():
                info["seq0:" + k] = st.heap[r.oid].seq
        st.pc += wf_common(I, T) + list(wf(I, T))
        if scope:
            st.pc += list(scope(I, T, val.t))
        fv = S.method(I, qual_cls, "_validate", self)
        return fv, [val], {}, info

    def post(I, info, st, oc):
        T, v = info["T"], info["val"]
        ok = valid(I, T, v, info)
        frame = S.heap_unchanged(I, st, info["self"], except_=frame_except)
        out = []
        if isinstance(oc, Raise):
            out.append(("raises-only-ValueError/TypeError", z3.BoolVal(oc.cls in ("ValueError", "TypeError"))))
            out.append(("reject=>not-valid", z3.Not(ok)))
        else:
            out.append(("accept=>valid", ok))
        out.append(("frame/slots-unchanged", frame))
        if extra_post:
            out += extra_post(I, info, st, oc)
        elif info["heap"]:
            for k, r in info["heap"].items():
                out.append(("frame/%s-unchanged" % k, st.heap[r.oid].seq == info["seq0:" + k]))
        return out

    meth = "_validate"
    found_mod = module
    return FunctionContract("%s:%s.%s" % (found_mod, cls, meth), PROP, setup, post, loops=loops or {},
                            concretise=make_concretiser(cls, valid), name=name or "%s._validate" % cls)


CTOR = {"ClassSelector": "param.ClassSelector(class_=object)", "Dict": "param.Dict()"}


def make_concretiser(cls, valid):
    """Replay script for a refuted validator obligation: build the parameter with the slot
    values of the counter-model, call the real `_validate`, compare accept/reject with the spec
    verdict evaluated in the model."""
    from pyvc import concretise as cz

    def concretise(model, info, name, I, q):
        T, v = info["T"], info["val"]
        U = I.U
        slots = {k: cz.py_expr(model, t, U=U) for k, t in T.items() if k not in info.get("heap", {})}
        for k, r in info.get("heap", {}).items():
            items = cz.seq_items(model, info["seq0:" + k])
            slots[k] = "[" + ", ".join(cz.py_expr(model, it, U=U) for it in items) + "]"
        vexpr = cz.py_expr(model, v, U=U)
        ok = z3.is_true(cz.ev(model, valid(I, T, v, info)))
        expected = "accept" if ok else "reject"
        got = "accept" if "return]" in name else "reject"
        if "raises-only" in name:
            expected = "reject-with-ValueError/TypeError"
        witness = "type=%s got=%s expected=%s val=%s cfg=%s" % (
            cls, got, expected, vexpr, ",".join("%s=%s" % kv for kv in sorted(slots.items())))
        lines = [cz.PRELUDE, "# obligation: %s" % name, "# witness   : %s" % witness,
                 "p = %s" % CTOR.get(cls, "param.%s()" % cls)]
        for k, e in sorted(slots.items()):
            lines.append("p.%s = %s" % (k, e))
        lines += ["val = %s" % vexpr,
                  "try:",
                  "    p._validate(val); got = 'accept'",
                  "except (ValueError, TypeError) as e:",
                  "    got = 'reject'; print('raised', type(e).__name__, e)",
                  "except Exception as e:",
                  "    got = 'raise:' + type(e).__name__; print('raised', type(e).__name__, e)",
                  "expected = %r" % expected,
                  "print('%s(' + ', '.join('%%s=%%r' %% (k, getattr(p, k)) for k in %r) + ')._validate(%%r) ->' %% (val,), got, '; statement demands', expected)" % (cls, sorted(slots)),
                  "bad = (got.startswith('raise:')) if expected.startswith('reject-with') else (got != expected)",
                  "if bad:",
                  "    print('REPRODUCED: C01 %s' % expected); sys.exit(1)",
                  "print('NOT-REPRODUCED'); sys.exit(0)"]
        return {"script": "\n".join(lines) + "\n", "witness": witness}
    return concretise


# ------------------------------------------------------------------------ Number family ----
NUM_SLOTS = ["allow_None", "bounds", "inclusive_bounds", "step"]


def wf_number(I, T):
    return [wf_bounds(I, T["bounds"], bound_ok_num), wf_incl(I, T["inclusive_bounds"]),
            z3.Or(T["step"] == I.U.NONE, I.U.isnum(T["step"]))]


PLAIN_TYPES = ["NoneType", "bool", "int", "float", "Fraction", "Decimal", "str", "bytes", "tuple", "list",
               "dict", "set", "date", "datetime"]


def scope_no_callable(I, T, v):
    # values of Dynamic-derived types that are callables are generators, not plain values: the
    # statement is about constraint checking of plain values; objects that merely *behave* like
    # numbers (duck-typed through __int__/__add__, the extension in _utils._is_number) are outside
    # the value model
    return [z3.Not(vm.is_callable(v)), I.U.has_type(v, PLAIN_TYPES)]


def scope_plain_or_function(I, T, v):
    # Date / CalendarDate inherit Number's validator but do NOT support dynamic (callable) values:
    # a function offered as the value is in scope and has to be rejected
    return [z3.Or(z3.And(z3.Not(vm.is_callable(v)), I.U.has_type(v, PLAIN_TYPES)),
                  z3.And(vm.is_callable(v), vm.ty(v) == vm.TAG["function"]))]


def valid_number(I, T, v, info):
    return z3.Or(none_case(I, T, v),
                 z3.And(is_number(I, v), inside(I, T["bounds"], T["inclusive_bounds"], v, I.U.num_le, I.U.num_lt)))


def wf_integer(I, T):
    return wf_number(I, T)[:2] + [z3.Or(T["step"] == I.U.NONE, I.U.has_type(T["step"], ["int", "bool"]))]


def valid_integer(I, T, v, info):
    return z3.Or(none_case(I, T, v),
                 z3.And(I.U.has_type(v, ["int", "bool"]),
                        inside(I, T["bounds"], T["inclusive_bounds"], v, I.U.num_le, I.U.num_lt)))


def bound_ok_dt(I, t):
    return z3.Or(t == I.U.NONE, I.U.isdate(t))


def wf_date(I, T):
    return [wf_bounds(I, T["bounds"], bound_ok_dt), wf_incl(I, T["inclusive_bounds"]),
            z3.Or(T["step"] == I.U.NONE, I.U.isdate(T["step"]))]


def valid_date(I, T, v, info):
    return z3.Or(none_case(I, T, v),
                 z3.And(I.U.isdate(v), inside(I, T["bounds"], T["inclusive_bounds"], v, d_le, d_lt)))


def bound_ok_caldate(I, t):
    return z3.Or(t == I.U.NONE, vm.ty(t) == vm.TAG["date"])


def wf_caldate(I, T):
    return [wf_bounds(I, T["bounds"], bound_ok_caldate), wf_incl(I, T["inclusive_bounds"]),
            z3.Or(T["step"] == I.U.NONE, I.U.isdate(T["step"]))]


def valid_caldate(I, T, v, info):
    return z3.Or(none_case(I, T, v),
                 z3.And(vm.ty(v) == vm.TAG["date"], inside(I, T["bounds"], T["inclusive_bounds"], v, d_le, d_lt)))


# ------------------------------------------------------------------------------ Boolean ----
def valid_boolean(I, T, v, info):
    return z3.Or(none_case(I, T, v), vm.ty(v) == vm.TAG["bool"])


# ------------------------------------------------------------------------ Tuple family ----
def wf_tuple(I, T):
    return [vm.ty(T["length"]) == vm.TAG["int"], vm.rv(T["length"]) >= 0]


def len_ok(I, T, v):
    return z3.ToReal(vm.tlen(v)) == vm.rv(T["length"])


def valid_tuple(I, T, v, info):
    return z3.Or(none_case(I, T, v), z3.And(vm.ty(v) == vm.TAG["tuple"], len_ok(I, T, v)))


def allnum(I):
    return S.fold(I, "all_number", lambda x: is_number(I, x))


def valid_numerictuple(I, T, v, info):
    return z3.Or(none_case(I, T, v), z3.And(vm.ty(v) == vm.TAG["tuple"], len_ok(I, T, v), allnum(I).of_value(v)))


def loops_numerictuple(cls):
    return {("NumericTuple._validate_value", "val"):
            LoopSpec("val", inv=lambda I, st, pre: pre.all(allnum(I)), name="all-numbers")}


RANGE_SLOTS = ["allow_None", "length", "bounds", "inclusive_bounds", "softbounds", "step"]


def wf_range(I, T):
    U = I.U
    st_ = T["step"]
    return [T["length"] == U.lit(2), wf_bounds(I, T["bounds"], bound_ok_num), wf_incl(I, T["inclusive_bounds"]),
            wf_bounds(I, T["softbounds"], bound_ok_num),
            z3.Or(st_ == U.NONE, z3.And(U.isnum(st_), vm.kind(st_) == vm.FINITE, vm.rv(st_) != 0))]


def order_ok(I, T, v, le):
    U = I.U
    st_ = T["step"]
    a, b = S.elem(I, v, 0), S.elem(I, v, 1)
    pos = z3.And(st_ != U.NONE, vm.rv(st_) > 0)
    neg = z3.And(st_ != U.NONE, vm.rv(st_) < 0)
    return z3.And(z3.Implies(pos, le(a, b)), z3.Implies(neg, le(b, a)))


def valid_range(I, T, v, info):
    U = I.U
    a, b = S.elem(I, v, 0), S.elem(I, v, 1)
    inb = z3.And(inside(I, T["bounds"], T["inclusive_bounds"], a, U.num_le, U.num_lt),
                 inside(I, T["bounds"], T["inclusive_bounds"], b, U.num_le, U.num_lt))
    return z3.Or(none_case(I, T, v),
                 z3.And(vm.ty(v) == vm.TAG["tuple"], vm.tlen(v) == 2, is_number(I, a), is_number(I, b),
                        inb, order_ok(I, T, v, U.num_le)))


def range_setup_axioms(I, T, v):
    # the fold all_number is unfolded on small prefixes by Fold.of_value
    allnum(I).of_value(v)
    return []


def wf_daterange(I, T):
    U = I.U
    return [T["length"] == U.lit(2), wf_bounds(I, T["bounds"], bound_ok_dt), wf_incl(I, T["inclusive_bounds"]),
            wf_bounds(I, T["softbounds"], bound_ok_dt), T["step"] == U.NONE]


def alldt(I):
    return S.fold(I, "all_datetype", lambda x: I.U.isdate(x))


def scope_same_type_pair(I, T, v):
    # start and end of one exact type (comparing a date with a datetime raises TypeError in
    # Python; the statement does not say whether such a pair "satisfies the value type")
    a, b = S.elem(I, v, 0), S.elem(I, v, 1)
    return [z3.Implies(z3.And(vm.ty(v) == vm.TAG["tuple"], vm.tlen(v) == 2, I.U.isdate(a), I.U.isdate(b)),
                       vm.ty(a) == vm.ty(b))]


def scope_no_datetime(I, T, v):
    # whether a datetime is a "date type" for CalendarDateRange is not settled by the statement
    # (CalendarDate excludes it, this class's isinstance test admits it): not claimed
    return [vm.ty(S.elem(I, v, 0)) != vm.TAG["datetime"], vm.ty(S.elem(I, v, 1)) != vm.TAG["datetime"]]


def valid_daterange(I, T, v, info):
    a, b = S.elem(I, v, 0), S.elem(I, v, 1)
    inb = z3.And(inside(I, T["bounds"], T["inclusive_bounds"], a, d_le, d_lt),
                 inside(I, T["bounds"], T["inclusive_bounds"], b, d_le, d_lt))
    return z3.Or(none_case(I, T, v),
                 z3.And(vm.ty(v) == vm.TAG["tuple"], vm.tlen(v) == 2, I.U.isdate(a), I.U.isdate(b),
                        d_le(a, b), inb))


def daterange_axioms(I, T, v):
    alldt(I).of_value(v)
    return []


def wf_caldaterange(I, T):
    U = I.U
    return [T["length"] == U.lit(2), wf_bounds(I, T["bounds"], bound_ok_caldate), wf_incl(I, T["inclusive_bounds"]),
            wf_bounds(I, T["softbounds"], bound_ok_caldate), T["step"] == U.NONE]


def allcaldate(I):
    return S.fold(I, "all_date", lambda x: I.U.isdate(x))


def valid_caldaterange(I, T, v, info):
    a, b = S.elem(I, v, 0), S.elem(I, v, 1)
    inb = z3.And(inside(I, T["bounds"], T["inclusive_bounds"], a, d_le, d_lt),
                 inside(I, T["bounds"], T["inclusive_bounds"], b, d_le, d_lt))
    return z3.Or(none_case(I, T, v),
                 z3.And(vm.ty(v) == vm.TAG["tuple"], vm.tlen(v) == 2, I.U.isdate(a), I.U.isdate(b),
                        d_le(a, b), inb))


def caldaterange_axioms(I, T, v):
    allcaldate(I).of_value(v)
    return []


# ----------------------------------------------------------------------------- Callable ----
def valid_callable(I, T, v, info):
    return z3.Or(none_case(I, T, v), vm.is_callable(v))


# ---------------------------------------------------------------------------- Selectors ----
def mk_objects(I, st):
    seq = I.U.fresh_seq("objects")
    return I.alloc_list(st, seq)


def wf_selector(I, T):
    return [S.is_bool(I, T["check_on_set"])]


def in_objects(I, info, v):
    # `allowed objects`: membership by Python `in` (identity or ==), the same notion the code uses
    return I.seq_contains_eq(info["seq0:_objects"], v)


def valid_selector(I, T, v, info):
    # check_on_set=False declares "no membership constraint" (new values extend the objects)
    return z3.Or(T["check_on_set"] == I.U.FALSE, none_case(I, T, v), in_objects(I, info, v))


def selector_post(I, info, st, oc):
    T, v = info["T"], info["val"]
    seq0 = info["seq0:_objects"]
    cur = st.heap[info["heap"]["_objects"].oid].seq
    grow = z3.And(T["check_on_set"] == I.U.FALSE, z3.Not(I.seq_contains_eq(seq0, v)))
    if isinstance(oc, Raise):
        return [("frame/objects-unchanged-on-reject", cur == seq0)]
    return [("frame/objects-extended-only-when-unchecked", cur == z3.If(grow, z3.Concat(seq0, z3.Unit(v)), seq0))]


def elem_ok_listsel(I, T, info):
    return lambda x: z3.Or(z3.And(x == I.U.NONE, aN(I, T)), I.seq_contains_eq(info["seq0:_objects"], x))


def valid_listselector(I, T, v, info):
    fn = S.fold(I, "all_in_objects", elem_ok_listsel(I, T, info))
    return z3.Or(none_case(I, T, v), z3.And(vm.ty(v) == vm.TAG["list"], fn.of_value(v)))


def listselector_contract():
    cls = "ListSelector"
    slots = ["allow_None", "check_on_set", "names"]

    def setup(I, st):
        fields = {k: None for k in slots}
        fields["_objects"] = mk_objects(I, st)
        self, T = S.param_obj(I, st, cls, fields)
        val = Sym(I.U.fresh("val"))
        info = {"self": self, "T": T, "val": val.t, "heap": {"_objects": fields["_objects"]},
                "symbols": {"val": val.t}, "seq0:_objects": st.heap[fields["_objects"].oid].seq}
        S.fold(I, "all_in_objects", elem_ok_listsel(I, T, info))
        st.pc += wf_common(I, T) + [T["check_on_set"] == I.U.TRUE, z3.Not(I.U.has_type(val.t, ["ListProxy", "OrderedDict"]))]
        return S.method(I, cls, "_validate", self), [val], {}, info

    def post(I, info, st, oc):
        T, v = info["T"], info["val"]
        ok = valid_listselector(I, T, v, info)
        out = []
        if isinstance(oc, Raise):
            out.append(("raises-only-ValueError/TypeError", z3.BoolVal(oc.cls in ("ValueError", "TypeError"))))
            out.append(("reject=>not-valid", z3.Not(ok)))
        else:
            out.append(("accept=>valid", ok))
        out.append(("frame/slots-unchanged", S.heap_unchanged(I, st, info["self"])))
        out.append(("frame/objects-unchanged", st.heap[info["heap"]["_objects"].oid].seq == info["seq0:_objects"]))
        return out
    loops = {("ListSelector._validate_value", "val"):
             LoopSpec("val", inv=lambda I, st, pre: pre.all(I.U.folds["all_in_objects"]), name="all-in-objects")}
    return FunctionContract("%s:%s._validate" % (MOD_P, cls), PROP, setup, post, loops=loops,
                            name="ListSelector._validate[check_on_set]")


def listselector_unchecked_contract():
    """`ListSelector._validate` with check_on_set=False: every list is accepted and the unknown objects
    it names are added to `objects` — each exactly once, at the end, nothing removed or reordered (for
    an ARBITRARY assigned list, by loop invariant; Skolem object x)."""
    cls = "ListSelector"
    slots = ["allow_None", "check_on_set", "names"]
    holder = {}

    def setup(I, st):
        fields = {k: None for k in slots}
        fields["_objects"] = mk_objects(I, st)
        self, T = S.param_obj(I, st, cls, fields)
        val = Sym(I.U.fresh("val"))
        x = I.U.fresh("some_object")
        seq0 = st.heap[fields["_objects"].oid].seq
        info = {"self": self, "T": T, "val": val.t, "heap": {"_objects": fields["_objects"]},
                "symbols": {"val": val.t}, "seq0:_objects": seq0}
        holder.update({"x": x, "seq0": seq0, "objs": fields["_objects"]})
        st.pc += wf_common(I, T) + [T["check_on_set"] == I.U.FALSE, vm.ty(val.t) == vm.TAG["list"], vm.tlen(val.t) >= 0,
                                    # objects are listed once (representation invariant of the list view)
                                    z3.Implies(z3.Contains(seq0, z3.Unit(x)), z3.BoolVal(True))]
        return S.method(I, cls, "_validate", self), [val], {}, info

    def added_of(I, st):
        """cur == seq0 ++ added: the appended part, read off the structure of the sequence term"""
        cur = st.heap[holder["objs"].oid].seq
        A = st.ghost.get("added")
        base = z3.Concat(holder["seq0"], A) if A is not None else holder["seq0"]
        if cur.eq(base):
            return cur, (A if A is not None else z3.Empty(vm.SeqV))
        if z3.is_app(cur) and cur.decl().kind() == z3.Z3_OP_SEQ_CONCAT:
            kids = cur.children()
            flat = []
            for kdd in kids:
                if z3.is_app(kdd) and kdd.decl().kind() == z3.Z3_OP_SEQ_CONCAT:
                    flat += kdd.children()
                else:
                    flat.append(kdd)
            if flat and flat[0].eq(holder["seq0"]):
                rest = flat[1:]
                return cur, (rest[0] if len(rest) == 1 else z3.Concat(*rest)) if rest else z3.Empty(vm.SeqV)
        raise OutOfReach("`_objects` is no longer the old list extended at the end")

    def once(seq, x):
        """x occurs at most once in seq (expanded along `++` / `[e]`)"""
        if z3.is_app(seq):
            kd = seq.decl().kind()
            if kd in (z3.Z3_OP_SEQ_EMPTY, z3.Z3_OP_SEQ_UNIT):
                return z3.BoolVal(True)
            if kd == z3.Z3_OP_SEQ_CONCAT:
                parts = seq.children()
                conj = [once(c, x) for c in parts]
                for a in range(len(parts)):
                    for b in range(a + 1, len(parts)):
                        conj.append(z3.Not(z3.And(z3.Contains(parts[a], z3.Unit(x)), z3.Contains(parts[b], z3.Unit(x)))))
                return z3.And(conj)
        return holder["onceF"](seq)

    def inv(I, st, pre):
        x = holder["x"]
        holder.setdefault("onceF", z3.Function("listed_at_most_once", vm.SeqV, z3.BoolSort()))
        cur, A = added_of(I, st)
        return z3.And(once(A, x), z3.Implies(z3.Contains(holder["seq0"], z3.Unit(x)), z3.Not(z3.Contains(A, z3.Unit(x)))))

    def havoc(I, st):
        A = I.U.fresh_seq("added")
        st.ghost["added"] = A
        h = st.heap[holder["objs"].oid]
        h.seq = z3.Concat(holder["seq0"], A)
        h.fields.pop("$items", None)

    def post(I, info, st, oc):
        if isinstance(oc, Raise):
            return [("an unchecked ListSelector accepts every list", z3.BoolVal(False))]
        x = holder["x"]
        cur, A = added_of(I, st)
        return [("objects keep their old entries, in order, new ones are added at the end", cur == z3.Concat(holder["seq0"], A)),
                ("no object is added twice, and none that was already listed", inv(I, st, None)),
                ("frame/slots-unchanged", S.heap_unchanged(I, st, info["self"]))]
    loops = {("ListSelector._validate", "val"): LoopSpec("val", inv=inv, heap=havoc, name="admit-each-unknown-object-once")}
    return FunctionContract("%s:%s._validate" % (MOD_P, cls), PROP, setup, post, loops=loops,
                            name="ListSelector._validate[check_on_set=False]")


def wf_classselector(I, T):
    return [S.is_bool(I, T["is_instance"]), vm.ty(T["class_"]) == vm.TAG["type"]]


def valid_classselector(I, T, v, info):
    U = I.U
    return z3.Or(none_case(I, T, v),
                 z3.If(T["is_instance"] == U.TRUE, vm.isinst(v, T["class_"]),
                       z3.And(vm.ty(v) == vm.TAG["type"], issub(v, T["class_"]))))


# --------------------------------------------------------------------------------- List ----
LIST_SLOTS = ["allow_None", "bounds", "item_type", "is_instance", "class_"]


def len_bound_ok(I, t):
    return z3.Or(t == I.U.NONE, z3.And(vm.ty(t) == vm.TAG["int"], vm.rv(t) >= 0))


def wf_list(I, T):
    return [wf_bounds(I, T["bounds"], len_bound_ok), S.is_bool(I, T["is_instance"]),
            z3.Or(T["item_type"] == I.U.NONE, vm.ty(T["item_type"]) == vm.TAG["type"])]


def item_ok(I, T):
    U = I.U
    return lambda x: z3.If(T["is_instance"] == U.TRUE, vm.isinst(x, T["item_type"]),
                           z3.And(vm.ty(x) == vm.TAG["type"], issub(x, T["item_type"])))


def list_len_ok(I, T, v):
    U = I.U
    b = T["bounds"]
    lo, hi = S.elem(I, b, 0), S.elem(I, b, 1)
    n = z3.ToReal(vm.tlen(v))
    return z3.Or(b == U.NONE, z3.And(z3.Or(lo == U.NONE, vm.rv(lo) <= n), z3.Or(hi == U.NONE, n <= vm.rv(hi))))


def valid_list(I, T, v, info):
    fn = S.fold(I, "all_item_type", item_ok(I, T))
    return z3.Or(none_case(I, T, v),
                 z3.And(vm.ty(v) == vm.TAG["list"], list_len_ok(I, T, v),
                        z3.Or(T["item_type"] == I.U.NONE, fn.of_value(v))))


def list_contract(cls, hook=False):
    def setup(I, st):
        self, T = S.param_obj(I, st, cls, {k: None for k in LIST_SLOTS})
        val = Sym(I.U.fresh("val"))
        info = {"self": self, "T": T, "val": val.t, "heap": {}, "symbols": {"val": val.t, "bounds": T["bounds"]}}
        S.fold(I, "all_item_type", item_ok(I, T))
        if hook:
            S.fold(I, "all_callable", lambda x: vm.is_callable(x))
        st.pc += wf_common(I, T) + wf_list(I, T) + [z3.Not(I.U.has_type(val.t, ["ListProxy", "OrderedDict"]))]
        return S.method(I, cls, "_validate", self), [val], {}, info

    def post(I, info, st, oc):
        T, v = info["T"], info["val"]
        ok = valid_list(I, T, v, info)
        if hook:
            ok = z3.Or(none_case(I, T, v), z3.And(ok, I.U.folds["all_callable"].of_value(v)))
        out = []
        if isinstance(oc, Raise):
            out.append(("raises-only-ValueError/TypeError", z3.BoolVal(oc.cls in ("ValueError", "TypeError"))))
            out.append(("reject=>not-valid", z3.Not(ok)))
        else:
            out.append(("accept=>valid", ok))
        out.append(("frame/slots-unchanged", S.heap_unchanged(I, st, info["self"])))
        return out

    def inv_items(I, st, pre):
        ek = st.env.get("err_kind")
        none = I.is_same(ek, Conc(None)) if ek is not None else True
        none = z3.BoolVal(none) if isinstance(none, bool) else none
        return z3.And(pre.all(I.U.folds["all_item_type"]), none)
    loops = {("List._validate_item_type", "val"): LoopSpec("val", inv=inv_items, name="all-items-typed")}
    if hook:
        loops[("HookList._validate_value", "val")] = LoopSpec(
            "val", inv=lambda I, st, pre: pre.all(I.U.folds["all_callable"]), name="all-callable")
    return FunctionContract("%s:%s._validate" % (MOD_P, "List"), PROP, setup, post, loops=loops,
                            name="%s._validate" % cls)


# -------------------------------------------------------------------------------- Color ----
HEX_RE = "^#?(([0-9a-fA-F]{2}){3}|([0-9a-fA-F]){3})$"


def color_contract():
    cls = "Color"

    def named_formula(I, st, low):
        """membership of a str term in Color._named_colors, *as read from the source*."""
        from pyvc import objects
        res = objects.class_attr(I, st, "Color", "_named_colors", {"opts": {}})
        (q, lst) = res[0]
        items = I.known_items(q, lst)
        return z3.Or([z3.And(vm.ty(low) == vm.TAG["str"], vm.strv(low) == z3.StringVal(it.py)) for it in items])

    def setup(I, st):
        self, T = S.param_obj(I, st, cls, {"allow_None": None, "allow_named": None})
        val = Sym(I.U.fresh("val"))
        info = {"self": self, "T": T, "val": val.t, "heap": {}, "symbols": {"val": val.t}}
        st.pc += wf_common(I, T) + [S.is_bool(I, T["allow_named"])]
        return S.method(I, cls, "_validate", self), [val], {}, info

    def post(I, info, st, oc):
        T, v = info["T"], info["val"]
        U = I.U
        is_hex = re_match(U.lit(HEX_RE), v)
        named = named_formula(I, st, str_lower(v))
        ok = z3.Or(none_case(I, T, v),
                   z3.And(vm.ty(v) == vm.TAG["str"], z3.Or(is_hex, z3.And(T["allow_named"] == U.TRUE, named))))
        out = []
        if isinstance(oc, Raise):
            out.append(("raises-only-ValueError/TypeError", z3.BoolVal(oc.cls in ("ValueError", "TypeError"))))
            out.append(("reject=>not-valid", z3.Not(ok)))
        else:
            out.append(("accept=>valid", ok))
        out.append(("frame/slots-unchanged", S.heap_unchanged(I, st, info["self"])))
        return out
    return FunctionContract("%s:Color._validate" % MOD_P, PROP, setup, post, name="Color._validate")


# ------------------------------------------------------------------------ String / Bytes ----
def wf_regex(I, T):
    return [z3.Or(T["regex"] == I.U.NONE, I.U.has_type(T["regex"], ["str", "bytes"]))]


def valid_string(tyname):
    def valid(I, T, v, info):
        return z3.Or(none_case(I, T, v),
                     z3.And(vm.ty(v) == vm.TAG[tyname], z3.Or(T["regex"] == I.U.NONE, re_match(T["regex"], v))))
    return valid


def nothing(I, T):
    return []


# ------------------------------------------------------------------------------ the list ----
def contracts():
    C = []
    vc = validate_contract
    for cls in ("Number", "Magnitude"):
        C.append(vc(cls, MOD_P, NUM_SLOTS, wf_number, valid_number, scope=scope_no_callable))
    C[-1].qual = "%s:Number._validate" % MOD_P
    C.append(vc("Integer", MOD_P, NUM_SLOTS, wf_integer, valid_integer, scope=scope_no_callable))
    C[-1].qual = "%s:Number._validate" % MOD_P
    C.append(vc("Date", MOD_P, NUM_SLOTS, wf_date, valid_date, scope=scope_plain_or_function))
    C[-1].qual = "%s:Number._validate" % MOD_P
    C.append(vc("CalendarDate", MOD_P, NUM_SLOTS, wf_caldate, valid_caldate, scope=scope_plain_or_function))
    C[-1].qual = "%s:Number._validate" % MOD_P
    for cls in ("Boolean", "Event"):
        C.append(vc(cls, MOD_P, ["allow_None"], nothing, valid_boolean))
        C[-1].qual = "%s:Boolean._validate" % MOD_P
    C.append(vc("Tuple", MOD_P, ["allow_None", "length"], wf_tuple, valid_tuple))
    for cls in ("NumericTuple", "XYCoordinates"):
        C.append(vc(cls, MOD_P, ["allow_None", "length"], wf_tuple, valid_numerictuple,
                    loops=loops_numerictuple(cls), scope=lambda I, T, v: range_setup_axioms(I, T, v)))
        C[-1].qual = "%s:Tuple._validate" % MOD_P
    C.append(vc("Range", MOD_P, RANGE_SLOTS, wf_range, valid_range, loops=loops_numerictuple("Range"),
                scope=range_setup_axioms))
    C.append(vc("DateRange", MOD_P, RANGE_SLOTS, wf_daterange, valid_daterange,
                loops={("DateRange._validate_value", "val"): LoopSpec("val", inv=lambda I, st, pre: pre.all(alldt(I)), name="all-datetypes")},
                scope=lambda I, T, v: daterange_axioms(I, T, v) + scope_same_type_pair(I, T, v)))
    C[-1].qual = "%s:Range._validate" % MOD_P
    C.append(vc("CalendarDateRange", MOD_P, RANGE_SLOTS, wf_caldaterange, valid_caldaterange,
                loops={("CalendarDateRange._validate_value", "val"): LoopSpec("val", inv=lambda I, st, pre: pre.all(allcaldate(I)), name="all-dates")},
                scope=lambda I, T, v: caldaterange_axioms(I, T, v) + scope_same_type_pair(I, T, v) + scope_no_datetime(I, T, v)))
    C[-1].qual = "%s:Range._validate" % MOD_P
    for cls in ("Callable", "Action"):
        C.append(vc(cls, MOD_P, ["allow_None"], nothing, valid_callable))
        C[-1].qual = "%s:Callable._validate" % MOD_P
    for cls in ("Selector", "ObjectSelector"):
        C.append(vc(cls, MOD_P, ["allow_None", "check_on_set", "names"], wf_selector, valid_selector,
                    heap_slots={"_objects": mk_objects}, extra_post=selector_post))
        C[-1].qual = "%s:Selector._validate" % MOD_P
    C.append(listselector_contract())
    C.append(listselector_unchecked_contract())
    for cls in ("ClassSelector", "Dict"):
        C.append(vc(cls, MOD_P, ["allow_None", "class_", "is_instance"], wf_classselector, valid_classselector))
        C[-1].qual = "%s:ClassSelector._validate" % MOD_P
    C.append(list_contract("List"))
    C.append(list_contract("HookList", hook=True))
    C.append(color_contract())
    C.append(vc("Bytes", MOD_P, ["allow_None", "regex"], wf_regex, valid_string("bytes")))
    C.append(vc("String", MOD_Z, ["allow_None", "regex"], wf_regex, valid_string("str")))
    # the routes: whatever the descriptor setter stores is the value `_validate` accepted
    from contracts import c02 as _c02
    C += _c02.all_set_contracts(["C01/"])
    return C


# ======================================================================================
# Constructors: every declared constraint argument reaches the slot that `_validate` reads, and
# the default is validated last (so a constructor succeeds iff the default satisfies the
# constraints in force)
# ======================================================================================
def constructor_contract(cls, kwargs_slots, validate_owner, extra_kwargs=None, slot_rule=None, qual_mod=MOD_P, plain_default=False, allow_undefined=False):
    """kwargs_slots: {constructor keyword: slot name}."""
    def configure(I):
        I.getattribute_hook = True

        def validate(I, st, fv, args, kwargs, ctx):
            selfv = fv.data.get("self")
            h = st.heap[selfv.oid].fields
            snap = {s: h.get(s) for s in list(kwargs_slots.values()) + ["allow_None", "default"]}
            st.ghost["validate_calls"] = st.ghost.get("validate_calls", []) + [(args[0], snap)]
            q = st.fork()
            return [(st, Conc(None)), (q, Raise("ValueError", origin="_validate"))]
        I.contracts["%s._validate" % validate_owner] = validate

    def setup(I, st):
        U = I.U
        self = I.alloc_obj(st, cls, lazy=False, label="self")
        kw = {}
        for k in list(kwargs_slots) + ["default", "allow_None"]:
            v = Sym(U.fresh("arg_" + k))
            if not (allow_undefined and k in kwargs_slots):
                st.pc.append(v.t != U.UNDEF)      # (C11 variant: a type-specific argument may be left unspecified)
            kw[k] = v
        st.pc.append(S.is_bool(I, kw["allow_None"].t))
        if plain_default:
            # dynamic (callable) defaults are generators, not plain values: out of scope
            st.pc.append(z3.Not(vm.is_callable(kw["default"].t)))
        if extra_kwargs:
            for k, mk in extra_kwargs.items():
                kw[k] = mk(I, st)
        fv = I.bound_method(self, I.src.find_method(cls, "__init__"))
        return fv, [], kw, {"self": self, "kw": kw, "symbols": {k: v.t for k, v in kw.items() if isinstance(v, Sym)}}

    def post(I, info, st, oc):
        U = I.U
        kw = info["kw"]
        calls = st.ghost.get("validate_calls", [])
        if isinstance(oc, Raise):
            return [("constructor fails only because the default was rejected (or a documented argument check)",
                     z3.BoolVal(oc.origin == "_validate" or oc.cls in ("ValueError", "TypeError")))]
        f = st.heap[info["self"].oid].fields
        out = []
        for k, slot in kwargs_slots.items():
            want = slot_rule(I, k, kw, f) if slot_rule and slot_rule(I, k, kw, f) is not None else kw[k].t
            out.append(("argument %s reaches slot %s" % (k, slot), I.term(f[slot]) == want if slot in f else z3.BoolVal(False)))
        d = kw["default"].t
        out.append(("default stored as given", I.term(f["default"]) == d if "default" in f else z3.BoolVal(False)))
        out.append(("allow_None: True if the default is None, else as declared",
                    I.term(f["allow_None"]) == z3.If(d == U.NONE, U.TRUE, kw["allow_None"].t) if "allow_None" in f else z3.BoolVal(False)))
        out.append(("the default is validated", z3.BoolVal(len(calls) >= 1)))
        if calls:
            val, snap = calls[-1]
            out.append(("… the value validated last is the stored default", I.term(val) == I.term(f["default"])))
            same = [I.term(snap[s]) == I.term(f[s]) if snap.get(s) is not None and s in f else z3.BoolVal(False)
                    for s in list(kwargs_slots.values()) + ["allow_None"]]
            out.append(("… against the constraints finally in force (validation is the last step)", z3.And(same)))
        return out
    return FunctionContract("%s:%s.__init__" % (qual_mod, cls), PROP, setup, post, configure=configure,
                            name="%s.__init__%s" % (cls, "[arguments possibly unspecified]" if allow_undefined else ""))


def tuple_length_rule(I, k, kw, f):
    if k != "length":
        return None
    d = kw["default"].t
    # a non-empty default fixes the length
    return z3.If(vm.truthy(d), _int_term(I, vm.slen(d)), kw["length"].t)


def _int_term(I, n):
    c = z3.Const("len_as_int", vm.V)
    return c


def constructor_contracts():
    num = {"bounds": "bounds", "inclusive_bounds": "inclusive_bounds", "step": "step", "softbounds": "softbounds"}
    C = [constructor_contract("Number", num, "Number", plain_default=True),
         constructor_contract("Integer", num, "Number", plain_default=True),
         constructor_contract("Date", num, "Number", plain_default=True),
         constructor_contract("CalendarDate", num, "Number", plain_default=True),
         constructor_contract("Boolean", {}, "Boolean"),
         constructor_contract("Range", num, "Range"),
         constructor_contract("Callable", {}, "Callable"),
         constructor_contract("Color", {"allow_named": "allow_named"}, "Color"),
         constructor_contract("Bytes", {"regex": "regex"}, "Bytes"),
         constructor_contract("String", {"regex": "regex"}, "String", qual_mod=MOD_Z),
         constructor_contract("ClassSelector", {"class_": "class_", "is_instance": "is_instance"}, "ClassSelector"),
         ]
    return C


_c01_validators = contracts


def contracts():
    from contracts import c12 as _c12
    return _c01_validators() + constructor_contracts() + [_c12.setup_params_contract(["C01/"])]


# the other routes by which a value reaches a parameter: class-level assignment (metaclass __setattr__:
# exactly one descriptor __set__) and param.update (Parameters._update: every key through setattr)
_c01_base2 = contracts


def contracts():
    from contracts import c13 as _c13, c05 as _c05
    extra = [_c13.metaclass_setattr_contract(), _c05.update_contract()]
    for c in extra:
        c.prop = PROP
    return _c01_base2() + extra


# the Parameter a class-level assignment goes through: the nearest class in the MRO that declares one
# (verified for C13)
_c01_base_gpd = contracts


def contracts():
    from contracts import c13 as _c13
    c = _c13.get_param_descriptor_contract()
    c.prop = "C01"
    return _c01_base_gpd() + [c]


# .param.update / trigger act on the instance whenever there is one, whatever its truth value (verified for C12)
_c01_base_soc = contracts


def contracts():
    from contracts import c12 as _c12
    c = _c12.self_or_cls_contract()
    c.prop = "C01"
    return _c01_base_soc() + [c]


# ---------------------------------------------------------------------------------------------
# concrete probe: a value that reaches a parameter through a REFERENCE is held to the same constraints,
# in the constructor and afterwards
# ---------------------------------------------------------------------------------------------
REF_VALUES_REPLAY = '''import sys, os, itertools, math
sys.path.insert(0, os.environ.get('PYVC_REPO', '/repo'))
import param
bad = []
class Src(param.Parameterized):
    v = param.Parameter()
CASES = [('Number(bounds=(0, 10))', lambda: param.Number(1, bounds=(0, 10), allow_refs=True), [5, 0, 10], [11, -1, float('nan'), 'x', None]),
         ('Number(bounds=(0, 10), inclusive_bounds=(True, False))', lambda: param.Number(1, bounds=(0, 10), inclusive_bounds=(True, False), allow_refs=True), [0, 9.5], [10]),
         ('Integer(bounds=(0, 3))', lambda: param.Integer(1, bounds=(0, 3), allow_refs=True), [3], [4, 1.5]),
         ('String(regex=^a)', lambda: param.String('ab', regex='^a', allow_refs=True), ['abc'], ['ba', 3]),
         ('List(bounds=(0, 2))', lambda: param.List([], bounds=(0, 2), allow_refs=True), [[1, 2]], [[1, 2, 3], (1,)]),
         ('Selector([1, 2])', lambda: param.Selector(objects=[1, 2], allow_refs=True), [2], [3])]
for label, mk, good, wrong in CASES:
    for kind in ('parameter', 'bind', 'rx'):
        def ref(value):
            s = Src(v=value)
            if kind == 'parameter':
                return s, s.param.v
            if kind == 'bind':
                return s, param.bind(lambda v: v, s.param.v)
            return s, s.param.v.rx()
        T = type('T', (param.Parameterized,), {'p': mk()})
        for value in good:
            s, r = ref(value)
            try:
                t = T(p=r)
            except Exception as e:
                bad.append('%s given a %s reference to the valid value %r in the constructor raised %r' % (label, kind, value, e)); continue
            if t.p != value:
                bad.append('%s given a %s reference to %r in the constructor holds %r' % (label, kind, value, t.p))
        for value in wrong:
            s, r = ref(value)
            for route in ('constructor', 'assignment'):
                try:
                    if route == 'constructor':
                        t = T(p=r)
                    else:
                        t = T(); t.p = r
                except (ValueError, TypeError):
                    continue
                except Exception as e:
                    bad.append('%s given a %s reference to the invalid value %r (%s) raised %r' % (label, kind, value, route, e)); continue
                held = t.p
                if held is value or held == value or (isinstance(value, float) and math.isnan(value) and isinstance(held, float) and math.isnan(held)):
                    bad.append('%s: the invalid value %r reached the parameter through a %s reference given by %s' % (label, value, kind, route))
if bad:
    print('REPRODUCED: ' + bad[0]); sys.exit(1)
print('NOT-REPRODUCED'); sys.exit(0)
'''

PROBES = [("a value arriving through a reference is held to the parameter's constraints", REF_VALUES_REPLAY)]


# ---------------------------------------------------------------------------------------------
# concrete probe: text validators on text outside ASCII.  The statement's valid_Color / valid_String are
# defined on code points: a hex colour has 3 or 6 characters from 0-9a-fA-F, nothing else that some
# regular-expression class would also call a digit
# ---------------------------------------------------------------------------------------------
TEXT_VALUES_REPLAY = '''import sys, os, itertools
sys.path.insert(0, os.environ.get('PYVC_REPO', '/repo'))
import param
bad = []
HEX = set('0123456789abcdefABCDEF')
def valid_color(v, named):
    if not isinstance(v, str): return False
    body = v[1:] if v.startswith('#') else v
    if len(body) in (3, 6) and all(ch in HEX for ch in body): return True
    return named and v.lower() in param.Color._named_colors
CANDIDATES = ['#123', '#\\u0661\\u0662\\u0663', '\\uff11\\uff12\\uff13', '#\\u0967\\u0968\\u0969abc', '#12\\u0663', 'a\\u0660b',
              '#abcdeg', '#ab', '#abcd', 'ABCDEF', '#\\u00b2\\u00b3\\u00b9', 'red', 'RED', 'r\\u0435d']
for v, named in itertools.product(CANDIDATES, (True, False)):
    want = valid_color(v, named)
    class P(param.Parameterized):
        c = param.Color(default='#000000', allow_named=named)
    routes = {'set': lambda p: setattr(p, 'c', v), 'update': lambda p: p.param.update(c=v), 'class': lambda p: setattr(P, 'c', v),
              'ctor': lambda p: P(c=v), 'declare': lambda p: param.Color(default=v, allow_named=named)}
    for how, do in routes.items():
        p = P()
        try:
            do(p); got = True
        except ValueError:
            got = False
        if got != want:
            bad.append('Color(allow_named=%r), route %s: %r is %s, the statement says %s'
                       % (named, how, v, 'accepted' if got else 'refused', 'valid' if want else 'invalid'))
if bad:
    print('REPRODUCED: ' + bad[0]); sys.exit(1)
print('NOT-REPRODUCED'); sys.exit(0)
'''

PROBES = PROBES + [("hex colours are made of 0-9a-fA-F only (non-ASCII digits)", TEXT_VALUES_REPLAY)]


# ---------------------------------------------------------------------------------------------
# concrete probe: the constraints in force are those of the nearest class — also for a class several
# levels below one that acquired a tighter Parameter AFTER the lower class had been used
# ---------------------------------------------------------------------------------------------
DEEP_TIGHTEN_REPLAY = '''import sys, os, itertools
sys.path.insert(0, os.environ.get('PYVC_REPO', '/repo'))
import param
bad = []
for depth, how, used in itertools.product((1, 2, 3), ('assign+bounds', 'add_parameter', 'assign-parameter'), ('instance', 'namespace', 'values')):
    class A(param.Parameterized):
        x = param.Number(default=1, bounds=(0, 10))
    class B(A):
        pass
    chain = [B]
    for k in range(depth):
        chain.append(type('L%d' % k, (chain[-1],), {}))
    D = chain[-1]
    d0 = D()
    if used == 'namespace':
        D.param['x']          # (an instance-level copy made now would rightly keep the constraints it was copied with)
    elif used == 'values':
        D.param.values(); d0.param.values()
    if how == 'assign+bounds':
        B.x = 3; B.param.x.bounds = (0, 4)
    elif how == 'add_parameter':
        B.param.add_parameter('x', param.Number(default=3, bounds=(0, 4)))
    else:
        B.x = param.Number(default=3, bounds=(0, 4))
    for route, do in (('set', lambda o: setattr(o, 'x', 8)), ('update', lambda o: o.param.update(x=8)),
                      ('namespace-then-set', lambda o: (o.param.x, setattr(o, 'x', 8))), ('ctor', lambda o: D(x=8)),
                      ('class', lambda o: setattr(D, 'x', 8))):
        for o, which in ((d0, 'instance made before'), (D(), 'instance made after')):
            try:
                do(o)
                bad.append('%s below the class that tightened x to (0, 4) by %s (lower class used through %s), route %s on the %s: 8 is accepted'
                           % ('%d level(s)' % depth, how, used, route, which))
            except ValueError:
                pass
            except Exception as e:
                bad.append('%s below the class that tightened x to (0, 4) by %s (lower class used through %s), route %s on the %s: %s: %s'
                           % ('%d level(s)' % depth, how, used, route, which, type(e).__name__, e))
    for o in (d0, D()):
        try:
            o.param.update(x=2)
        except Exception as e:
            bad.append('%d level(s) below the class that tightened x to (0, 4) by %s: update(x=2) with a valid value raises %s: %s' % (depth, how, type(e).__name__, e))
if bad:
    print('REPRODUCED: ' + bad[0]); sys.exit(1)
print('NOT-REPRODUCED'); sys.exit(0)
'''

PROBES = PROBES + [("constraints tightened on an ancestor after the lower classes were used", DEEP_TIGHTEN_REPLAY)]
