"""C02 (and the setter halves of C01, C03, C14) — contract of the descriptor setter
``Parameter.__set__`` executed symbolically from /repo on an arbitrary Parameter / object state.

Clauses (per path):

  C02 exc-frame      a path that ends in `raise` before the store leaves values, class default,
                     refs, async refs untouched, performs no link bookkeeping (_update_ref), cancels
                     no task and invokes no watcher                                   (frame = ∅)
  C01 validate-before-store
                     whatever is stored (instance value or class default) is the value that
                     `_validate` accepted, unmodified
  C14 guard          a constant parameter of an initialized object is rebound only to the very same
                     object; a read-only parameter is never assigned (instance or class)
  C03 dispatch       each value watcher is called exactly once, in the order of
                     sorted(watchers, key=precedence), after the store, with old = the object
                     replaced and new = the object installed; no watcher when the object is not
                     initialized; flush afterwards iff no batch is open
"""
import z3

from contracts import dispatch_model as dm
from pyvc import spec as S
from pyvc import values as vm
from pyvc.engine import OutOfReach, Raise
from pyvc.values import BoolV, ClsV, Conc, FuncV, Ref, Sym, TupV
from pyvc.verify import FunctionContract

MOD = "param.parameterized"
NAME = "p"          # the parameter's name (a fixed literal without loss of generality)

sorted_prec = z3.Function("sorted_by_precedence", vm.SeqV, vm.SeqV)   # A-SORTED


def install(I, W, st, info):
    U = I.U

    def validate(I, st, fv, args, kwargs, ctx):
        v = args[0]
        q1, q2 = st.fork(), st.fork()
        st.ghost["validated"] = st.ghost.get("validated", []) + [I.term(v)]
        return [(st, Conc(None)), (q1, Raise("ValueError", origin="_validate")), (q2, Raise("TypeError", origin="_validate"))]
    I.contracts["Parameter._validate"] = validate

    def resolve_ref(I, st, fv, args, kwargs, ctx):
        ref, deps, val2, is_async = (Sym(U.fresh(n)) for n in ("ref", "deps", "resolved_val", "is_async"))
        st.pc.append(S.is_bool(I, is_async.t))
        info["resolved"] = (ref, deps, val2, is_async)
        st.ghost["resolved_ref"] = ref          # per path: this path went through the reference resolution
        return [(st, TupV([ref, deps, val2, is_async]))]
    I.contracts["Parameters._resolve_ref"] = resolve_ref

    def update_ref(I, st, fv, args, kwargs, ctx):
        st.ghost["link_bookkeeping"] = st.ghost.get("link_bookkeeping", []) + ["_update_ref"]
        st.ghost["link_calls"] = st.ghost.get("link_calls", []) + [(args[0], args[1], current_value(I, st, info))]
        return [(st, Conc(None))]
    I.contracts["Parameters._update_ref"] = update_ref

    def update_deps(I, st, fv, args, kwargs, ctx):
        st.ghost["update_deps"] = st.ghost.get("update_deps", 0) + 1
        return [(st, Conc(None))]
    I.contracts["Parameters._update_deps"] = update_deps

    def call_watcher(I, st, fv, args, kwargs, ctx):
        w, ev = args
        cur = current_value(I, st, info)
        st.ghost["trace"] = st.ghost.get("trace", []) + [(I.term(w), ev, cur, W.bw(st) if W else None)]
        ts = st.ghost.get("trace_seq")
        st.ghost["trace_seq"] = z3.Concat(ts if ts is not None else z3.Empty(vm.SeqV), z3.Unit(I.term(w)))
        q = st.fork()
        return [(st, Conc(None)), (q, Raise("$User", origin="call_watcher"))]
    I.contracts["Parameters._call_watcher"] = call_watcher

    def vmethod(I, st, name, selfv, args, kwargs, ctx):
        if name == "cancel":
            st.ghost["cancelled"] = st.ghost.get("cancelled", 0) + 1
            return [(st, Conc(None))]
        return None
    I.lib["$value_method"] = vmethod

    def h_sorted(I, st, fv, args, kwargs, ctx):
        xs = args[0]
        if isinstance(xs, Ref) and st.heap[xs.oid].kind == "list":
            seq = st.heap[xs.oid].seq
        elif isinstance(xs, Sym):
            raise OutOfReach("sorted() of symbolic value")
        else:
            raise OutOfReach("sorted() of %r" % (xs,))
        r = I.alloc_list(st, sorted_prec(seq))
        I.U.axioms.append(z3.Length(sorted_prec(seq)) == z3.Length(seq))
        return [(st, r)]
    I.lib["sorted"] = h_sorted

    def new_event(I, st, fv, args, kwargs, ctx):
        r = I.alloc_obj(st, "Event", lazy=False, label="event")
        st.heap[r.oid].fields.update(kwargs)
        return [(st, r)]
    I.lib["new:Event"] = new_event
    I.lib["deco:instance_descriptor"] = lambda I, st, fv, args, kwargs, ctx: None

    def getattr_static(I, st, fv, args, kwargs, ctx):
        # inspect.getattr_static(type(obj), name, default): the class-level descriptor of `name`
        # (A-DESCR: the Parameter that governs attribute access on the class), here the ghost
        # object `class_param` whose default is what the instance showed so far
        return [(st, info["class_param"])]
    I.lib["inspect.getattr_static"] = getattr_static


def current_value(I, st, info):
    if info.get("obj") is not None:
        vals = info["values"]
        has = I.dict_has(st, vals, Conc(NAME))
        if isinstance(has, Conc):
            return I.term(I.dict_load_c(st, vals, NAME)) if has.py else None
        return None
    return I.term(st.heap[info["self"].oid].fields["default"])


def set_contract(level, wcfg="B"):
    """level: 'instance' | 'class';  wcfg: which watcher table exists —
    A: no entry for the name on the instance;  B: instance entry {'value': ws};
    C: instance entry without 'value', Parameter-level {'value': ws};  D: like C but no Parameter-level list
    (class level: P = Parameter-level {'value': ws}, N = none)"""
    from pyvc.loops import LoopSpec
    holder = {}

    def setup(I, st):
        U = I.U
        info = {"symbols": {}}
        holder["info"] = info
        slots = {"allow_refs": None, "constant": None, "readonly": None, "default": None}
        self, T = S.param_obj(I, st, "Parameter", slots, label="self")
        sh = st.heap[self.oid]
        sh.fields["name"] = Conc(NAME)
        sh.init["name"] = sh.fields["name"]
        sh.fields["$hasattr_set_hook"] = Conc(False)      # A-SETHOOK: deprecated Number.set_hook out of scope
        st.pc += [S.is_bool(I, T["allow_refs"]), S.is_bool(I, T["constant"]), S.is_bool(I, T["readonly"])]
        pwatch = I.alloc_dict(st)
        ws_seq = U.fresh_seq("value_watchers")
        info["ws_seq"] = ws_seq
        if wcfg in ("C", "P"):
            I.dict_store(st, pwatch, Conc("value"), I.alloc_list(st, ws_seq))
        sh.fields["watchers"] = pwatch
        sh.init["watchers"] = pwatch
        info.update({"self": self, "T": T})
        # the class-level Parameter (self may be an instance-level copy of it)
        cp, CT = S.param_obj(I, st, "Parameter", {"default": None}, label="class_param")
        info["class_param"] = cp
        info["class_default"] = CT["default"]
        val = Sym(U.fresh("val"))
        info["val"] = val
        if level == "instance":
            W = dm.World(I, st)
            dm.install_flush_contract(I, W)
            info["W"] = W
            info["obj"] = W.obj
            ph = st.heap[W.private.oid]
            values = I.alloc_dict(st)
            old = Sym(U.fresh("old_value"))
            has_old = U.fresh_bool("has_instance_value")
            # two regimes for the instance store: the name present (with value `old`) or absent
            info["old"] = old
            info["has_old"] = has_old
            info["values"] = values
            info["values_has"] = None
            refs = I.alloc_dict(st, keys=U.fresh_seq("refs_keys"), vals=z3.Const("refs_vals", z3.ArraySort(vm.V, vm.V)))
            arefs = I.alloc_dict(st, keys=U.fresh_seq("arefs_keys"), vals=z3.Const("arefs_vals", z3.ArraySort(vm.V, vm.V)))
            syncing = I.alloc_list(st, U.fresh_seq("syncing"))
            owatch = I.alloc_dict(st)
            if wcfg in ("B", "C", "D"):
                inner = I.alloc_dict(st)
                if wcfg == "B":
                    I.dict_store(st, inner, Conc("value"), I.alloc_list(st, ws_seq))
                I.dict_store(st, owatch, Conc(NAME), inner)
            for k, v in (("values", values), ("refs", refs), ("async_refs", arefs), ("syncing", syncing), ("watchers", owatch)):
                ph.fields[k] = v
                ph.init[k] = v
            info.update({"refs": refs, "arefs": arefs, "refs0": (st.heap[refs.oid].keys, st.heap[refs.oid].vals),
                         "arefs0": (st.heap[arefs.oid].keys, st.heap[arefs.oid].vals)})
            # owner: the class, with its own accessor
            owner = I.alloc_obj(st, "ParameterizedMetaclass", lazy=True, label="owner")
            oparam = I.alloc_obj(st, "Parameters", lazy=False, label="owner.param")
            st.heap[oparam.oid].fields.update({"cls": ClsV("Parameterized"), "self": Conc(None)})
            st.heap[owner.oid].fields["param"] = oparam
            sh.fields["owner"] = owner
            sh.init["owner"] = owner
            objv = W.obj
        else:
            W = dm.World(I, st, label="cls")
            dm.install_flush_contract(I, W)
            info["W"] = W
            info["obj"] = None
            sh.fields["owner"] = W.obj
            sh.init["owner"] = W.obj
            objv = Conc(None)
        install(I, W, st, info)
        fv = I.bound_method(self, I.src.find_method("Parameter", "__set__"))
        info["symbols"].update({"val": val.t, "constant": T["constant"], "readonly": T["readonly"]})
        return fv, [objv, val], {}, info

    def setup_instance_variant(with_old):
        def s(I, st):
            fv, args, kw, info = setup(I, st)
            if with_old:
                I.dict_store(st, info["values"], Conc(NAME), info["old"])
            # remember the initial store
            h = st.heap[info["values"].oid]
            info["values0"] = (list(h.ckeys), {k: I.dict_load_c(st, info["values"], k) for k in h.ckeys})
            info["with_old"] = with_old
            return fv, args, kw, info
        return s

    def inv_dispatch(I, st, pre):
        info = holder["info"]
        tr = st.ghost.get("trace_seq")
        if tr is None:
            tr = z3.Empty(vm.SeqV)
        W = info["W"]
        return z3.And(tr == pre.seq, W.bw(st) == W.bw0.t, W.tr(st) == W.tr0.t)

    def havoc_trace(I, st):
        st.ghost["trace_seq"] = I.U.fresh_seq("trace")
        st.ghost["trace"] = []

    LOOPS = {("Parameter.__set__", "sorted(watchers"): LoopSpec("sorted(watchers", inv=inv_dispatch, heap=havoc_trace,
                                                               name="dispatch-in-precedence-order")}

    def post(I, info, st, oc):
        U = I.U
        T = info["T"]
        W = info["W"]
        val = info["val"].t
        selfh = st.heap[info["self"].oid]
        out = []
        how = "raise" if isinstance(oc, Raise) else "return"
        default_now = I.term(selfh.fields["default"])
        default_changed = z3.Not(default_now == T["default"])
        trace = st.ghost.get("trace", [])
        validated = st.ghost.get("validated", [])
        # value actually handed to _validate / stored: the resolved value when a reference was resolved
        stored_val = None
        if info["obj"] is not None:
            h = st.heap[info["values"].oid]
            k0, v0 = info["values0"]
            now_keys = list(h.ckeys)
            now = {k: I.dict_load_c(st, info["values"], k) for k in now_keys}
            values_same = (now_keys == k0) and all(now[k] is v0[k] for k in k0)
            if NAME in now:
                stored_val = I.term(now[NAME])
            store_changed = not values_same
        else:
            values_same = True
            store_changed = False
        refs_same = z3.BoolVal(True)
        if info["obj"] is not None:
            r, a = st.heap[info["refs"].oid], st.heap[info["arefs"].oid]
            refs_same = z3.And(r.keys == info["refs0"][0], r.vals == info["refs0"][1],
                               a.keys == info["arefs0"][0], a.vals == info["arefs0"][1])
        after_store = isinstance(oc, Raise) and oc.origin in ("call_watcher", "flush")
        if isinstance(oc, Raise) and not after_store:
            # ---- C02: rejected assignment has no effect ----
            out.append(("C02/exc-frame/instance-values-unchanged", z3.BoolVal(values_same)))
            out.append(("C02/exc-frame/class-default-unchanged", z3.Not(default_changed)))
            out.append(("C02/exc-frame/refs-and-async-refs-unchanged", refs_same))
            out.append(("C02/exc-frame/no-link-bookkeeping", z3.BoolVal(not st.ghost.get("link_bookkeeping"))))
            out.append(("C02/exc-frame/no-task-cancelled", z3.BoolVal(not st.ghost.get("cancelled"))))
            out.append(("C02/exc-frame/no-watcher-invoked", z3.BoolVal(len(trace) == 0 and not st.ghost.get("flushes"))))
            out.append(("C02/exc-frame/dispatcher-state-unchanged", z3.And(W.bw(st) == W.bw0.t, W.tr(st) == W.tr0.t)))
            out.append(("C01/raises-only-ValueError-TypeError", z3.BoolVal(oc.cls in ("ValueError", "TypeError"))))
            # validate-before-store also on raising paths: nothing may be in the store that
            # `_validate` has not accepted
            if info["obj"] is not None and store_changed:
                okv = z3.Or([stored_val == v for v in validated]) if (validated and stored_val is not None) else z3.BoolVal(False)
                out.append(("C01/stored-instance-value-is-the-validated-value", okv))
            out.append(("C01/stored-class-default-is-the-validated-value",
                        z3.Implies(default_changed, z3.Or([default_now == v for v in validated]) if validated else z3.BoolVal(False))))
            return out
        # ---- C01: validate-before-store ----
        if info["obj"] is not None and store_changed:
            okv = z3.Or([stored_val == v for v in validated]) if (validated and stored_val is not None) else z3.BoolVal(False)
            out.append(("C01/stored-instance-value-is-the-validated-value", okv))
        out.append(("C01/stored-class-default-is-the-validated-value",
                    z3.Implies(default_changed, z3.Or([default_now == v for v in validated]) if validated else z3.BoolVal(False))))
        if info["obj"] is not None:
            out.append(("C12/instance-set-never-writes-the-class-default", z3.Not(default_changed)))
            if not isinstance(oc, Raise) and validated:
                # an accepted assignment gives the instance its OWN value (it no longer follows the
                # class default) — except for a constant of an initialized object, where only the very
                # object already held is accepted
                W_ = info["W"]
                pinned = z3.And(T["constant"] == U.TRUE, W_.initialized(st) == U.TRUE)
                own = (stored_val == validated[-1]) if stored_val is not None else z3.BoolVal(False)
                out.append(("C12/an accepted instance assignment gives the instance its own value", z3.Or(pinned, own)))
            if not isinstance(oc, Raise) and st.ghost.get("resolved_ref") is not None:
                # link / unlink step: exactly one call, after the store, with the right target
                ref_t = I.term(st.ghost["resolved_ref"])
                calls = st.ghost.get("link_calls", [])
                r0 = info["refs0"][0]
                syn = st.heap[st.heap[info["W"].private.oid].fields["syncing"].oid].seq
                linked = z3.Contains(r0, z3.Unit(U.lit(NAME)))
                in_sync = I.seq_contains_eq(syn, U.lit(NAME))
                if validated:
                    if len(calls) == 1:
                        nm_ok = z3.BoolVal(isinstance(calls[0][0], Conc) and calls[0][0].py == NAME)
                        tgt = I.term(calls[0][1])
                        after = z3.BoolVal(calls[0][2] is not None) if not isinstance(calls[0][2], bool) else z3.BoolVal(calls[0][2])
                        if calls[0][2] is not None and stored_val is not None:
                            after = calls[0][2] == stored_val
                        good = z3.And(nm_ok, z3.Or(z3.And(ref_t != U.NONE, tgt == ref_t),
                                                   z3.And(ref_t == U.NONE, linked, z3.Not(in_sync), tgt == U.NONE)))
                    else:
                        good = z3.BoolVal(len(calls) == 0) if len(calls) == 0 else z3.BoolVal(False)
                        good = z3.And(good, ref_t == U.NONE, z3.Or(z3.Not(linked), in_sync))
                    for px in ("C08", "C10"):
                        out.append(("%s/an accepted assignment (re)links a reference, and a plain value unlinks the parameter unless that very name is being synced — whatever else is going on" % px, good))
        else:
            pass
        # ---- C14 guard ----
        init = W.initialized(st) if info["obj"] is not None else None
        if info["obj"] is not None and not isinstance(oc, Raise):
            old_t = info["old"].t if info["with_old"] else T["default"]
            new_t = validated[-1] if validated else val
            forbidden = z3.And(T["constant"] == U.TRUE, init == U.TRUE, z3.Not(new_t == old_t))
            # any normal return for another object than the one held is what the guard must exclude
            # ("every other attempt raises TypeError"), whether or not something was stored
            # (the early return of a pending asynchronous reference / Undefined never reaches the
            # guard and stores nothing: links to constants are driven by _sync_refs by design)
            if validated or store_changed:
                out.append(("C14/constant-of-initialized-object-not-rebound", z3.Not(forbidden)))
        if not isinstance(oc, Raise):
            stored_something = store_changed if info["obj"] is not None else None
            if info["obj"] is not None:
                if store_changed:
                    out.append(("C14/readonly-never-assigned[instance]", z3.Not(T["readonly"] == U.TRUE)))
            else:
                out.append(("C14/readonly-never-assigned[class]", z3.Implies(default_changed, z3.Not(T["readonly"] == U.TRUE))))
        # ---- C03 dispatch ----
        for i, (w, ev, cur, bw) in enumerate(trace[:3]):
            evh = st.heap[ev.oid].fields
            if cur is not None:
                out.append(("C03/watcher-%d-called-after-the-store" % i, cur == I.term(evh["new"])))
            out.append(("C03/event-new-is-the-installed-object[%d]" % i, I.term(evh["new"]) == (validated[-1] if validated else val)))
            if info["obj"] is not None:
                # what the object showed before: its own value, else the default of the class
                # Parameter (or of `self`, for constants pinned at construction)
                old_t = info["old"].t if info["with_old"] else None
            else:
                old_t = T["default"]
            if old_t is not None:
                out.append(("C03/event-old-is-the-replaced-object[%d]" % i, I.term(evh["old"]) == old_t))
            else:
                out.append(("C03/event-old-is-the-replaced-object[%d]" % i,
                            z3.Or(I.term(evh["old"]) == info["class_default"], I.term(evh["old"]) == T["default"])))
        if trace and info["obj"] is not None:
            out.append(("C03/no-dispatch-on-uninitialized-object", init == U.TRUE))
        if not isinstance(oc, Raise):
            ts = st.ghost.get("trace_seq")
            if ts is None:
                ts = z3.Empty(vm.SeqV)
            has_table = wcfg in ("B", "C", "P")
            stored = z3.BoolVal(store_changed) if info["obj"] is not None else default_changed
            dispatched = (init == U.TRUE) if info["obj"] is not None else z3.BoolVal(True)
            if has_table:
                # every value watcher exactly once, in precedence order (A-SORTED), when the
                # assignment went through on an initialized object / a class
                out.append(("C03/each-watcher-exactly-once-in-precedence-order",
                            z3.Implies(z3.And(stored, dispatched), ts == sorted_prec(info["ws_seq"]))))
            else:
                out.append(("C03/no-watcher-no-call", ts == z3.Empty(vm.SeqV)))
            fl = st.ghost.get("flushes", [])
            out.append(("C03/flush-after-dispatch-iff-no-batch-open",
                        z3.Implies(z3.And(stored, dispatched, z3.Length(info["ws_seq"]) > 0) if has_table else z3.BoolVal(False),
                                   z3.And(z3.Implies(W.bw0.t == U.FALSE, z3.BoolVal(len(fl) == 1)),
                                          z3.Implies(W.bw0.t == U.TRUE, z3.BoolVal(len(fl) == 0))))))
        return out

    cs = []
    if level == "instance":
        for with_old in (True, False):
            c = FunctionContract("%s:Parameter.__set__" % MOD, ("C01", "C02", "C03", "C14"), setup_instance_variant(with_old), post,
                                 loops=LOOPS,
                                 name="Parameter.__set__[instance, %s, watchers %s]" % ("value present" if with_old else "value absent", wcfg))
            cs.append(c)
    else:
        def s2(I, st):
            fv, args, kw, info = setup(I, st)
            info["values0"] = ([], {})
            info["with_old"] = False
            return fv, args, kw, info
        cs.append(FunctionContract("%s:Parameter.__set__" % MOD, ("C01", "C02", "C03", "C14"), s2, post, loops=LOOPS,
                                   name="Parameter.__set__[class, watchers %s]" % wcfg))
    return cs


SET_REPLAY = '''import sys, os
sys.path.insert(0, os.environ.get('PYVC_REPO', '/repo'))
import param
class S(param.Parameterized):
    w = param.Number(0.5)
class T(param.Parameterized):
    x = param.Number(0.5, bounds=(0, 1), allow_refs=True)
bad = []
s1 = S(); t = T(x=s1.param.w)
try:
    t.x = 99                      # rejected plain value on a linked parameter
except ValueError:
    pass
s1.w = 0.7
print('after the rejected plain value the link gives t.x =', t.x, '(source is 0.7)')
if t.x != 0.7:
    bad.append('a rejected plain value deleted the existing link')
s1 = S(); s2 = S(w=99); t = T(x=s1.param.w)
try:
    t.x = s2.param.w              # reference whose current value is invalid for the target
except ValueError:
    pass
s1.w = 0.25
print('after the rejected reference t.x =', t.x, '(old source is 0.25); refs =', dict(t._param__private.refs))
if t.x != 0.25:
    bad.append('a rejected invalid-valued reference replaced the existing link')
if bad:
    print('REPRODUCED: C02 ' + '; '.join(bad)); sys.exit(1)
print('NOT-REPRODUCED'); sys.exit(0)
'''


def all_set_contracts(prefixes=None):
    out = []
    for w in ("A", "B", "C", "D"):
        out += set_contract("instance", w)
    for w in ("P", "N"):
        out += set_contract("class", w)
    for c in out:
        c.clause_prefixes = prefixes
        c.static_replay = SET_REPLAY if (prefixes is None or "C02/" in prefixes) else None
        c.static_witness = "rejected assignment on an allow_refs parameter" if c.static_replay else None
    return out


def contracts():
    return all_set_contracts(["C02/", "C12/"])


ASSUMPTIONS = [
    "A-SETHOOK: the deprecated Number.set_hook is absent (identity hook)",
    "A-PUREREF: Parameters._resolve_ref (evaluating a reference) has no effect on param state",
    "callee contracts used modularly: Parameter._validate (returns or raises ValueError/TypeError; verified per type by C01), Parameters._update_ref / _update_deps / _call_watcher / _batch_call_watchers (effects recorded as ghost state)",
    "the dispatch loop `for watcher in sorted(...)` is executed with the arbitrary-iteration rule without an invariant: per-iteration clauses only (old/new/after-store); the exactly-once-in-order clause is carried by the bounded layer",
]


# ======================================================================================
# Parameters._resolve_ref is pure with respect to param state (discharges A-PUREREF for the
# function the setter calls BEFORE validation): no link table, task table or value is touched, no
# task is cancelled; an asynchronous reference is only *scheduled*.
# ======================================================================================
def resolve_ref_frame_contract():
    def configure(I):
        I.sym_fields = {"nested_refs", "name"}

        def pure(name, result=None):
            def h(I, st, fv, args, kwargs, ctx):
                st.ghost["calls"] = st.ghost.get("calls", []) + [name]
                r = Sym(I.U.fresh(name))
                if name == "resolve_value":
                    q = st.fork()
                    return [(st, r), (q, Raise("Skip", origin="resolve_value"))]
                return [(st, r)]
            return h
        I.contracts["resolve_ref"] = pure("resolve_ref")
        I.contracts["resolve_value"] = pure("resolve_value")
        I.contracts["iscoroutinefunction"] = pure("iscoroutinefunction")
        I.lib["inspect.isgeneratorfunction"] = pure("isgeneratorfunction")
        I.lib["functools.partial"] = pure("partial")
        I.lib["new:partial"] = pure("partial")
        I.lib["global:async_executor"] = lambda I: FuncV("builtin", name="async_executor", self=None)

        def executor(I, st, fv, args, kwargs, ctx):
            st.ghost["scheduled"] = st.ghost.get("scheduled", 0) + 1
            return [(st, Conc(None))]
        I.lib["async_executor"] = executor
        I.contracts["async_executor"] = executor

        def vmethod(I, st, name, selfv, args, kwargs, ctx):
            if name == "cancel":
                st.ghost["cancelled"] = st.ghost.get("cancelled", 0) + 1
                return [(st, Conc(None))]
            return None
        I.lib["$value_method"] = vmethod

    def setup(I, st):
        U = I.U
        W = dm.World(I, st, initialized=Conc(True))
        ph = st.heap[W.private.oid]
        tabs = {}
        for k in ("refs", "async_refs", "values"):
            d = I.alloc_dict(st, keys=U.fresh_seq(k + "_keys"), vals=z3.Const(k + "_vals", z3.ArraySort(vm.V, vm.V)))
            ph.fields[k] = d
            ph.init[k] = d
            tabs[k] = (d, st.heap[d.oid].keys, st.heap[d.oid].vals)
        syncing = I.alloc_list(st, U.fresh_seq("syncing"))
        ph.fields["syncing"] = syncing
        ph.init["syncing"] = syncing
        pobj, value = Sym(U.fresh("pobj")), Sym(U.fresh("value"))
        fv = I.bound_method(W.param, I.src.find_method("Parameters", "_resolve_ref"))
        return fv, [pobj, value], {}, {"W": W, "tabs": tabs, "symbols": {}}

    def post(I, info, st, oc):
        out = []
        W = info["W"]
        how = "raise" if isinstance(oc, Raise) else "return"
        for k, (d, keys0, vals0) in info["tabs"].items():
            cur = st.heap[W.private.oid].fields.get(k)
            same = isinstance(cur, Ref) and cur.oid == d.oid
            h = st.heap[d.oid]
            out.append(("C02/resolving a reference leaves `%s` untouched[%s]" % (k, how),
                        z3.And(z3.BoolVal(bool(same)), h.keys == keys0, h.vals == vals0)))
        out.append(("C02/resolving a reference cancels no task[%s]" % how, z3.BoolVal(not st.ghost.get("cancelled"))))
        out.append(("C02/dispatcher state untouched[%s]" % how, z3.And(W.bw(st) == W.bw0.t, W.tr(st) == W.tr0.t)))
        return out
    c = FunctionContract("%s:Parameters._resolve_ref" % MOD, "C02", setup, post, configure=configure,
                         name="Parameters._resolve_ref[frame]")
    return c


_c02_base = contracts


def contracts():
    return _c02_base() + [resolve_ref_frame_contract()]


# ======================================================================================
# class-level route: ParameterizedMetaclass.__setattr__ (copy-on-write of an inherited Parameter)
# ======================================================================================
CLASS_SET_REPLAY = '''import sys, os
sys.path.insert(0, os.environ.get('PYVC_REPO', '/repo'))
import param
bad = []
class A(param.Parameterized):
    x = param.Number(1, bounds=(0, 10))
    r = param.Range((0, 1))
    s = param.Selector(objects=[1, 2])
    f = param.Filename(default=None, check_exists=True)
    k = param.ClassSelector(class_=int, default=1)
for label, attempt in (('B.x = 99', lambda B: setattr(B, 'x', 99)), ('B.r = 5', lambda B: setattr(B, 'r', 5)),
                       ('B.param.update(x=77)', lambda B: B.param.update(x=77)), ('B.s = 3', lambda B: setattr(B, 's', 3)),
                       ('B.f = <missing file>', lambda B: setattr(B, 'f', '/nonexistent/dir/file.txt')),
                       ('B.k = "text"', lambda B: setattr(B, 'k', 'text'))):
    B = type('B', (A,), {})
    try:
        attempt(B)
        bad.append('%s was accepted' % label)
        continue
    except Exception:
        pass
    own = [n for n in ('x', 'r', 's', 'f', 'k') if n in B.__dict__]
    if own:
        bad.append('%s was rejected, but B now has its own Parameter(s) %r' % (label, own))
    A.x = 2.5
    if B.x != 2.5:
        bad.append('%s was rejected; afterwards A.x = 2.5 but B.x is still %r' % (label, B.x))
    A.x = 1
if bad:
    print('REPRODUCED: C02 a rejected class-level assignment is not without effect:')
    for b in bad:
        print('  ', b)
    sys.exit(1)
print('NOT-REPRODUCED'); sys.exit(0)
'''


def class_set_contract():
    from contracts import c13 as _c13
    c = _c13.metaclass_setattr_contract()
    c.prop = "C02"
    c.clause_prefixes = ["C02/"]
    c.name = "ParameterizedMetaclass.__setattr__[rejected class-level assignment]"
    c.static_replay = CLASS_SET_REPLAY
    c.static_witness = "B(A) without own Parameter; B.x = <rejected value>; then A.x = <new value>"
    return c


_c02_base2 = contracts


def contracts():
    # the link step runs after the value has been stored: it must never reject (raise)
    from contracts import c08 as _c08
    links = [_c08.update_ref_contract(False), _c08.update_ref_contract(True)]
    for c in links:
        c.prop = "C02"
        c.clause_prefixes = ["does-not-raise"]
        c.name = c.name + " (never rejects: it runs after the store)"
    return _c02_base2() + [class_set_contract()] + links


# the update route: a rejected key of param.update (exceptional half of Parameters._update)
_c02_base3 = contracts


def contracts():
    from contracts import c05 as _c05
    u = _c05.update_contract()
    u.prop = "C02"
    return _c02_base3() + [u]


# ======================================================================================
# Dynamic.__set__ — nothing happens to a value generator before the assignment is accepted
# ======================================================================================
def dynamic_set_contract(class_level=False):
    """`Dynamic.__set__(obj, val)`: the generator bookkeeping (`_initialize_generator`, which resets the
    generator's cache) runs only AFTER `Parameter.__set__` accepted the value — a rejected assignment of a
    callable that is already the dynamic value of another parameter must not wipe its state."""
    def configure(I):
        def base_set(I, st, fv, args, kwargs, ctx):
            st.ghost["order"] = st.ghost.get("order", []) + ["set"]
            q = st.fork()
            return [(st, Conc(None)), (q, Raise("TypeError", origin="Parameter.__set__"))]
        I.contracts["Parameter.__set__"] = base_set

        def init_gen(I, st, fv, args, kwargs, ctx):
            st.ghost["order"] = st.ghost.get("order", []) + ["initialize_generator"]
            return [(st, Conc(None))]
        I.contracts["Dynamic._initialize_generator"] = init_gen

        def set_inst(I, st, fv, args, kwargs, ctx):
            st.ghost["order"] = st.ghost.get("order", []) + ["set_instantiate"]
            return [(st, Conc(None))]
        I.contracts["Parameter._set_instantiate"] = set_inst
        I.lib["deco:instance_descriptor"] = lambda I, st, fv, args, kwargs, ctx: None

    def setup(I, st):
        self, T = S.param_obj(I, st, "Dynamic", {"name": None}, label="self")
        val = Sym(I.U.fresh("val"))
        if class_level:
            obj, is_ref = Conc(None), z3.BoolVal(False)
        else:
            # an instance with an arbitrary table of linked references
            obj = I.alloc_obj(st, "Parameterized", lazy=True, label="obj")
            priv = I.alloc_obj(st, "_InstancePrivate", lazy=True, label="private")
            refs = I.alloc_dict(st, keys=I.U.fresh_seq("linked_names"), vals=z3.Const("linked_refs", z3.ArraySort(vm.V, vm.V)))
            st.heap[priv.oid].fields["refs"] = refs
            st.heap[obj.oid].fields["_param__private"] = priv
            h = st.heap[refs.oid]
            st.pc.append(vm.ty(T["name"]) == vm.TAG["str"])
            is_ref = z3.And(z3.Contains(h.keys, z3.Unit(T["name"])), z3.Select(h.vals, T["name"]) == val.t)
        fv = I.bound_method(self, I.src.find_method("Dynamic", "__set__"))
        return fv, [obj, val], {}, {"val": val.t, "is_ref": is_ref, "symbols": {}}

    def post(I, info, st, oc):
        order = st.ghost.get("order", [])
        if isinstance(oc, Raise):
            return [("C02/a rejected assignment touches no generator state (nothing runs before or after the refused set)",
                     z3.BoolVal(order == ["set"] and oc.origin == "Parameter.__set__"))]
        first = order[:1] == ["set"]
        n = order.count("initialize_generator")
        return [("C02/the value is assigned first, generator bookkeeping follows", z3.BoolVal(first)),
                ("C02/a callable VALUE is initialised as a generator exactly once; a plain value, and a reference recorded as this parameter's link, never",
                 z3.If(z3.And(vm.is_callable(info["val"]), z3.Not(info["is_ref"])), z3.BoolVal(n == 1), z3.BoolVal(n == 0)))]
    return FunctionContract("param.parameters:Dynamic.__set__", "C02", setup, post, configure=configure,
                            name="Dynamic.__set__[%s]" % ("class" if class_level else "instance"))


_c02_base4 = contracts


def contracts():
    return _c02_base4() + [dynamic_set_contract(False), dynamic_set_contract(True)]


# ---------------------------------------------------------------------------------------------
# concrete probe: parameters whose constraints come from the file system (FileSelector, MultiFileSelector,
# Path/Filename/Foldername): a rejected assignment changes nothing, whatever happened on disk meanwhile
# ---------------------------------------------------------------------------------------------
FILES_REPLAY = '''import sys, os, tempfile, shutil, itertools, logging
sys.path.insert(0, os.environ.get('PYVC_REPO', '/repo'))
logging.disable(logging.WARNING)
import param
bad = []
def snapshot(owner, name):
    p = owner.param[name]
    return {'value': getattr(owner, name), 'objects': list(getattr(p, 'objects', []) or []), 'default': p.default,
            'names': dict(getattr(p, 'names', {}) or {})}
root = tempfile.mkdtemp(prefix='pyvc_files_')
try:
    for kind, disk_change, route in itertools.product(('FileSelector', 'MultiFileSelector'), ('none', 'add', 'remove-current', 'remove-other'),
                                                      ('class', 'class-update', 'instance', 'instance-update', 'subclass')):
        d = os.path.join(root, '%s_%s_%s' % (kind, disk_change, route)); os.makedirs(d)
        files = [os.path.join(d, n) for n in ('a.txt', 'b.txt', 'c.txt')]
        for f in files:
            open(f, 'w').close()
        glob = os.path.join(d, '*.txt')
        if kind == 'FileSelector':
            P = type('P', (param.Parameterized,), {'f': param.FileSelector(path=glob)})
            bad_value = os.path.join(d, 'nope.txt')
        else:
            P = type('P', (param.Parameterized,), {'f': param.MultiFileSelector(path=glob, default=[files[0]])})
            bad_value = [os.path.join(d, 'nope.txt')]
        Q = type('Q', (P,), {})
        inst = P()
        seen = []
        P.param.watch(lambda e: seen.append(('class', e.what, e.name)), 'f', what='objects')
        inst.param.watch(lambda e: seen.append(('inst', e.what, e.name)), 'f')
        current = P.f if kind == 'FileSelector' else P.f[0]
        if disk_change == 'add':
            open(os.path.join(d, 'd.txt'), 'w').close()
        elif disk_change == 'remove-current':
            os.remove(current)
        elif disk_change == 'remove-other':
            os.remove([f for f in files if f != current][0])
        before = {'class': snapshot(P, 'f'), 'instance': snapshot(inst, 'f'), 'subclass': snapshot(Q, 'f'), 'own': 'f' in Q.__dict__}
        del seen[:]
        try:
            if route == 'class':
                P.f = bad_value
            elif route == 'class-update':
                P.param.update(f=bad_value)
            elif route == 'instance':
                inst.f = bad_value
            elif route == 'instance-update':
                inst.param.update(f=bad_value)
            else:
                Q.f = bad_value
        except ValueError:
            pass
        except Exception as e:
            bad.append('%s, files on disk: %s, route %s: raised %r instead of ValueError' % (kind, disk_change, route, e)); continue
        else:
            bad.append('%s, files on disk: %s, route %s: a value that is no file of the directory was accepted' % (kind, disk_change, route)); continue
        invoked = list(seen)
        after = {'class': snapshot(P, 'f'), 'instance': snapshot(inst, 'f'), 'subclass': snapshot(Q, 'f'), 'own': 'f' in Q.__dict__}
        if after != before:
            diff = [k for k in before if before[k] != after[k]]
            bad.append('%s, files on disk: %s, rejected assignment by route %s changed %s: %r -> %r'
                       % (kind, disk_change, route, diff, {k: before[k] for k in diff}, {k: after[k] for k in diff}))
        if invoked:
            bad.append('%s, files on disk: %s, rejected assignment by route %s invoked watchers %r' % (kind, disk_change, route, invoked))
finally:
    shutil.rmtree(root, ignore_errors=True)
# (the copy a subclass gets re-reads the directory and announces its objects: a recorded finding, printed last
# so that anything else is reported first)
bad.sort(key=lambda b: 'route subclass invoked watchers' in b)
for b in bad:
    print(b.replace(root, '<tmp>'))
if bad:
    print('REPRODUCED'); sys.exit(1)
print('NOT-REPRODUCED'); sys.exit(0)
'''

PROBES = [("a rejected assignment to a file-system backed Selector changes nothing", FILES_REPLAY)]


# a rejected assignment inside a batching scope: the scopes restore the queue and the flag on every exit
# (verified for C05), so nothing is left queued for a later, unrelated dispatch
_c02_base_mgr = contracts


def contracts():
    from contracts import c05 as _c05
    extra = [c for c in _c05.contracts() if c.name in ("batch_call_watchers", "_batch_call_watchers", "discard_events")]
    for c in extra:
        c.prop = "C02"
    return _c02_base_mgr() + extra


SCOPES_REPLAY = '''import sys, os, itertools
sys.path.insert(0, os.environ.get('PYVC_REPO', '/repo'))
import param
bad = []
def make():
    class P(param.Parameterized):
        a = param.Number(0)
        b = param.Number(0, bounds=(0, 10))
    return P
SCOPES = {'discard_events': lambda o: param.parameterized.discard_events(o),
          'batch_call_watchers': lambda o: param.parameterized.batch_call_watchers(o),
          'update context': lambda o: o.param.update(a=0.5)}
REJECTED = {'o.b = 99': lambda o: setattr(o, 'b', 99), 'update(b=99)': lambda o: o.param.update(b=99),
            'update(nope=1)': lambda o: o.param.update(nope=1)}
for (sname, scope), (rname, rej), (lname, later), level in itertools.product(SCOPES.items(), REJECTED.items(), REJECTED.items(), ('instance', 'class')):
    P = make()
    o = P() if level == 'instance' else P
    calls = []
    o.param.watch(lambda e, calls=calls: calls.append((e.name, e.new)), ['a', 'b'])
    try:
        with scope(o):
            o.a = 1                      # accepted, queued (or to be discarded)
            rej(o)                       # refused: the exception leaves the scope
    except ValueError:
        pass
    del calls[:]
    va, vb = o.a, o.b
    try:
        later(o)
    except ValueError:
        pass
    else:
        bad.append('%s was accepted' % lname); continue
    if calls:
        bad.append('a scope (%s, %s level) left by the refused %s: the later refused %s invoked watchers with %r'
                   % (sname, level, rname, lname, calls))
if bad:
    print('REPRODUCED: ' + bad[0]); sys.exit(1)
print('NOT-REPRODUCED'); sys.exit(0)
'''

PROBES = PROBES + [("a batching scope left by a refused assignment leaves nothing queued", SCOPES_REPLAY)]


CLASS_REF_REPLAY = '''import sys, os, itertools
sys.path.insert(0, os.environ.get('PYVC_REPO', '/repo'))
import param
bad = []
class Src(param.Parameterized):
    x = param.Number(7)
    s = param.String('a')
class T(param.Parameterized):
    b = param.Number(0, bounds=(0, 10), allow_refs=True)
def snapshot(t):
    return (t.b, dict(t._param__private.refs), len(Src.param.watchers.get('x', {}).get('value', [])) if hasattr(Src.param, 'watchers') else None)
for kind, mkref in (('class-level Parameter', lambda: Src.param.x), ('bind over a class-level Parameter', lambda: param.bind(lambda v: v, Src.param.x)),
                    ('rx of a class-level Parameter', lambda: Src.param.x.rx()), ('class-level Parameter with an invalid value', lambda: Src.param.s)):
    t = T()
    seen = []
    t.param.watch(lambda e: seen.append(e.new), 'b')
    before = (t.b, dict(t._param__private.refs))
    try:
        t.b = mkref()
    except Exception as e:
        after = (t.b, dict(t._param__private.refs))
        if after != before or seen:
            bad.append('assigning a %s raised %s but left value/links %r (were %r), watcher calls %r' % (kind, type(e).__name__, after, before, seen))
        continue
    if 'invalid' in kind:
        bad.append('a %s was accepted' % kind); continue
    if t.b != 7:
        bad.append('a %s was accepted but the parameter holds %r' % (kind, t.b))
    Src.x = 8
    if t.b != 8:
        bad.append('linked to a %s: after the class value changed the parameter holds %r' % (kind, t.b))
    Src.x = 7
if bad:
    print('REPRODUCED: ' + bad[0]); sys.exit(1)
print('NOT-REPRODUCED'); sys.exit(0)
'''

PROBES = PROBES + [("references that depend on class-level Parameters", CLASS_REF_REPLAY)]


# an Event that refuses a value keeps the state it was in — in particular an Event that is switched on
# for the duration of an update stays on when an assignment made meanwhile is refused (Event.__set__ is
# verified for C05: what the reset does per mode, on every exit)
_c02_base_event = contracts


def contracts():
    from contracts import c05 as _c05
    extra = [_c05.event_set_contract(m) for m in ("set-reset", "set", "reset")]
    for c in extra:
        c.prop = "C02"
    return _c02_base_event() + extra
