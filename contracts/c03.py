"""C03 — each change reaches each watcher exactly once with true old/new values.

Deductive part: the dispatch tail of `Parameter.__set__` (contracts/c02.py, clauses C03/...):
the `for watcher in sorted(watchers, key=precedence)` loop is verified with the inductive
invariant "the ghost trace equals the processed prefix of the sorted list", so each value watcher
is handed to `_call_watcher` exactly once, in precedence order (A-SORTED: `sorted` is a stable
sort by key), after the store, with old/new being the objects replaced/installed; the flush
follows iff no batch is open.  `_call_watcher`/`_execute_watcher`/`Comparator` are covered by
the bounded layer only (see level note)."""
from contracts import c02 as _c02

PROP = "C03"


def contracts():
    return _c02.all_set_contracts(["C03/"])


ASSUMPTIONS = _c02.ASSUMPTIONS + ["A-SORTED: sorted(xs, key) is a stable sort by key (uninterpreted sorted_by_precedence)"]


# ======================================================================================
# Parameters._call_watcher — filtering, typing, batching branch, per-watcher batching scope
# ======================================================================================
import z3

from contracts import dispatch_model as dm
from pyvc import spec as S
from pyvc import values as vm
from pyvc.engine import OutOfReach, Raise
from pyvc.values import BoolV, ClsV, Conc, FuncV, Ref, Sym, TupV
from pyvc.verify import FunctionContract

changed = z3.Function("changed", vm.V, z3.BoolSort())      # ¬Comparator.is_equal(event.old, event.new)


def call_watcher_contract():
    def configure(I):
        def new_event(I, st, fv, args, kwargs, ctx):
            r = I.alloc_obj(st, "Event", lazy=False, label="typed_event")
            st.heap[r.oid].fields.update(kwargs)
            return [(st, r)]
        I.lib["new:Event"] = new_event

    def setup(I, st):
        U = I.U
        W = dm.World(I, st)
        oc_, qd = Sym(U.fresh("onlychanged")), Sym(U.fresh("queued"))
        st.pc += [S.is_bool(I, oc_.t), S.is_bool(I, qd.t)]
        watcher = I.alloc_obj(st, "Watcher", lazy=True, label="watcher")
        wh = st.heap[watcher.oid]
        wh.fields.update({"onlychanged": oc_, "queued": qd})
        wh.init.update({"onlychanged": oc_, "queued": qd})
        event = I.alloc_obj(st, "Event", lazy=False, label="event")
        flds = {k: Sym(U.fresh("event." + k)) for k in ("what", "name", "obj", "cls", "old", "new")}
        flds["type"] = Conc(None)
        st.heap[event.oid].fields.update(flds)
        info = {"W": W, "watcher": watcher, "event": event, "oc": oc_.t, "qd": qd.t, "flds": flds,
                "symbols": {"BATCH_WATCH0": W.bw0.t, "TRIGGER0": W.tr0.t, "onlychanged": oc_.t, "queued": qd.t}}

        def changed_c(I, st2, fv, args, kwargs, ctx):
            return [(st2, BoolV(changed(I.term(args[0]))))]
        I.contracts["Parameters._changed"] = changed_c

        def execute(I, st2, fv, args, kwargs, ctx):
            st2.ghost["exec"] = st2.ghost.get("exec", []) + [(args[0], args[1], W.bw(st2), W.tr(st2))]
            q = st2.fork()
            return [(st2, Conc(None)), (q, Raise("$User", origin="watcher"))]
        I.contracts["Parameters._execute_watcher"] = execute
        dm.install_flush_contract(I, W)
        fv = I.bound_method(W.param, I.src.find_method("Parameters", "_call_watcher"))
        return fv, [watcher, event], {}, info

    def post(I, info, st, oc):
        U = I.U
        W = info["W"]
        w = I.term(info["watcher"])
        e = I.term(info["event"])
        TR, BW = W.tr0.t == U.TRUE, W.bw0.t == U.TRUE
        qualifies = z3.Or(TR, info["oc"] == U.FALSE, changed(e))
        ev, ws = W.ev_seq(st), W.ws_seq(st)
        ex = st.ghost.get("exec", [])
        how = "raise" if isinstance(oc, Raise) else "return"
        out = [("exit/BATCH_WATCH-restored[%s]" % how, W.bw(st) == W.bw0.t),
               ("exit/TRIGGER-untouched[%s]" % how, W.tr(st) == W.tr0.t),
               ("no-flush-here", z3.BoolVal(not st.ghost.get("flushes")))]
        # not qualifying: no effect at all
        out.append(("filtered (changes-only, equal, no trigger) => no call and queues unchanged",
                    z3.Implies(z3.Not(qualifies), z3.And(z3.BoolVal(len(ex) == 0), ev == W.ev_seq0, ws == W.ws_seq0))))
        # batching branch: deferred, coalescable, watcher queued once
        out.append(("batch open => no watcher runs", z3.Implies(BW, z3.BoolVal(len(ex) == 0))))
        out.append(("batch open and qualifying => event appended",
                    z3.Implies(z3.And(BW, qualifies), ev == z3.Concat(W.ev_seq0, z3.Unit(e)))))
        out.append(("batch open and qualifying => watcher queued exactly once (identity)",
                    z3.Implies(z3.And(BW, qualifies),
                               ws == z3.If(z3.Contains(W.ws_seq0, z3.Unit(w)), W.ws_seq0, z3.Concat(W.ws_seq0, z3.Unit(w))))))
        # immediate branch
        out.append(("no batch and qualifying => watcher executed exactly once",
                    z3.Implies(z3.And(z3.Not(BW), qualifies), z3.BoolVal(len(ex) == 1))))
        out.append(("no batch => queues untouched by the dispatch itself",
                    z3.Implies(z3.Not(BW), z3.And(ev == W.ev_seq0, ws == W.ws_seq0))))
        if len(ex) == 1:
            (xw, xevs, xbw, xtr) = ex[0]
            out.append(("executes the given watcher", I.term(xw) == w))
            items = xevs.items if isinstance(xevs, TupV) else None
            ok = items is not None and len(items) == 1 and isinstance(items[0], Ref)
            out.append(("handed exactly one event", z3.BoolVal(bool(ok))))
            if ok:
                f = st.heap[items[0].oid].fields
                want = z3.If(TR, U.lit("triggered"), z3.If(info["oc"] == U.TRUE, U.lit("changed"), U.lit("set")))
                out.append(("event type is triggered / changed / set", I.term(f["type"]) == want))
                same = z3.And([I.term(f[k]) == I.term(info["flds"][k]) for k in ("what", "name", "obj", "cls", "old", "new")])
                out.append(("event carries the same what/name/obj/cls/old/new", same))
            out.append(("callback runs inside a batching scope iff the watcher is queued",
                        xbw == z3.If(z3.Or(info["qd"] == U.TRUE, W.bw0.t == U.TRUE), U.TRUE, U.FALSE)))
        if isinstance(oc, Raise):
            out.append(("only a watcher's exception escapes", z3.BoolVal(oc.cls == "$User")))
        return out
    return FunctionContract("param.parameterized:Parameters._call_watcher", "C03", setup, post, configure=configure,
                            name="Parameters._call_watcher")


def update_event_type_contract():
    def configure(I):
        def new_event(I, st, fv, args, kwargs, ctx):
            r = I.alloc_obj(st, "Event", lazy=False, label="typed_event")
            st.heap[r.oid].fields.update(kwargs)
            return [(st, r)]
        I.lib["new:Event"] = new_event

    def setup(I, st):
        U = I.U
        self = I.alloc_obj(st, "Parameters", lazy=True, label="self_")
        oc_ = Sym(U.fresh("onlychanged"))
        trig = Sym(U.fresh("triggered"))
        st.pc += [S.is_bool(I, oc_.t), S.is_bool(I, trig.t)]
        watcher = I.alloc_obj(st, "Watcher", lazy=True, label="watcher")
        st.heap[watcher.oid].fields["onlychanged"] = oc_
        event = I.alloc_obj(st, "Event", lazy=False, label="event")
        flds = {k: Sym(U.fresh("event." + k)) for k in ("what", "name", "obj", "cls", "old", "new", "type")}
        st.heap[event.oid].fields.update(flds)
        fv = I.bound_method(self, I.src.find_method("Parameters", "_update_event_type"))
        return fv, [watcher, event, trig], {}, {"oc": oc_.t, "trig": trig.t, "flds": flds, "symbols": {}}

    def post(I, info, st, oc):
        U = I.U
        if isinstance(oc, Raise) or not isinstance(oc, Ref):
            return [("returns an event", z3.BoolVal(False))]
        f = st.heap[oc.oid].fields
        want = z3.If(info["trig"] == U.TRUE, U.lit("triggered"), z3.If(info["oc"] == U.TRUE, U.lit("changed"), U.lit("set")))
        return [("type is triggered / changed / set", I.term(f["type"]) == want),
                ("other fields copied", z3.And([I.term(f[k]) == info["flds"][k].t for k in ("what", "name", "obj", "cls", "old", "new")]))]
    return FunctionContract("param.parameterized:Parameters._update_event_type", "C03", setup, post, configure=configure,
                            name="Parameters._update_event_type")


_set_contracts = contracts


def contracts():
    return _set_contracts() + [call_watcher_contract(), update_event_type_contract()]


# ======================================================================================
# Comparator.compare_iterator / compare_mapping — container equality relative to element equality
# ======================================================================================
is_eq = z3.Function("is_equal", vm.V, vm.V, z3.BoolSort())


def _install_is_equal(I):
    def is_equal(I, st, fv, args, kwargs, ctx):
        return [(st, BoolV(is_eq(I.term(args[0]), I.term(args[1]))))]
    I.contracts["Comparator.is_equal"] = is_equal


def compare_iterator_contract():
    from pyvc.loops import LoopSpec
    holder = {}

    def configure(I):
        _install_is_equal(I)

    def setup(I, st):
        U = I.U
        a, b = Sym(U.fresh("obj1")), Sym(U.fresh("obj2"))
        # sequences compared position by position: lists and tuples (sets: known finding C03-b01)
        st.pc += [U.has_type(a.t, ["tuple", "list"]), U.has_type(b.t, ["tuple", "list"])]
        f = S.fold(I, "all_positions_equal", lambda x, i: is_eq(x, vm.titem(b.t, i)), indexed=True)
        holder["f"] = f
        f.of_value(a.t, unfold=0)
        c, m, fd = I.src.find_method("Comparator", "compare_iterator")
        fv = FuncV("repo", module=m, cls=c, node=fd, self=ClsV("Comparator"), qual="Comparator.compare_iterator")
        return fv, [a, b], {}, {"a": a.t, "b": b.t, "f": f, "symbols": {}}

    def post(I, info, st, oc):
        if isinstance(oc, Raise):
            return [("does-not-raise", z3.BoolVal(False))]
        t = I.truth_in(st, oc)
        tb = z3.BoolVal(t) if isinstance(t, bool) else t
        a, b = info["a"], info["b"]
        want = z3.And(vm.ty(a) == vm.ty(b), vm.tlen(a) == vm.tlen(b), info["f"].tfn(a, vm.tlen(a)))
        return [("equal  <=>  same container type, same length and equal elements at every position "
                 "(a genuine change is never suppressed; equal containers are always equal)", tb == want)]
    loops = {("Comparator.compare_iterator", "zip"): LoopSpec("zip", inv=lambda I, st, pre: pre.all(holder["f"]), name="positions-equal")}
    return FunctionContract("param.parameterized:Comparator.compare_iterator", "C03", setup, post, configure=configure,
                            loops=loops, name="Comparator.compare_iterator")


def compare_mapping_contract():
    from pyvc.loops import LoopSpec
    holder = {}

    def configure(I):
        _install_is_equal(I)

    def setup(I, st):
        U = I.U
        d1 = I.alloc_dict(st, keys=U.fresh_seq("keys1"), vals=z3.Const("vals1", z3.ArraySort(vm.V, vm.V)))
        d2 = I.alloc_dict(st, keys=U.fresh_seq("keys2"), vals=z3.Const("vals2", z3.ArraySort(vm.V, vm.V)))
        h1, h2 = st.heap[d1.oid], st.heap[d2.oid]
        k2, v1, v2 = h2.keys, h1.vals, h2.vals
        f = S.fold(I, "all_keys_match", lambda k: z3.And(z3.Contains(k2, z3.Unit(k)), is_eq(z3.Select(v1, k), z3.Select(v2, k))))
        holder["f"] = f
        c, m, fd = I.src.find_method("Comparator", "compare_mapping")
        fv = FuncV("repo", module=m, cls=c, node=fd, self=ClsV("Comparator"), qual="Comparator.compare_mapping")
        return fv, [d1, d2], {}, {"k1": h1.keys, "k2": k2, "f": f, "symbols": {}}

    def post(I, info, st, oc):
        if isinstance(oc, Raise):
            return [("does-not-raise", z3.BoolVal(False))]
        t = I.truth_in(st, oc)
        tb = z3.BoolVal(t) if isinstance(t, bool) else t
        want = z3.And(z3.Length(info["k1"]) == z3.Length(info["k2"]), info["f"].sfn(info["k1"]))
        return [("equal  <=>  same number of keys, every key of the first is a key of the second and the values "
                 "stored under the SAME key are equal (independent of insertion order)", tb == want)]
    loops = {("Comparator.compare_mapping", "obj1"): LoopSpec("obj1", inv=lambda I, st, pre: pre.all(holder["f"]), name="keys-match")}
    c = FunctionContract("param.parameterized:Comparator.compare_mapping", "C03", setup, post, configure=configure,
                         loops=loops, name="Comparator.compare_mapping")
    c.static_replay = COMPARATOR_REPLAY
    c.static_witness = "pairs of plain containers (dicts with equal / reordered / different keys, None values; nested lists and tuples) vs =="
    return c


COMPARATOR_REPLAY = '''import sys, os, itertools
sys.path.insert(0, os.environ.get('PYVC_REPO', '/repo'))
import param
from param.parameterized import Comparator
bad = []
atoms = [None, 0, 1, 'a', '', (1, 2), [1], [1, 2], {'k': 1}]
dicts = [{}, {'a': None}, {'b': None}, {'a': 1}, {'a': 1, 'b': 2}, {'b': 2, 'a': 1}, {'a': None, 'b': None}, {'c': None, 'd': None},
         {'a': [1], 'b': 2}, {'b': 2, 'a': [1]}, {'a': [1], 'b': 3}, {'a': {'x': None}}, {'a': {'y': None}}, {1: 'x'}, {2: 'x'}]
seqs = [[], [1], [2], [1, 2], [2, 1], [[1], 2], [[1], 3], (1,), (1, 2), [None], [0], [{'a': 1}], [{'a': 2}], [{'b': 1}],
        [(0, 1), (2, 3)], [[0, 1], [2, 3]], ([0, 1], [2, 3]), ((0, 1), (2, 3)), [[(0,)]], [[[0]]], [{'k': (1,)}], [{'k': [1]}]]
import decimal, fractions, datetime
# numbers of every kind, also those a float cannot tell apart, and scalars next to each other
numbers = [0, 1, -1, 2 ** 53, 2 ** 53 + 1, 2 ** 64, 2 ** 64 + 1, 10 ** 30, 10 ** 30 + 1, 0.1, 0.30000000000000004, 0.3, 1e300, float('inf'),
           decimal.Decimal('0.1'), decimal.Decimal('0.10000000000000000001'), decimal.Decimal('1E+30'), fractions.Fraction(1, 3),
           fractions.Fraction(1, 10), 1 + 2j, 1 + 3j]
nested_numbers = [[2 ** 53], [2 ** 53 + 1], (10 ** 30,), (10 ** 30 + 1,), {'k': 2 ** 64}, {'k': 2 ** 64 + 1}, [0.3], [0.30000000000000004]]
scalars = ['a', 'b', b'a', b'b', datetime.date(2020, 1, 1), datetime.date(2020, 1, 2), datetime.datetime(2020, 1, 1, 0, 0, 0),
           datetime.datetime(2020, 1, 1, 0, 0, 1)]
for fam in (numbers, nested_numbers, scalars):
    for x, y in itertools.product(fam, repeat=2):
        want = (x == y) and (type(x) is type(y) or fam is numbers)
        try:
            got = Comparator.is_equal(x, y)
        except Exception as e:
            bad.append('is_equal(%r, %r) raised %r' % (x, y, e)); continue
        if want != bool(got) and not (fam is numbers and x == y):
            bad.append('is_equal(%r, %r) is %r' % (x, y, got))
        if x != y and got:
            bad.append('is_equal(%r, %r) is %r although the values differ: a genuine change would be suppressed' % (x, y, got))
for fam in (dicts, seqs, atoms):
    for x, y in itertools.product(fam, repeat=2):
        want = (x == y) and type(x) is type(y)
        got = Comparator.is_equal(x, y)
        if bool(got) != want:
            bad.append('is_equal(%r, %r) is %r' % (x, y, got))
if bad:
    print('REPRODUCED: C03 Comparator.is_equal disagrees with equality on plain values (a change suppressed or a non-change reported):')
    for b in bad[:8]:
        print('  ', b)
    sys.exit(1)
print('NOT-REPRODUCED'); sys.exit(0)
'''


_c03_base2 = contracts


def contracts():
    return _c03_base2() + [compare_iterator_contract(), compare_mapping_contract()]


# the flush delivers queued events: WHICH event reaches a watcher (last queued per (name, what))
_c03_base3 = contracts


def contracts():
    from contracts import c04 as _c04
    f = _c04.flush_contract()
    f.prop = "C03"
    return _c03_base3() + [f]


# delivery also rests on the batching managers and on trigger (per-watcher scope, flags restored)
_c03_base4 = contracts


def contracts():
    from contracts import c04 as _c04, c05 as _c05
    extra = [c for c in _c05.contracts() if c.name in ("batch_call_watchers", "_batch_call_watchers", "discard_events")] + [_c04.trigger_contract()]
    for c in extra:
        c.prop = "C03"
    return _c03_base4() + extra

# class-level watchers of an inherited Parameter: the subclass's copy shares the watcher table
_c03_base5 = contracts


def contracts():
    from contracts import c13 as _c13
    c = _c13.metaclass_setattr_contract()
    c.prop = "C03"
    c.clause_prefixes = ["C03/"]
    c.name = "ParameterizedMetaclass.__setattr__[watcher table of the copied Parameter]"
    return _c03_base5() + [c]


# the update route: every accepted change of a multi-parameter update is announced by the time the
# call returns or raises (verified for C05; a change left queued would reach its watchers late, with
# stale old/new, next to a later event)
_c03_base6 = contracts


def contracts():
    from contracts import c05 as _c05
    u = _c05.update_contract()
    u.prop = PROP
    return _c03_base6() + [u]


# every watcher with a qualifying event runs — also when an earlier one ended itself with param.Skip
# (`_execute_watcher` is verified for C04)
_c03_base_exec = contracts


def contracts():
    from contracts import c04 as _c04
    c = _c04.execute_watcher_contract("args")
    c.prop = PROP
    return _c03_base_exec() + [c]
