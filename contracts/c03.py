"""C03 — each change reaches each watcher exactly once with true old/new values.

Deductive part: the dispatch tail of `Parameter.__set__` (contracts/c02.py, clauses C03/...):
the `for watcher in sorted(watchers, key=precedence)` loop is verified with the inductive
invariant "the ghost trace equals the processed prefix of the sorted list", so each value watcher
is handed to `_call_watcher` exactly once, in precedence order (A-SORTED: `sorted` is a stable
sort by key), after the store, with old/new being the objects replaced/installed; the flush
follows iff no batch is open.  `_call_watcher`/`_execute_watcher`/`Comparator` are covered by
the bounded layer only (see level note)."""
from contracts import c02 as _c02

PROP = "C03"


def contracts():
    return _c02.all_set_contracts(["C03/"])


ASSUMPTIONS = _c02.ASSUMPTIONS + ["A-SORTED: sorted(xs, key) is a stable sort by key (uninterpreted sorted_by_precedence)"]
